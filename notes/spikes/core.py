"""Design spike 2 (throwaway): loader + resolver + light typing, shared by esc2.py.
Usage: import core; P = core.Program('/repo/src')"""
import ast, os, collections

BUILTIN_EXC = {
    'IndexError': 'LookupError', 'KeyError': 'LookupError', 'LookupError': 'Exception', 'ValueError': 'Exception',
    'UnicodeDecodeError': 'ValueError', 'TypeError': 'Exception', 'AttributeError': 'Exception',
    'struct.error': 'Exception', 'asyncio.InvalidStateError': 'Exception', 'TimeoutError': 'OSError',
    'OSError': 'Exception', 'RuntimeError': 'Exception', 'NotImplementedError': 'RuntimeError',
    'AssertionError': 'Exception', 'StopIteration': 'Exception', 'Exception': 'BaseException',
    'asyncio.CancelledError': 'BaseException', 'KeyboardInterrupt': 'BaseException',
    'FileNotFoundError': 'OSError', 'ConnectionError': 'OSError', 'ConnectionResetError': 'ConnectionError',
    'asyncio.IncompleteReadError': 'EOFError', 'EOFError': 'Exception', 'PermissionError': 'OSError',
    'BaseException': None, 'sqlite3.Error': 'Exception',
}


class Program:
    def __init__(self, root):
        self.root = root
        self.mods = {}
        for dp, dn, fn in os.walk(os.path.join(root, 'ndn')):
            if 'contrib' in dp:
                continue
            for f in fn:
                if f.endswith('.py'):
                    p = os.path.join(dp, f)
                    self.mods[self._modname(p)] = (p, ast.parse(open(p).read()))
        self.ispkg = {m for m, (p, _) in self.mods.items() if p.endswith('__init__.py')}
        self.defs = {}
        self.stars = collections.defaultdict(list)
        for m, (p, t) in self.mods.items():
            d = self.defs.setdefault(m, {})
            for n in t.body:
                self._top(m, d, n)
        self.classes = {}
        for m in self.mods:
            for n, k in self.defs[m].items():
                if k[0] == 'class':
                    self.classes[(m, n)] = k[1]
        self.subclasses = collections.defaultdict(set)
        for (m, c) in self.classes:
            for b in self.mro(m, c)[1:]:
                self.subclasses[b].add((m, c))
        # functions: qual -> (mod, cls|None, node, parentqual|None)
        self.funcs = {}
        for m, (p, t) in self.mods.items():
            for n in t.body:
                if isinstance(n, (ast.FunctionDef, ast.AsyncFunctionDef)):
                    self._addfunc(m, None, n, m + '.' + n.name, None)
                if isinstance(n, ast.ClassDef):
                    for b in n.body:
                        if isinstance(b, (ast.FunctionDef, ast.AsyncFunctionDef)):
                            self._addfunc(m, n.name, b, m + '.' + n.name + '.' + b.name, None)

    def _addfunc(self, m, cls, node, qual, parent):
        self.funcs[qual] = (m, cls, node, parent)
        for s in ast.walk(node):
            if s is not node and isinstance(s, (ast.FunctionDef, ast.AsyncFunctionDef)):
                # nested (direct or deeper); register once with dotted path by name
                q = qual + '.<' + s.name + '>'
                if q not in self.funcs:
                    self.funcs[q] = (m, cls, s, qual)
            if s is not node and isinstance(s, ast.ClassDef):
                for b in s.body:
                    if isinstance(b, (ast.FunctionDef, ast.AsyncFunctionDef)):
                        q = qual + '.<' + s.name + '>.' + b.name
                        self.funcs[q] = (m, None, b, qual)

    def _modname(self, path):
        rel = os.path.relpath(path, self.root)[:-3].replace('/', '.')
        return rel[:-9] if rel.endswith('.__init__') else rel

    def _absmod(self, cur, level, module):
        if level == 0:
            return module
        base = cur.split('.') if cur in self.ispkg else cur.split('.')[:-1]
        base = base[:len(base) - (level - 1)]
        return '.'.join(base + ([module] if module else []))

    def _top(self, m, d, n):
        if isinstance(n, (ast.FunctionDef, ast.AsyncFunctionDef)):
            d[n.name] = ('func', n)
        elif isinstance(n, ast.ClassDef):
            d[n.name] = ('class', n)
        elif isinstance(n, ast.Assign):
            for tg in n.targets:
                if isinstance(tg, ast.Name):
                    d[tg.id] = ('const', n.value)
        elif isinstance(n, ast.AnnAssign) and isinstance(n.target, ast.Name) and n.value is not None:
            d[n.target.id] = ('const', n.value)
        elif isinstance(n, ast.Import):
            for a in n.names:
                d[a.asname or a.name.split('.')[0]] = ('mod', a.name if a.asname else a.name.split('.')[0])
        elif isinstance(n, ast.ImportFrom):
            src = self._absmod(m, n.level, n.module)
            for a in n.names:
                if a.name == '*':
                    self.stars[m].append(src)
                else:
                    full = src + '.' + a.name
                    if full in self.mods:
                        d[a.asname or a.name] = ('mod', full)
                    else:
                        d[a.asname or a.name] = ('alias', src, a.name)
        elif isinstance(n, ast.If):
            for x in n.body + n.orelse:
                self._top(m, d, x)

    def lookup(self, m, name, seen=()):
        if (m, name) in seen or m not in self.defs:
            return None
        seen = seen + ((m, name),)
        d = self.defs[m]
        if name in d:
            k = d[name]
            if k[0] == 'alias':
                r = self.lookup(k[1], k[2], seen)
                return r if r else ('ext', k[1] + '.' + k[2])
            if k[0] == 'mod':
                return ('mod', k[1]) if k[1] in self.mods else ('ext', k[1])
            return (k[0], m, name, k[1])
        sub = m + '.' + name
        if sub in self.mods:
            return ('mod', sub)
        for s in self.stars[m]:
            r = self.lookup(s, name, seen)
            if r:
                return r
        return None

    def resolve(self, m, e):
        if isinstance(e, ast.Name):
            return self.lookup(m, e.id)
        if isinstance(e, ast.Attribute):
            b = self.resolve(m, e.value)
            if not b:
                return None
            if b[0] == 'mod':
                return self.lookup(b[1], e.attr) or ('ext', b[1] + '.' + e.attr)
            if b[0] == 'ext':
                return ('ext', b[1] + '.' + e.attr)
            if b[0] == 'class':
                return self.find_member(b[1], b[2], e.attr)
        return None

    def bases(self, m, c):
        out = []
        for b in self.classes[(m, c)].bases:
            r = self.resolve(m, b)
            if r and r[0] == 'class':
                out.append((r[1], r[2]))
        return out

    def mro(self, m, c):
        out = [(m, c)]
        for b in self.bases(m, c):
            for x in self.mro(*b):
                if x not in out:
                    out.append(x)
        return out

    def find_member(self, m, c, name):
        for (mm, cc) in self.mro(m, c):
            for n in self.classes[(mm, cc)].body:
                if isinstance(n, (ast.FunctionDef, ast.AsyncFunctionDef)) and n.name == name:
                    return ('method', mm, cc, name, n)
                if isinstance(n, ast.Assign) and any(isinstance(t, ast.Name) and t.id == name for t in n.targets):
                    return ('classattr', mm, cc, name, n.value)
                if isinstance(n, ast.AnnAssign) and isinstance(n.target, ast.Name) and n.target.id == name:
                    return ('classann', mm, cc, name, n.annotation, n.value)
        return None

    # ---- exception names
    def exc_name(self, m, e):
        if isinstance(e, ast.Call):
            e = e.func
        r = self.resolve(m, e)
        if r:
            if r[0] == 'class':
                return r[1] + '.' + r[2]
            if r[0] == 'ext':
                return r[1].replace('asyncio.exceptions.', 'asyncio.')
        if isinstance(e, ast.Name):
            return e.id
        return ast.unparse(e)

    def supers(self, x):
        out = [x]
        while True:
            if x in BUILTIN_EXC:
                x = BUILTIN_EXC[x]
            elif '.' in x and tuple(x.rsplit('.', 1)) in self.classes:
                m, c = x.rsplit('.', 1)
                bs = self.classes[(m, c)].bases
                x = self.exc_name(m, bs[0]) if bs else None
            else:
                x = None
            if not x:
                return out
            out.append(x)

    # ---- annotation -> class
    def ann_class(self, m, ann):
        """Return (mod, cls) for an annotation expr, looking through Optional / X | None / list[X] (elem)"""
        if ann is None:
            return None
        if isinstance(ann, ast.Constant) and isinstance(ann.value, str):
            try:
                ann = ast.parse(ann.value, mode='eval').body
            except SyntaxError:
                return None
        if isinstance(ann, ast.BinOp) and isinstance(ann.op, ast.BitOr):
            return self.ann_class(m, ann.left) or self.ann_class(m, ann.right)
        r = self.resolve(m, ann) if isinstance(ann, (ast.Name, ast.Attribute)) else None
        if r and r[0] == 'class':
            return (r[1], r[2])
        return None

    def ann_elem_class(self, m, ann):
        if isinstance(ann, ast.Subscript) and isinstance(ann.value, ast.Name) and ann.value.id in ('list', 'List'):
            return self.ann_class(m, ann.slice)
        return None
