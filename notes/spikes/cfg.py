"""Design spike (throwaway): statement CFG with split short-circuit tests, and must-pass-through queries."""
import ast, sys, itertools
import core


class Node:
    _ids = itertools.count()

    def __init__(self, kind, ast_node=None, label=''):
        self.id = next(Node._ids)
        self.kind = kind      # entry, exit, stmt, test, raise, return
        self.ast = ast_node
        self.label = label
        self.succ = []        # (node, edge_label)  edge_label in (None, True, False, 'exc')

    def __repr__(self):
        return f'<{self.id}:{self.kind}:{self.label[:40]}>'


class CFG:
    def __init__(self, fn):
        self.fn = fn
        self.nodes = []
        self.entry = self.new('entry')
        self.exit = self.new('exit')       # normal return / fall off end
        self.raise_exit = self.new('raise_exit')
        self.loop_stack = []
        self.try_stack = []   # list of handler entry lists
        ends = self.block(fn.body, [(self.entry, None)])
        self.fall_off = self.new('stmt', None, '<fall off end>')
        for (n, l) in ends:
            n.succ.append((self.fall_off, l))
        self.fall_off.succ.append((self.exit, None))

    def new(self, kind, a=None, label=''):
        n = Node(kind, a, label)
        self.nodes.append(n)
        return n

    def link(self, preds, node):
        for (p, l) in preds:
            p.succ.append((node, l))

    # returns list of (node,label) dangling exits
    def cond(self, test, preds):
        """returns (true_exits, false_exits)"""
        if isinstance(test, ast.BoolOp):
            if isinstance(test.op, ast.And):
                t_ex, f_all = preds, []
                for v in test.values:
                    t_ex, f_ex = self.cond(v, t_ex)
                    f_all += f_ex
                return t_ex, f_all
            else:
                f_ex, t_all = preds, []
                for v in test.values:
                    t_ex, f_ex = self.cond(v, f_ex)
                    t_all += t_ex
                return t_all, f_ex
        if isinstance(test, ast.UnaryOp) and isinstance(test.op, ast.Not):
            t, f = self.cond(test.operand, preds)
            return f, t
        n = self.new('test', test, ast.unparse(test))
        self.link(preds, n)
        self.exc_edges(n)
        return [(n, True)], [(n, False)]

    def exc_edges(self, n):
        if self.try_stack:
            for h in self.try_stack[-1]:
                n.succ.append((h, 'exc'))

    def block(self, body, preds):
        for s in body:
            preds = self.stmt(s, preds)
        return preds

    def stmt(self, s, preds):
        if isinstance(s, (ast.FunctionDef, ast.AsyncFunctionDef, ast.ClassDef)):
            n = self.new('stmt', s, 'def ' + s.name)
            self.link(preds, n)
            return [(n, None)]
        if isinstance(s, ast.If):
            t, f = self.cond(s.test, preds)
            return self.block(s.body, t) + self.block(s.orelse, f)
        if isinstance(s, ast.While):
            head = self.new('stmt', None, 'while-head')
            self.link(preds, head)
            t, f = self.cond(s.test, [(head, None)])
            brk = []
            self.loop_stack.append((head, brk))
            ends = self.block(s.body, t)
            self.loop_stack.pop()
            self.link(ends, head)
            return self.block(s.orelse, f) + brk
        if isinstance(s, (ast.For, ast.AsyncFor)):
            head = self.new('test', s.iter, 'for ' + ast.unparse(s.target) + ' in ' + ast.unparse(s.iter))
            self.link(preds, head)
            self.exc_edges(head)
            brk = []
            self.loop_stack.append((head, brk))
            ends = self.block(s.body, [(head, True)])
            self.loop_stack.pop()
            self.link(ends, head)
            return self.block(s.orelse, [(head, False)]) + brk
        if isinstance(s, ast.Break):
            self.loop_stack[-1][1].extend(preds)
            return []
        if isinstance(s, ast.Continue):
            self.link(preds, self.loop_stack[-1][0])
            return []
        if isinstance(s, ast.Return):
            n = self.new('return', s, ast.unparse(s))
            self.link(preds, n)
            self.exc_edges(n)
            n.succ.append((self.exit, None))
            return []
        if isinstance(s, ast.Raise):
            n = self.new('raise', s, ast.unparse(s))
            self.link(preds, n)
            if self.try_stack:
                self.exc_edges(n)
            n.succ.append((self.raise_exit, None))   # conservatively also escapes
            return []
        if isinstance(s, ast.Try):
            hentries = [self.new('stmt', h, 'except ' + (ast.unparse(h.type) if h.type else '')) for h in s.handlers]
            self.try_stack.append(hentries)
            ends = self.block(s.body, preds)
            self.try_stack.pop()
            ends = self.block(s.orelse, ends)
            for h, he in zip(s.handlers, hentries):
                ends += self.block(h.body, [(he, None)])
            if s.finalbody:
                ends = self.block(s.finalbody, ends)
            return ends
        if isinstance(s, (ast.With, ast.AsyncWith)):
            n = self.new('stmt', s, 'with ' + ', '.join(ast.unparse(i.context_expr) for i in s.items))
            self.link(preds, n)
            self.exc_edges(n)
            return self.block(s.body, [(n, None)])
        n = self.new('stmt', s, ast.unparse(s).split('\n')[0])
        self.link(preds, n)
        self.exc_edges(n)
        return [(n, None)]

    # ---- queries
    def reachable(self, start, removed_nodes=(), removed_edges=()):
        seen, todo = set(), [start]
        while todo:
            n = todo.pop()
            if n.id in seen or n in removed_nodes:
                continue
            seen.add(n.id)
            for (m, l) in n.succ:
                if (n, l) in removed_edges or (n.id, l) in removed_edges:
                    continue
                todo.append(m)
        return seen

    def find(self, pred):
        return [n for n in self.nodes if pred(n)]


def calls_in(n, attr=None, name=None):
    if n.ast is None:
        return []
    root = n.ast
    nodes = ast.walk(root) if not isinstance(root, (ast.FunctionDef, ast.AsyncFunctionDef, ast.ExceptHandler, ast.With, ast.AsyncWith)) else \
        (ast.walk(root.items[0].context_expr) if isinstance(root, (ast.With, ast.AsyncWith)) else [])
    out = []
    for x in nodes:
        if isinstance(x, ast.Call):
            f = x.func
            if attr and isinstance(f, ast.Attribute) and f.attr == attr:
                out.append(x)
            if name and ast.unparse(f) == name:
                out.append(x)
    return out


if __name__ == '__main__':
    P = core.Program(sys.argv[1])

    def cfg_of(q):
        return CFG(P.funcs[q][2])

    # C05.MPT.2  submit_interest: node.callback reachable only via accepting edge
    g = cfg_of('ndn.appv2.NDNApp._on_interest.<submit_interest>')
    sinks = g.find(lambda n: calls_in(n, name='node.callback'))
    tests = g.find(lambda n: n.kind == 'test' and 'ValidResult' in n.label)
    print('submit_interest tests:', tests, 'sinks:', sinks)
    removed = {(t.id, True) for t in tests}
    r = g.reachable(g.entry, removed_edges=removed)
    print('  callback reachable without any accepting edge:', any(s.id in r for s in sinks))
    # which constants reach `valid`
    print('  defs of valid:', [n.label for n in g.find(lambda n: n.kind == 'stmt' and n.label.startswith('valid ='))])
    # C04.MPT.1  reply: sends only through false edge of now > deadline
    g = cfg_of('ndn.appv2.NDNApp._on_interest.<reply>')
    t = g.find(lambda n: n.kind == 'test' and 'deadline' in n.label)
    sinks = g.find(lambda n: calls_in(n, attr='_put_raw_packet') or calls_in(n, attr='_put_raw_packet_with_pit_token'))
    r = g.reachable(g.entry, removed_edges={(t[0].id, False)})
    print('reply: sends reachable with the not-expired edge removed:', any(s.id in r for s in sinks), ' sinks', len(sinks))
    # C04.RET.1 fall-off-end reachable?
    r = g.reachable(g.entry)
    print('reply: can fall off the end (returns None):', g.fall_off.id in r)
    # C03.REL.1: every raise in handlers of _wait_for_data preceded by remover
    for q in ('ndn.appv2.NDNApp._wait_for_data', 'ndn.app.NDNApp._wait_for_data'):
        g = cfg_of(q)
        removers = g.find(lambda n: calls_in(n, attr='timeout') or calls_in(n, attr='_remove_pending'))
        for he in g.find(lambda n: n.label.startswith('except ')):
            raises = [n for n in g.nodes if n.kind == 'raise' and n.id in g.reachable(he)]
            r = g.reachable(he, removed_nodes=set(removers))
            bad = [x.label for x in raises if x.id in r]
            print(q.split('.')[1], he.label, '-> raises reachable without a remover:', bad)
    # C17.MPT.1: return True only through status test
    for q in ('ndn.transport.nfd_registerer.NfdRegister.register', 'ndn.transport.nfd_registerer.NfdRegister.unregister',
              'ndn.app.NDNApp.register', 'ndn.app.NDNApp.unregister'):
        g = cfg_of(q)
        tests = g.find(lambda n: n.kind == 'test' and 'status_code' in n.label)
        rets = g.find(lambda n: n.kind == 'return' and n.label in ('return True',) or n.kind == 'return' and 'status_code' in n.label)
        retT = g.find(lambda n: n.kind == 'return' and n.label == 'return True')
        removed = set()
        for t in tests:
            # accepting edge: False edge of '!= 200', True edge of '== 200'
            removed.add((t.id, False if '!=' in t.label else True))
        r = g.reachable(g.entry, removed_edges=removed)
        print(q.split('.')[-2] + '.' + q.split('.')[-1], 'status tests', len(tests), "-> 'return True' reachable without passing the 200 test:",
              any(x.id in r for x in retT))
    # C17.ORD.1: express call inside `async with semaphore`
    for q in ('ndn.app.NDNApp.unregister', 'ndn.app.NDNApp.register'):
        g = cfg_of(q)
        withs = g.find(lambda n: n.label.startswith('with ') and 'semaphore' in n.label)
        sends = g.find(lambda n: calls_in(n, attr='express_interest'))
        r = g.reachable(g.entry, removed_nodes=set(withs))
        print(q.split('.')[-1], 'semaphore withs', len(withs), '-> command reachable outside the semaphore:', any(s.id in r for s in sends))
