"""Design spike 2 (throwaway): exception-escape analysis with handler filtering, CHA, typed receivers,
call-site constants, name kinds, nullable TLV fields, future-completion guards, trie KeyError.
Usage: esc2.py <src-root> <entry-qualname>..."""
import ast, sys, collections
import core

ROOT = sys.argv[1]
P = core.Program(ROOT)

FIELD_KINDS = {'UintField', 'BoolField', 'BytesField', 'NameField', 'ModelField', 'RepeatedField', 'MapField',
               'SignatureValueField', 'InterestNameField', 'ProcedureArgument', 'OffsetMarker'}


def is_model(mc):
    return mc in P.classes and any(b == ('ndn.encoding.tlv_model', 'TlvModel') for b in P.mro(*mc))


def field_info(mc, attr):
    """-> (kind, nullable, nested(mod,cls)|None, elem_nested|None) for model class attr"""
    r = P.find_member(mc[0], mc[1], attr)
    if not r:
        return None
    if r[0] == 'classattr' and isinstance(r[4], ast.Call):
        call = r[4]
        fn = call.func.attr if isinstance(call.func, ast.Attribute) else getattr(call.func, 'id', None)
        if fn not in FIELD_KINDS:
            return None
        m = r[1]
        nested = elem = None
        nullable = True
        if fn == 'ModelField' and len(call.args) >= 2:
            nested = P.ann_class(m, call.args[1])
        if fn == 'RepeatedField':
            nullable = False
            inner = call.args[0]
            if isinstance(inner, ast.Call):
                ifn = inner.func.attr if isinstance(inner.func, ast.Attribute) else getattr(inner.func, 'id', None)
                if ifn == 'ModelField' and len(inner.args) >= 2:
                    elem = P.ann_class(m, inner.args[1])
        if fn in ('MapField', 'ProcedureArgument', 'OffsetMarker'):
            nullable = False
        if fn in ('NameField', 'InterestNameField', 'UintField', 'BytesField', 'BoolField'):
            # default given and not None -> non-null
            dflt = None
            for kw in call.keywords:
                if kw.arg == 'default':
                    dflt = kw.value
            if fn == 'NameField' and call.args:
                dflt = call.args[0]
            if fn in ('UintField', 'BytesField') and len(call.args) >= 2:
                dflt = call.args[1]
            if dflt is not None and not (isinstance(dflt, ast.Constant) and dflt.value is None):
                nullable = False
        return (fn, nullable, nested, elem)
    if r[0] == 'classann':
        ann = r[4]
        txt = ast.unparse(ann)
        nullable = 'None' in txt or 'Optional' in txt
        return ('ann', nullable, P.ann_class(r[1], ann), P.ann_elem_class(r[1], ann))
    return None


# ---------------------------------------------------------------- tables (would be the frozen tables)
EXT_RAISES = {
    'struct.unpack': {'struct.error'}, 'struct.unpack_from': {'struct.error'},
    'struct.pack': {'struct.error'}, 'struct.pack_into': {'struct.error'},
    'bytes.decode': {'UnicodeDecodeError'},
}
SAFE_ATTR_CALLS = {'append', 'get', 'items', 'keys', 'values', 'split', 'update', 'digest', 'format', 'join', 'hex',
                   'encode', 'extend', 'copy', 'write', 'getvalue', 'startswith', 'endswith', 'sort', 'add',
                   'warning', 'debug', 'error', 'info', 'isEnabledFor', 'setdefault', 'longest_prefix', 'prefixes',
                   'itervalues', 'clear', 'cancel', 'done', 'cancelled', 'set', 'send', 'close', 'sendto', 'wait',
                   'create_future', 'sleep', 'copy', 'count', 'issubset', 'toreadonly', 'upper'}
USER_CALLBACKS = {'callback', 'validator', 'on_missing_data', 'test_func'}
RECEIVER_TABLE = {  # frozen receiver types with reason
    ('ndn.transport.prefix_registerer.PrefixRegisterer', 'app'): ('ndn.appv2', 'NDNApp'),
}
TRIE_VALUES = {  # trie attribute -> value class (from the setdefault(...) sites)
    ('ndn.appv2', '_pit'): ('ndn.appv2', 'InterestTreeNode'), ('ndn.appv2', '_fib'): ('ndn.appv2', 'PrefixTreeNode'),
    ('ndn.app', '_int_tree'): ('ndn.name_tree', 'InterestTreeNode'), ('ndn.app', '_prefix_tree'): ('ndn.name_tree', 'PrefixTreeNode'),
    ('ndn.app_support.dispatcher', '_tree'): ('ndn.name_tree', 'PrefixTreeNode'),
}
# frozen kind-conditional summaries of the polymorphic Name helpers: (qualname, kind) -> raise set
KIND_SUMMARY = {}
for _h in ('normalize', 'to_str', 'to_bytes', 'to_canonical_uri', 'is_prefix'):
    for _k in ('FormalName', 'LibEncoded'):
        KIND_SUMMARY[('ndn.encoding.name.Name.' + _h, _k)] = {}
NAME_POLY = {'ndn.encoding.name.Name.normalize', 'ndn.encoding.name.Name.to_str', 'ndn.encoding.name.Name.to_bytes',
             'ndn.encoding.name.Name.to_canonical_uri', 'ndn.encoding.name.Name.is_prefix'}
MEASURING = {'parse_tl_num', 'len', 'memoryview', 'bytes', 'getattr', 'parse_and_check_tl', 'sha256'}

summ = {}
INPROG = set()


class Ctx:
    def __init__(self, consts=None, kinds=None):
        self.consts = consts or {}
        self.kinds = kinds or {}

    def key(self):
        return (tuple(sorted((k, repr(v)) for k, v in self.consts.items())), tuple(sorted(self.kinds.items())))


def terminates(body):
    return bool(body) and isinstance(body[-1], (ast.Return, ast.Raise, ast.Continue, ast.Break))


def analyze(q, ctx=None):
    ctx = ctx or Ctx()
    key = (q, ctx.key())
    if key in summ:
        return summ[key]
    if key in INPROG:
        return {}
    INPROG.add(key)
    m, cls, fn, parent = P.funcs[q]
    res = {}
    env = {}      # var -> (mod, cls) instance type
    elem = {}     # var -> elem class for lists
    kinds = dict(ctx.kinds)
    consts = dict(ctx.consts)
    a = fn.args
    allargs = a.posonlyargs + a.args + a.kwonlyargs
    for arg in allargs:
        if arg.annotation is not None:
            t = P.ann_class(m, arg.annotation)
            if t:
                env[arg.arg] = t
            txt = ast.unparse(arg.annotation)
            if txt.endswith('FormalName') and arg.arg not in kinds:
                kinds[arg.arg] = 'FormalName'
    if cls and allargs and allargs[0].arg in ('self', 'cls'):
        env[allargs[0].arg] = (m, cls)
    # closures inherit the parent's simple facts (params annotated in parent)
    if parent:
        pm, pcls, pfn, _ = P.funcs[parent]
        for arg in pfn.args.args + pfn.args.kwonlyargs:
            if arg.annotation is not None:
                t = P.ann_class(pm, arg.annotation)
                if t and arg.arg not in env:
                    env[arg.arg] = t
                if ast.unparse(arg.annotation).endswith('FormalName') and arg.arg not in kinds:
                    kinds[arg.arg] = 'FormalName'
        if pcls:
            env.setdefault('self', (pm, pcls))

    def add(exc, w):
        res.setdefault((exc, w.split(' :: ')[-1]), w)

    def emit(exc, w, hs):
        for hnames in reversed(hs):
            if any(h in P.supers(exc) for h in hnames):
                return
        add(exc, w)

    # ----- typing of expressions
    def type_of(e):
        if isinstance(e, ast.Name):
            return env.get(e.id)
        if isinstance(e, ast.Attribute):
            bt = type_of(e.value)
            if bt:
                fi = field_info(bt, e.attr) if (is_model(bt) or True) else None
                if fi and fi[2]:
                    return fi[2]
                key = (bt[0] + '.' + bt[1], e.attr)
                for (mm, cc) in P.mro(*bt):
                    if (mm + '.' + cc, e.attr) in RECEIVER_TABLE:
                        return RECEIVER_TABLE[(mm + '.' + cc, e.attr)]
                r = P.find_member(bt[0], bt[1], e.attr)
                if r and r[0] == 'classann':
                    return P.ann_class(r[1], r[4])
                if r and r[0] == 'classattr' and isinstance(r[4], ast.Call):
                    rr = P.resolve(r[1], r[4].func)
                    if rr and rr[0] == 'class':
                        return (rr[1], rr[2])
                # self.x = C(...) in __init__
                init = P.find_member(bt[0], bt[1], '__init__')
                if init and init[0] == 'method':
                    anns = {a_.arg: a_.annotation for a_ in init[4].args.args + init[4].args.kwonlyargs if a_.annotation is not None}
                    for s in ast.walk(init[4]):
                        if isinstance(s, ast.Assign) and isinstance(s.value, ast.Name) and s.value.id in anns:
                            for tg in s.targets:
                                if isinstance(tg, ast.Attribute) and tg.attr == e.attr and isinstance(tg.value, ast.Name) and tg.value.id == 'self':
                                    ann = anns[s.value.id]
                                    if isinstance(ann, ast.Subscript) and ast.unparse(ann.value) == 'type':
                                        ann = ann.slice
                                    t_ = P.ann_class(init[1], ann)
                                    if t_:
                                        return t_
                    for s in ast.walk(init[4]):
                        if isinstance(s, ast.Assign) and isinstance(s.value, ast.Call):
                            for tg in s.targets:
                                if isinstance(tg, ast.Attribute) and tg.attr == e.attr and isinstance(tg.value, ast.Name) and tg.value.id == 'self':
                                    rr = P.resolve(init[1], s.value.func)
                                    if rr and rr[0] == 'class':
                                        return (rr[1], rr[2])
            return None
        if isinstance(e, ast.Subscript) and isinstance(e.value, ast.Attribute) and (m, e.value.attr) in TRIE_VALUES:
            return TRIE_VALUES[(m, e.value.attr)]
        if isinstance(e, ast.Subscript) and not isinstance(e.slice, ast.Slice):
            et = elem_type_of(e.value)
            if et:
                return et
        if isinstance(e, ast.Attribute) and e.attr == 'value' and isinstance(e.value, ast.Name) and e.value.id == 'trie_step':
            for (mm, attr), v in TRIE_VALUES.items():
                if mm == m and attr in ('_fib', '_prefix_tree', '_tree'):
                    return v
        if isinstance(e, ast.Call) and isinstance(e.func, ast.Attribute) and e.func.attr == 'setdefault' \
                and isinstance(e.func.value, ast.Attribute) and (m, e.func.value.attr) in TRIE_VALUES:
            return TRIE_VALUES[(m, e.func.value.attr)]
        if isinstance(e, ast.Call) and isinstance(e.func, ast.Name) and e.func.id == 'cls' and cls:
            return (m, cls)
        if isinstance(e, ast.Call):
            r = P.resolve(m, e.func)
            if r and r[0] == 'class':
                return (r[1], r[2])
            if r and r[0] in ('func', 'method'):
                node = r[-1]
                if node.returns is not None:
                    return P.ann_class(r[1], node.returns)
            if isinstance(e.func, ast.Attribute) and e.func.attr == 'parse':
                rb = P.resolve(m, e.func.value)
                if rb and rb[0] == 'class':
                    return (rb[1], rb[2])
            if isinstance(e.func, ast.Attribute) and e.func.attr == 'parse' and isinstance(e.func.value, ast.Name) and e.func.value.id == 'cls' and cls:
                return (m, cls)
        return None

    def elem_type_of(e):
        if isinstance(e, ast.Name) and e.id in elem:
            return elem[e.id]
        if isinstance(e, ast.Attribute):
            bt = type_of(e.value)
            if bt:
                fi = field_info(bt, e.attr)
                if fi and fi[3]:
                    return fi[3]
                r = P.find_member(bt[0], bt[1], e.attr)
                if r and r[0] == 'classann':
                    return P.ann_elem_class(r[1], r[4])
        return None

    # ----- nullness
    nonnull = set()

    def path(e):
        if isinstance(e, ast.Name):
            return e.id
        if isinstance(e, ast.Attribute):
            b = path(e.value)
            return b + '.' + e.attr if b else None
        return None

    nullable_vars = {}

    def is_nullable(e):
        p = path(e)
        if p and p in nonnull:
            return False
        if isinstance(e, ast.Name):
            return nullable_vars.get(e.id, False)
        if isinstance(e, ast.Attribute):
            bt = type_of(e.value)
            if bt:
                fi = field_info(bt, e.attr)
                if fi:
                    return fi[1]
        return False

    def facts(test, truth):
        """access paths proven non-null when `test` evaluates to `truth`"""
        out = set()
        if isinstance(test, ast.UnaryOp) and isinstance(test.op, ast.Not):
            return facts(test.operand, not truth)
        if isinstance(test, ast.BoolOp):
            if isinstance(test.op, ast.And) and truth:
                for v in test.values:
                    out |= facts(v, True)
            if isinstance(test.op, ast.Or) and not truth:
                for v in test.values:
                    out |= facts(v, False)
            return out
        if isinstance(test, ast.Compare) and len(test.ops) == 1 and isinstance(test.comparators[0], ast.Constant) and test.comparators[0].value is None:
            p = path(test.left)
            if p:
                if isinstance(test.ops[0], ast.IsNot) and truth:
                    out.add(p)
                if isinstance(test.ops[0], ast.Is) and not truth:
                    out.add(p)
            return out
        if isinstance(test, ast.Compare) and len(test.ops) == 1 and isinstance(test.ops[0], ast.In) and truth:
            out.add('in:' + ast.unparse(test.comparators[0]) + ':' + ast.unparse(test.left))
        p = path(test)
        if p and truth:
            out.add(p)
            out.add('nonempty:' + p)
        return out

    # ----- constant evaluation of tests under ctx
    def const_test(test):
        if isinstance(test, ast.UnaryOp) and isinstance(test.op, ast.Not):
            v = const_test(test.operand)
            return None if v is None else (not v)
        if isinstance(test, ast.Name) and test.id in consts:
            return bool(consts[test.id])
        if isinstance(test, ast.Compare) and len(test.ops) == 1 and isinstance(test.left, ast.Name) and test.left.id in consts \
                and isinstance(test.comparators[0], ast.Constant) and test.comparators[0].value is None:
            isnone = consts[test.left.id] is None
            return isnone if isinstance(test.ops[0], ast.Is) else (not isnone)
        if isinstance(test, ast.Call) and isinstance(test.func, ast.Name) and test.args and isinstance(test.args[0], ast.Name):
            k = kinds.get(test.args[0].id)
            if k == 'FormalName':
                if test.func.id == 'is_binary_str':
                    return False
                if test.func.id == 'isinstance' and ast.unparse(test.args[1]) == 'str':
                    return False
                if test.func.id == 'isinstance' and ast.unparse(test.args[1]) == 'Iterable':
                    return True
            if k == 'LibEncoded' and test.func.id == 'is_binary_str':
                return True
        return None

    # ----- calls
    def kind_of_arg(e):
        if isinstance(e, ast.Name):
            if e.id in kinds:
                return kinds[e.id]
        if isinstance(e, ast.Call):
            r = P.resolve(m, e.func)
            if r and r[0] == 'func':
                qn = r[1] + '.' + r[2]
                if qn in ('ndn.encoding.name.Name.to_bytes', 'ndn.encoding.name.Name.encode'):
                    return 'LibEncoded'
                if qn in ('ndn.encoding.name.Name.normalize', 'ndn.encoding.name.Name.from_str', 'ndn.encoding.name.Name.from_bytes'):
                    return 'FormalName'
        if isinstance(e, ast.Attribute):
            bt = type_of(e.value)
            if bt:
                fi = field_info(bt, e.attr)
                if fi and fi[0] in ('NameField', 'InterestNameField'):
                    return 'FormalName'
        return None

    def call_targets(c):
        f = c.func
        r = P.resolve(m, f)
        if r:
            if r[0] == 'func':
                return [r[1] + '.' + r[2]], None
            if r[0] == 'method':
                return [r[1] + '.' + r[2] + '.' + r[3]], None
            if r[0] == 'class':
                init = P.find_member(r[1], r[2], '__init__')
                return ([init[1] + '.' + init[2] + '.__init__'] if init and init[0] == 'method' else []), None
            if r[0] == 'ext':
                return [], r[1]
        if isinstance(f, ast.Name):
            # nested function of this or parent function
            for base in (q, parent):
                if base and base + '.<' + f.id + '>' in P.funcs:
                    return [base + '.<' + f.id + '>'], None
            return [], 'builtin.' + f.id
        if isinstance(f, ast.Attribute):
            if isinstance(f.value, ast.Call) and isinstance(f.value.func, ast.Name) and f.value.func.id == 'super' and cls:
                for (bm, bc) in P.mro(m, cls)[1:]:
                    rr = P.find_member(bm, bc, f.attr)
                    if rr and rr[0] == 'method':
                        return [rr[1] + '.' + rr[2] + '.' + rr[3]], None
            if f.attr in USER_CALLBACKS:
                return [], 'usercallback'
            if f.attr in ('set_result', 'set_exception'):
                return [], 'asyncio.Future.' + f.attr
            if f.attr == 'decode' and isinstance(f.value, ast.Call) and getattr(f.value.func, 'id', '') == 'bytes':
                return [], 'bytes.decode'
            rt = type_of(f.value)
            if rt and rt in P.classes:
                out = []
                rr = P.find_member(rt[0], rt[1], f.attr)
                if rr and rr[0] == 'method':
                    out.append(rr[1] + '.' + rr[2] + '.' + rr[3])
                for (sm, sc) in P.subclasses[rt]:
                    r2 = P.find_member(sm, sc, f.attr)
                    if r2 and r2[0] == 'method':
                        qn = r2[1] + '.' + r2[2] + '.' + r2[3]
                        if qn not in out:
                            out.append(qn)
                if out:
                    return out, None
            # list element typed receivers: ret._encoded_fields[i].parse_from
            if f.attr in SAFE_ATTR_CALLS:
                return [], 'safe'
            return [], 'unresolved.' + ast.unparse(f)
        return [], 'unresolved'

    unresolved = res.setdefault(('__unresolved__', ''), [])

    def do_call(c, hs, line):
        targets, ext = call_targets(c)
        if ext in EXT_RAISES:
            for e in EXT_RAISES[ext]:
                emit(e, f'{m}:{line} {ext}', hs)
        if ext and ext.startswith('unresolved'):
            unresolved.append(f'{m}:{line} {ext}')
        # Future completion
        if isinstance(c.func, ast.Attribute) and c.func.attr in ('set_result', 'set_exception'):
            p = path(c.func.value)
            if ('done:' + str(p)) not in nonnull:
                emit('asyncio.InvalidStateError', f'{m}:{line} {ast.unparse(c.func)}() unguarded', hs)
        # nullable args to measuring functions
        fname = c.func.attr if isinstance(c.func, ast.Attribute) else getattr(c.func, 'id', '')
        if fname in MEASURING:
            for arg in c.args[:1]:
                if is_nullable(arg):
                    emit('TypeError', f'{m}:{line} nullable {ast.unparse(arg)} passed to {fname}()', hs)
        for tq in targets:
            tm, tcls, tfn, _ = P.funcs[tq]
            # call-site context
            cc, ck = {}, {}
            params = [x.arg for x in tfn.args.args]
            if tcls and params and params[0] in ('self', 'cls'):
                params = params[1:]
            defaults = tfn.args.defaults
            dmap = {}
            allp = [x.arg for x in tfn.args.args]
            for i, d in enumerate(defaults):
                dmap[allp[len(allp) - len(defaults) + i]] = d
            bound = {}
            for i, arg in enumerate(c.args):
                if i < len(params):
                    bound[params[i]] = arg
            for kw in c.keywords:
                if kw.arg:
                    bound[kw.arg] = kw.value
            for pn in params:
                v = bound.get(pn, dmap.get(pn))
                if isinstance(v, ast.Constant):
                    cc[pn] = v.value
                if v is not None and pn in bound:
                    k = kind_of_arg(v)
                    if k:
                        ck[pn] = k
            if ck and (tq, next(iter(ck.values()))) in KIND_SUMMARY and params and params[0] in ck:
                continue
            sub = analyze(tq, Ctx(cc, ck))
            for (e, site), w in sub.items():
                if e == '__unresolved__':
                    continue
                emit(e, f'{m}:{line} -> {tq} :: {w}', hs)

    def expr(node, hs, line):
        nonlocal nonnull
        if node is None:
            return
        if isinstance(node, ast.BoolOp):
            saved = set(nonnull)
            for v in node.values:
                expr(v, hs, line)
                nonnull = nonnull | facts(v, isinstance(node.op, ast.And))
            nonnull = saved
            return
        if isinstance(node, ast.IfExp):
            expr(node.test, hs, line)
            saved = set(nonnull)
            nonnull = saved | facts(node.test, True)
            expr(node.body, hs, line)
            nonnull = saved | facts(node.test, False)
            expr(node.orelse, hs, line)
            nonnull = saved
            return
        if not isinstance(node, (ast.Name, ast.Constant)) and any(isinstance(c, (ast.BoolOp, ast.IfExp)) for c in ast.iter_child_nodes(node)):
            # visit children separately so that nested BoolOps get narrowing; then own node shallowly
            for c in ast.iter_child_nodes(node):
                if isinstance(c, ast.expr):
                    expr(c, hs, line)
            shallow = True
        else:
            shallow = False
        for x in ([node] if shallow else ast.walk(node)):
            if isinstance(x, (ast.Lambda, ast.GeneratorExp)) and x is not node:
                pass
            if isinstance(x, ast.Subscript) and isinstance(x.ctx, ast.Load) and not isinstance(x.slice, ast.Slice):
                v = x.value
                if isinstance(v, ast.Call) and isinstance(v.func, ast.Attribute) and v.func.attr in ('unpack', 'unpack_from', 'split', 'fetchone'):
                    continue
                if isinstance(v, ast.Attribute) and v.attr in ('_encoded_fields',):
                    continue
                if isinstance(v, ast.Call):
                    r = P.resolve(m, v.func)
                    if r and r[0] == 'func' and all(isinstance(s.value, ast.Tuple) for s in ast.walk(r[3]) if isinstance(s, ast.Return) and s.value is not None):
                        continue
                vt = type_of(v)
                recv = ast.unparse(v)
                rc = P.resolve(m, v) if isinstance(v, (ast.Name, ast.Attribute)) else None
                if rc and rc[0] == 'const' and isinstance(rc[3], ast.Dict):
                    if ('in:' + recv + ':' + ast.unparse(x.slice)) not in nonnull:
                        emit('KeyError', f'{m}:{line} constant dict lookup {ast.unparse(x)}', hs)
                    continue
                if vt and vt[1] == 'NameTrie' or recv.endswith(('_pit', '_int_tree', '_fib', '_prefix_tree', '_tree')):
                    emit('KeyError', f'{m}:{line} trie lookup {ast.unparse(x)}', hs)
                elif ('ensured:' + recv + ':' + ast.unparse(x.slice)) in nonnull:
                    continue
                elif isinstance(v, ast.Name) and v.id in ('kwargs', 'markers', 'ret', 'config') or recv.endswith(('__dict__', 'environ')) or isinstance(x.slice, ast.Constant) and isinstance(x.slice.value, str) or isinstance(x.slice, ast.JoinedStr):
                    emit('KeyError', f'{m}:{line} dict lookup {ast.unparse(x)}', hs)
                elif isinstance(x.slice, ast.UnaryOp) and ('nonempty:' + recv) in nonnull:
                    continue
                elif recv == 'data' and isinstance(x.slice, ast.Constant) and 'DataTuple' in ast.unparse(fn.args):
                    continue
                else:
                    emit('IndexError', f'{m}:{line} subscript {ast.unparse(x)}', hs)
            if isinstance(x, ast.Attribute) and isinstance(x.ctx, ast.Load) and is_nullable(x.value):
                emit('AttributeError', f'{m}:{line} attribute .{x.attr} of nullable {ast.unparse(x.value)}', hs)
            if isinstance(x, ast.Compare) and any(isinstance(o, (ast.Lt, ast.Gt, ast.LtE, ast.GtE)) for o in x.ops):
                for side in [x.left] + x.comparators:
                    if is_nullable(side):
                        emit('TypeError', f'{m}:{line} ordering comparison with nullable {ast.unparse(side)}', hs)
            if isinstance(x, ast.Call):
                do_call(x, hs, line)

    def assign_types(s):
        if isinstance(s, ast.Assign) and len(s.targets) == 1 and isinstance(s.targets[0], ast.Name):
            v = s.targets[0].id
            t = type_of(s.value)
            if t:
                env[v] = t
            et = elem_type_of(s.value)
            if et:
                elem[v] = et
            k = kind_of_arg(s.value)
            if k:
                kinds[v] = k
            nullable_vars[v] = is_nullable(s.value) if isinstance(s.value, (ast.Attribute, ast.Name)) else False
            nonnull.discard(v)
        if isinstance(s, ast.Assign) and len(s.targets) == 1 and isinstance(s.targets[0], ast.Tuple) and isinstance(s.value, ast.Call):
            r = P.resolve(m, s.value.func)
            if r and r[0] == 'func' and r[2] in ('parse_interest', 'parse_data'):
                first = s.targets[0].elts[0]
                if isinstance(first, ast.Name):
                    kinds[first.id] = 'FormalName'

    def block(body, hs):
        for i, s in enumerate(body):
            stmt(s, hs)

    def stmt(s, hs):
        nonlocal nonnull
        if isinstance(s, (ast.FunctionDef, ast.AsyncFunctionDef, ast.ClassDef)):
            return
        if isinstance(s, ast.Raise):
            if s.exc is not None:
                expr(s.exc, hs, s.lineno)
                emit(P.exc_name(m, s.exc), f'{m}:{s.lineno} raise {ast.unparse(s.exc)[:50]}', hs)
            return
        if isinstance(s, ast.Try):
            hn = []
            for h in s.handlers:
                if h.type is None:
                    hn.append('BaseException')
                elif isinstance(h.type, ast.Tuple):
                    hn += [P.exc_name(m, e) for e in h.type.elts]
                else:
                    hn.append(P.exc_name(m, h.type))
            saved = set(nonnull)
            block(s.body, hs + [hn])
            after_body = set(nonnull)
            for h in s.handlers:
                nonnull = set(saved)
                block(h.body, hs)
            nonnull = after_body
            block(s.orelse, hs)
            block(s.finalbody, hs)
            return
        if isinstance(s, ast.If) and isinstance(s.test, ast.Compare) and len(s.test.ops) == 1 and isinstance(s.test.ops[0], ast.NotIn) \
                and len(s.body) == 1 and isinstance(s.body[0], ast.Assign) and isinstance(s.body[0].targets[0], ast.Subscript) \
                and ast.unparse(s.body[0].targets[0].value) == ast.unparse(s.test.comparators[0]) \
                and ast.unparse(s.body[0].targets[0].slice) == ast.unparse(s.test.left) and not s.orelse:
            nonnull.add('ensured:' + ast.unparse(s.test.comparators[0]) + ':' + ast.unparse(s.test.left))
            return
        if isinstance(s, ast.If):
            expr(s.test, hs, s.lineno)
            ct = const_test(s.test)
            saved = set(nonnull)
            tfacts, ffacts = facts(s.test, True), facts(s.test, False)
            # future done() guard facts
            for c in ast.walk(s.test):
                if isinstance(c, ast.Call) and isinstance(c.func, ast.Attribute) and c.func.attr in ('done', 'cancelled'):
                    pth = 'done:' + str(path(c.func.value))
                    if isinstance(s.test, ast.UnaryOp):
                        tfacts.add(pth)
                    else:
                        ffacts.add(pth)
            # non-empty facts
            p = path(s.test.operand) if isinstance(s.test, ast.UnaryOp) and isinstance(s.test.op, ast.Not) else path(s.test)
            if p:
                (ffacts if isinstance(s.test, ast.UnaryOp) else tfacts).add('nonempty:' + p)
            out_sets = []
            if ct is not False:
                nonnull = saved | tfacts
                block(s.body, hs)
                if not terminates(s.body):
                    out_sets.append(set(nonnull))
            if ct is not True:
                nonnull = saved | ffacts
                block(s.orelse, hs)
                if not terminates(s.orelse):
                    out_sets.append(set(nonnull))
            nonnull = set.intersection(*out_sets) if out_sets else set(saved)
            return
        if isinstance(s, (ast.For, ast.AsyncFor)):
            expr(s.iter, hs, s.lineno)
            if is_nullable(s.iter):
                emit('TypeError', f'{m}:{s.lineno} iteration over nullable {ast.unparse(s.iter)}', hs)
            et = elem_type_of(s.iter)
            if et and isinstance(s.target, ast.Name):
                env[s.target.id] = et
            if isinstance(s.iter, ast.Call) and isinstance(s.iter.func, ast.Attribute) and s.iter.func.attr in ('prefixes', 'itervalues') \
                    and isinstance(s.iter.func.value, ast.Attribute) and (m, s.iter.func.value.attr) in TRIE_VALUES:
                tgt = s.target.elts[-1] if isinstance(s.target, ast.Tuple) else s.target
                if isinstance(tgt, ast.Name):
                    env[tgt.id] = TRIE_VALUES[(m, s.iter.func.value.attr)]
            saved = set(nonnull)
            block(s.body, hs)
            nonnull = saved
            block(s.orelse, hs)
            return
        if isinstance(s, ast.While):
            expr(s.test, hs, s.lineno)
            saved = set(nonnull)
            nonnull = saved | facts(s.test, True)
            block(s.body, hs)
            nonnull = saved
            return
        if isinstance(s, (ast.With, ast.AsyncWith)):
            for it in s.items:
                expr(it.context_expr, hs, s.lineno)
            block(s.body, hs)
            return
        if isinstance(s, ast.Delete):
            for t in s.targets:
                if isinstance(t, ast.Subscript):
                    recv = ast.unparse(t.value)
                    key = ast.unparse(t.slice)
                    if ('iterkey:' + recv + ':' + key) in nonnull or ('found:' + recv + ':' + key) in nonnull:
                        continue
                    emit('KeyError', f'{m}:{s.lineno} del {ast.unparse(t)}', hs)
            return
        if isinstance(s, ast.Assert):
            return
        # simple statements
        for child in ast.iter_child_nodes(s):
            if isinstance(child, ast.expr):
                # store-context subscripts are fine
                expr(child, hs, s.lineno)
        assign_types(s)
        # record successful trie lookups  node = self._pit[name] -> found
        if isinstance(s, ast.Assign) and isinstance(s.value, ast.Subscript):
            nonnull.add('found:' + ast.unparse(s.value.value) + ':' + ast.unparse(s.value.slice))

    # iteration-key facts: for prefix, node in self._pit.prefixes(name): clean_list.append(prefix) ... for prefix in clean_list: del
    for s in ast.walk(fn):
        if isinstance(s, ast.For) and isinstance(s.target, ast.Name) and isinstance(s.iter, ast.Name) and s.iter.id == 'clean_list':
            for d in ast.walk(s):
                if isinstance(d, ast.Delete):
                    for t in d.targets:
                        if isinstance(t, ast.Subscript):
                            nonnull.add('iterkey:' + ast.unparse(t.value) + ':' + ast.unparse(t.slice))
    block(fn.body, [])
    INPROG.discard(key)
    summ[key] = res
    return res


if __name__ == '__main__':
    for entry in sys.argv[2:]:
        r = analyze(entry)
        print('==', entry)
        for (e, site), w in sorted(r.items()):
            if e == '__unresolved__':
                u = sorted(set(w))
                if u:
                    print('    [unresolved calls]', len(u), u[:6])
                continue
            print('   ', e.split('.')[-1] if e.startswith('ndn.') else e, '<=', w if len(w) < 330 else w[:150] + ' … ' + w[-170:])


def all_unresolved():
    u = set()
    for (qq, _), r in summ.items():
        for x in r.get(('__unresolved__', ''), []):
            u.add(x)
    return sorted(u)
