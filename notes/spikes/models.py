"""Design spike (throwaway): static TLV model extraction, validated against runtime _encoded_fields."""
import ast, sys, json
import core
P = core.Program(sys.argv[1])
KINDS = {'UintField', 'BoolField', 'BytesField', 'NameField', 'ModelField', 'RepeatedField', 'MapField',
         'SignatureValueField', 'InterestNameField', 'ProcedureArgument', 'OffsetMarker'}
TLV = ('ndn.encoding.tlv_model', 'TlvModel')

def const_int(m, e):
    if isinstance(e, ast.Constant) and isinstance(e.value, int):
        return e.value
    r = P.resolve(m, e) if isinstance(e, (ast.Name, ast.Attribute)) else None
    if r and r[0] == 'const':
        return const_int(r[1], r[3])
    if r and r[0] == 'classattr':
        return const_int(r[1], r[4])
    return None

def kind_of(m, call):
    f = call.func
    name = f.attr if isinstance(f, ast.Attribute) else getattr(f, 'id', None)
    return name if name in KINDS else None

def field_type(m, call):
    k = kind_of(m, call)
    if k in ('ProcedureArgument', 'OffsetMarker'):
        return -1
    if k == 'NameField':
        for kw in call.keywords:
            if kw.arg == 'type_number':
                return const_int(m, kw.value)
        return const_int(m, call.args[1]) if len(call.args) > 1 else 7
    if k == 'InterestNameField':
        return 7
    if k == 'RepeatedField':
        return field_type(m, call.args[0])
    if k == 'MapField':
        return field_type(m, call.args[0])
    return const_int(m, call.args[0])

models = {}
def extract(mc):
    if mc in models:
        return models[mc]
    m, c = mc
    node = P.classes[mc]
    fields, index = [], {}
    def put(name, rec):
        if name in index:
            fields[index[name]] = rec
        else:
            index[name] = len(fields); fields.append(rec)
    for st in node.body:
        if isinstance(st, ast.Assign) and len(st.targets) == 1 and isinstance(st.targets[0], ast.Name) and isinstance(st.value, ast.Call):
            name = st.targets[0].id
            if name.startswith('__'):
                continue
            fn = st.value.func
            fname = fn.attr if isinstance(fn, ast.Attribute) else getattr(fn, 'id', None)
            if fname == 'IncludeBase':
                b = P.resolve(m, st.value.args[0])
                for rec in extract((b[1], b[2])):
                    put(rec['name'], rec)
            elif kind_of(m, st.value):
                put(name, {'name': name, 'kind': kind_of(m, st.value), 'type': field_type(m, st.value)})
    models[mc] = fields
    return fields

out = {}
for mc in sorted(P.classes):
    if mc != TLV and TLV in P.mro(*mc):
        out[mc[0] + '.' + mc[1]] = [(f['name'], f['kind'], f['type']) for f in extract(mc)]
json.dump(out, open('/tmp/spike2/static_models.json', 'w'))
print('static models:', len(out))
