"""
C15 demo 2: an operation that fails part-way does not leave the store in a state
where repeating it misbehaves.

``touch_identity`` on a new name creates the identity and then its first key.  For every
storage step k of that key creation - from the private-key-store write, over the
private-key-store read for self-signing and the INSERTs of the key and certificate rows,
to the COMMIT of those rows - a fresh store is created, a storage failure is injected at
step k, and the operation is then repeated without a fault.  (Faults before or after
the key creation proper are outside the scope of this demo.)  After the repetition (and again after close / reopen) the keychain must look exactly like a
keychain on which touch_identity simply succeeded: one identity, which is the default,
with exactly one key, which is the default, with exactly one certificate, which is the
default, belonging to that key; and get_signer({}) gives a working signer for it.

exit 0 = property holds, AssertionError = property violated.
"""
import os
import sqlite3
import sys
from tempfile import TemporaryDirectory

from Cryptodome.Hash import SHA256
from Cryptodome.PublicKey import ECC
from Cryptodome.Signature import DSS

from ndn.encoding import MetaInfo, Name, make_data, parse_data
from ndn.security import KeychainSqlite3, TpmFile


class Fault:
    """Counts storage steps; raises at step ``fail_at`` (None = never)."""
    def __init__(self, fail_at=None):
        self.fail_at = fail_at
        self.count = 0
        self.log = []
        self.failed_step = None

    def step(self, what, exc):
        idx = self.count
        self.count += 1
        self.log.append(what)
        if idx == self.fail_at:
            self.failed_step = what
            raise exc


class FaultyConn:
    """Delegating proxy around a sqlite3 connection; statements are storage steps."""
    def __init__(self, real, fault):
        self._real = real
        self._fault = fault

    def execute(self, sql, *args):
        self._fault.step('db: ' + ' '.join(sql.split())[:50], sqlite3.OperationalError('disk I/O error'))
        return self._real.execute(sql, *args)

    def commit(self):
        self._fault.step('db: COMMIT', sqlite3.OperationalError('disk I/O error'))
        return self._real.commit()

    def __getattr__(self, item):
        return getattr(self._real, item)


class FaultyTpm(TpmFile):
    def __init__(self, path, fault):
        super().__init__(path)
        self.fault = fault

    def save_key(self, key_name, key_der):
        self.fault.step('tpm: save_key', OSError('No space left on device'))
        return super().save_key(key_name, key_der)

    def get_signer(self, key_name, key_locator_name=None):
        self.fault.step('tpm: get_signer', OSError('Input/output error'))
        return super().get_signer(key_name, key_locator_name)


def open_store(pib, tpm_dir, fault):
    keychain = KeychainSqlite3(pib, FaultyTpm(tpm_dir, fault))
    keychain.conn = FaultyConn(keychain.conn, fault)
    return keychain


def check_fresh_identity(keychain, id_name, what):
    id_name = Name.normalize(id_name)
    assert list(keychain) == [id_name] and len(keychain) == 1, f'{what}: identities {list(keychain)}'
    assert keychain.has_default_identity() and keychain.default_identity().name == id_name, what
    ident = keychain[id_name]
    keys = list(ident)
    assert len(keys) == 1 and len(ident) == 1, \
        f'{what}: identity has {len(keys)} keys: {[Name.to_str(k) for k in keys]}'
    assert ident.has_default_key(), f'{what}: no default key'
    key = ident.default_key()
    assert key.name == keys[0], f'{what}: default key is not the listed key'
    assert key.name[:-2] == id_name, what
    certs = list(key)
    assert len(certs) == 1 and len(key) == 1, f'{what}: key has {len(certs)} certificates'
    assert key.has_default_cert(), f'{what}: no default certificate'
    cert = key.default_cert()
    assert Name.normalize(cert.name) == certs[0] and Name.normalize(cert.name)[:-2] == key.name, what
    # the signer works and matches the key
    signer = keychain.get_signer({})
    pkt = make_data('/demo/data', MetaInfo(), b'payload', signer=signer)
    _, _, _, sig_ptrs = parse_data(pkt)
    h = SHA256.new()
    for blk in sig_ptrs.signature_covered_part:
        h.update(blk)
    DSS.new(ECC.import_key(bytes(key.key_bits)), 'fips-186-3', 'der').verify(h, bytes(sig_ptrs.signature_value_buf))
    assert Name.normalize(sig_ptrs.signature_info.key_locator.name) == Name.normalize(cert.name), what


def run_once(fail_at):
    """Returns the step log when the fault was never reached, else None."""
    with TemporaryDirectory() as base:
        pib = os.path.join(base, 'pib.db')
        tpm_dir = os.path.join(base, 'ndnsec-key-file')
        assert KeychainSqlite3.initialize(pib, 'tpm-file', tpm_dir)
        fault = Fault(fail_at)
        keychain = open_store(pib, tpm_dir, fault)
        try:
            keychain.touch_identity('/alice')
            failed = False
        except (sqlite3.Error, OSError):
            failed = True
        if not failed:
            check_fresh_identity(keychain, '/alice', 'no fault')
            keychain.shutdown()
            return fault.log
        what = f'fault at step {fail_at} ({fault.failed_step})'
        # the failed attempt must not have left a half-made identity visible
        fault.fail_at = None
        assert Name.normalize('/alice') not in keychain or len(keychain['/alice']) > 0, \
            f'{what}: key-less identity left behind'
        # repeat the operation
        keychain.touch_identity('/alice')
        check_fresh_identity(keychain, '/alice', what + ', after retry')
        keychain.shutdown()
        keychain = open_store(pib, tpm_dir, Fault())
        check_fresh_identity(keychain, '/alice', what + ', after retry and reopen')
        keychain.shutdown()
        return None


def main():
    log = run_once(None)
    assert log is not None
    first = log.index('tpm: save_key')
    last = log.index('db: COMMIT', first)
    assert [e.split('(')[0][:22] for e in log[first:last + 1]] == [
        'tpm: save_key', 'tpm: get_signer', 'db: INSERT INTO keys ', 'db: INSERT INTO certif', 'db: COMMIT'], log
    for k in range(first, last + 1):
        assert run_once(k) is None, f'fault at step {k} was not reached'
        print(f'fault at step {k} ({log[k]}): ok')
    print('OK')
    return 0


if __name__ == '__main__':
    sys.exit(main())
