"""
C18 demo (m3): publishing increases the own sequence number by one and PROMPTLY
emits a sync Interest carrying the full vector - also when the application
publishes from inside the (non-blocking) missing-data callback, e.g. to
acknowledge what it has just learned.

Drives the public API: appv2.NDNApp on a fake in-memory Face, SvsInst attached
to it, sync Interests fed through the face; emitted Interests are decoded.
"""
import asyncio as aio
import sys

from ndn import appv2
from ndn import encoding as enc
from ndn import security as sec
from ndn.app_support import svs
from ndn.transport.face import Face

GROUP = enc.Name.from_str('/example/svsgroup')
NODE_A = enc.Name.from_str('/node-a')      # the local node
NODE_B = enc.Name.from_str('/node-b')
NODE_C = enc.Name.from_str('/node-c')
KEY_A = enc.Name.to_bytes(NODE_A)
KEY_B = enc.Name.to_bytes(NODE_B)
KEY_C = enc.Name.to_bytes(NODE_C)

SYNC_INTERVAL = 60
SUPPRESSION = 0.05
PROMPT = 0.25               # "promptly": far below SYNC_INTERVAL, above any suppression timer (< 0.075 s)


class ScriptFace(Face):
    def __init__(self, script):
        super().__init__()
        self.script = script
        self.sent = []
        self.app = None

    async def open(self):
        self.running = True

    def shutdown(self):
        self.running = False

    def send(self, data):
        self.sent.append(bytes(data))

    async def run(self):
        try:
            await self.script(self)
        finally:
            self.app.shutdown()

    def isLocalFace(self):
        return True

    async def feed(self, pkt):
        pkt = bytes(pkt)
        typ, _ = enc.parse_tl_num(pkt)
        await self.callback(typ, pkt)
        for _ in range(5):
            await aio.sleep(0)

    def take_sync_vectors(self):
        ret = []
        for pkt in self.sent:
            name, _, _, _ = enc.parse_interest(pkt)
            assert name[:len(GROUP)] == GROUP and len(name) == len(GROUP) + 2, enc.Name.to_str(name)
            vec = svs.StateVecWrapper.parse(name[-2]).val
            ret.append({enc.Name.to_bytes(e.node_id): e.seq_no for e in vec.entries})
        self.sent.clear()
        return ret


def sync_interest(entries):
    wrapper = svs.StateVecWrapper()
    wrapper.val = svs.StateVec()
    wrapper.val.entries = []
    for node, seq in entries:
        ent = svs.StateVecEntry()
        ent.node_id = node
        ent.seq_no = seq
        wrapper.val.entries.append(ent)
    name = GROUP + [wrapper.encode()]
    return enc.make_interest(name, enc.InterestParam(nonce=0x01020304), signer=sec.DigestSha256Signer())


failures = []


def check(cond, msg):
    if not cond:
        failures.append(msg)
        print('VIOLATION:', msg)


async def main():
    published = []
    ack_enabled = False

    def on_missing(inst):
        # Non-blocking, as required: publish an acknowledgement item for what we have just learned about.
        if ack_enabled:
            published.append(inst.new_data())

    inst = svs.SvsInst(GROUP, NODE_A, on_missing, sec.DigestSha256Signer(), appv2.pass_all,
                       sync_interval=SYNC_INTERVAL, suppression_interval=SUPPRESSION)

    async def expect_prompt_announcement(face, label):
        await aio.sleep(PROMPT)
        emitted = face.take_sync_vectors()
        local = dict(inst.local_sv)
        check(len(emitted) >= 1, f'{label}: no sync Interest within {PROMPT}s after publishing (local vector {local})')
        if emitted:
            check(emitted[-1] == local, f'{label}: announced {emitted[-1]}, full local vector is {local}')

    async def script(face: ScriptFace):
        nonlocal ack_enabled
        inst.start(face.app)
        await aio.sleep(0.05)
        check(face.take_sync_vectors() == [{KEY_A: 0}], 'initial sync Interest')

        # 1. Plain publish from application code.
        seq = inst.new_data()
        check(seq == 1 and inst.local_sv[KEY_A] == 1, 'publish must increase own seq by one')
        await expect_prompt_announcement(face, 'plain publish')

        # 2. Learn about B passively (no ack yet); peer is up to date on A, B is new => suppression, nothing to say.
        await face.feed(sync_interest([(NODE_A, 1), (NODE_B, 2)]))
        await aio.sleep(PROMPT)
        check(face.take_sync_vectors() == [], 'no announcement expected after an up-to-date peer')
        check(inst.local_sv == {KEY_A: 1, KEY_B: 2}, f'merge wrong: {inst.local_sv}')

        # 3. From now on the application acknowledges new data by publishing from the callback.
        #    The peer is up to date on everything we have and strictly newer on B.
        ack_enabled = True
        await face.feed(sync_interest([(NODE_A, 1), (NODE_B, 5)]))
        check(published == [2], f'callback should have published exactly once, seq 2: {published}')
        check(inst.local_sv == {KEY_A: 2, KEY_B: 5}, f'local vector wrong: {inst.local_sv}')
        await expect_prompt_announcement(face, 'publish from missing-data callback (peer strictly newer)')

        # 4. Same, while the peer is at the same time outdated about a third node (suppression gets involved).
        ack_enabled = False
        await face.feed(sync_interest([(NODE_A, 2), (NODE_B, 5), (NODE_C, 4)]))
        await aio.sleep(PROMPT)
        face.take_sync_vectors()
        ack_enabled = True
        await face.feed(sync_interest([(NODE_A, 2), (NODE_B, 7), (NODE_C, 1)]))
        check(published == [2, 3], f'callback should have published seq 3: {published}')
        await expect_prompt_announcement(face, 'publish from missing-data callback (peer partly outdated)')

        # 5. Another strictly newer vector, longer one.
        await face.feed(sync_interest([(NODE_C, 6), (NODE_B, 8), (NODE_A, 3)]))
        check(published == [2, 3, 4], f'callback should have published seq 4: {published}')
        check(inst.local_sv == {KEY_A: 4, KEY_B: 8, KEY_C: 6}, f'local vector wrong: {inst.local_sv}')
        await expect_prompt_announcement(face, 'publish from missing-data callback (second time)')
        inst.stop()

    face = ScriptFace(script)
    ndn_app = appv2.NDNApp(face)
    face.app = ndn_app
    await ndn_app.main_loop()


if __name__ == '__main__':
    aio.run(main())
    if failures:
        print(f'{len(failures)} property violation(s)')
        sys.exit(1)
    print('OK: property C18 holds in this scenario')
