"""Finding 35 (C13): the loader does not constrain the parent field of the start node; a model whose node 0 names itself
as parent passes Checker.load and Checker.match then never terminates (backtracking from the root goes to node.parent)."""
import signal
from ndn.app_support.light_versec import compile_lvs, Checker, DEFAULT_USER_FNS
from ndn.app_support.light_versec import binary as bny

m = compile_lvs('#a: /"x"/"y"')
raw = bytes(m.encode())
model = bny.LvsModel.parse(raw)
model.nodes[0].parent = 0
blob = bytes(model.encode())
try:
    ck = Checker.load(blob, DEFAULT_USER_FNS)
    print('load accepted the model')
except Exception as e:
    print('load refused:', type(e).__name__, e)
    raise SystemExit(0)


def alarm(*_):
    print('match("/z") did not terminate within 2 s')
    raise SystemExit(1)


signal.signal(signal.SIGALRM, alarm)
signal.alarm(2)
print(list(ck.match('/z')))
