import asyncio, struct, traceback
from ndn import encoding as enc
from ndn.encoding import *
from ndn.app_support import nfd_mgmt

def t(label, f):
    try:
        r = f()
        print(label, '->', repr(r)[:200])
    except Exception as e:
        print(label, 'RAISES', type(e).__name__, e)

# C08: text field non-ascii
class M(TlvModel):
    s = BytesField(0x81, is_string=True)
m = M(); m.s = 'é'
t('utf8 text encode', lambda: bytes(m.encode()))
m.s = 'abc'
t('ascii text encode', lambda: bytes(m.encode()))

# C07: inner length overrun
d = make_data('/a', MetaInfo(), b'hello')
print(bytes(d).hex())
# corrupt content length: find 0x15 05
b = bytearray(d)
i = bytes(b).find(b'\x15\x05')
b[i+1] = 0x50
t('content overrun', lambda: (lambda r: (Name.to_str(r[0]), bytes(r[2])))(parse_data(b)))
# name component overrun
b = bytearray(d)
# 06 LL 07 03 08 01 61
b[5] = 0x20
t('name comp overrun', lambda: (lambda r: ([bytes(c) for c in r[0]], r[2] and bytes(r[2])))(parse_data(b)))
# truncated
t('truncated', lambda: parse_data(bytes(d)[:-1]))
t('empty', lambda: parse_data(b''))
t('lp empty', lambda: parse_lp_packet_v2(b'\x64\x00'))
# ControlResponse without body
class CR(TlvModel):
    r = ModelField(0x65, nfd_mgmt.ControlResponse)
cr = CR(); cr.r = nfd_mgmt.ControlResponse(); cr.r.status_code=403; cr.r.status_text='no'
t('parse_response nobody', lambda: nfd_mgmt.parse_response(cr.encode()))
