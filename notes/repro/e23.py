"""C11: "the compiled schema matches exactly what the source describes".
A rule whose temporary pattern is constrained, referenced twice inside one name: every expansion must carry the constraint."""
import sys
from ndn.app_support.light_versec import compile_lvs, Checker, DEFAULT_USER_FNS
from ndn.encoding import Name

LVS = r'''
#r: _x & { _x: "a"|"b" }
#two: #r/"mid"/#r
'''
ck = Checker(compile_lvs(LVS), DEFAULT_USER_FNS)


def rules(name):
    return sorted({r for (rs, _ctx) in ck.match(Name.from_str(name)) for r in rs if not r.startswith('#_')})

bad = 0
for name, want in (('/a/mid/b', ['#two']), ('/a/mid/zzz', []), ('/zzz/mid/a', []), ('/a', ['#r']), ('/zzz', [])):
    got = rules(name)
    flag = '' if got == want else '   <-- expected %s' % want
    bad += got != want
    print(f'{name:12} matches {got}{flag}')
print('ok' if not bad else 'VIOLATION: the compiled model accepts names the schema text excludes')
sys.exit(1 if bad else 0)
