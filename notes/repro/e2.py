import asyncio as aio, traceback, logging
from ndn import appv2, app as appv1, types
from ndn import encoding as enc
from ndn.encoding import *
from ndn.transport.dummy_face import DummyFace
from ndn.security import NullSigner

async def try_recv(a, label, typ, data):
    try:
        await a._receive(typ, data)
        await aio.sleep(0.01)
        print(label, 'ok')
    except BaseException as e:
        print(label, 'RAISES', type(e).__name__, e)

async def pass_all(n, s, c): return types.ValidResult.PASS

async def main_v2():
    async def tf(face):
        a = face.app
        d = bytes(make_data('/a', MetaInfo(), b'x'))
        await try_recv(a, 'v2 truncated data', 6, d[:-1])
        await try_recv(a, 'v2 empty lp', 0x64, b'\x64\x00')
        await try_recv(a, 'v2 lp trunc', 0x64, b'\x64\x05\x50')
        i = bytes(make_interest('/nobody', InterestParam()))
        await try_recv(a, 'v2 nack nobody', 0x64, bytes(make_network_nack(i, 150)))
        await try_recv(a, 'v2 data nobody', 6, d)
        # cancel then nack
        i2 = make_interest('/c', InterestParam(lifetime=500, nonce=1))
        coro = a.express('/c', pass_all, lifetime=500, nonce=1)
        t = aio.create_task(coro)
        await aio.sleep(0.01)
        t.cancel()
        try:
            await t
        except BaseException as e:
            print('cancelled ->', type(e).__name__)
        print('pit entries after cancel:', [(k, len(v.pending_list)) for k,v in a._pit.items()])
        await try_recv(a, 'v2 nack after cancel', 0x64, bytes(make_network_nack(bytes(i2), 150)))
        # slow validator outliving the lifetime
        async def slow(n,s,c):
            await aio.sleep(0.3); return types.ValidResult.PASS
        async def ex():
            try:
                r = await a.express('/s', slow, lifetime=100, nonce=2)
                print('slow result', r[1])
            except BaseException as e:
                print('slow validator ->', type(e).__name__, e)
        t = aio.create_task(ex())
        await aio.sleep(0.01)
        await try_recv(a, 'v2 data for slow', 6, bytes(make_data('/s', MetaInfo(), b'y')))
        await aio.sleep(0.5)
        # reply return value
        got = {}
        def h(name, ap, reply, ctx):
            got['r'] = reply(make_data(name, MetaInfo(), b'z'))
        a.attach_handler('/h', h)
        await try_recv(a, 'v2 interest', 5, bytes(make_interest('/h/1', InterestParam())))
        print('reply returned', got)
    face = DummyFace(tf)
    a = appv2.NDNApp(face=face)
    face.app = a
    await a.main_loop()

async def main_v1():
    async def tf(face):
        a = face.app
        d = bytes(make_data('/a', MetaInfo(), b'x'))
        await try_recv(a, 'v1 truncated data', 6, d[:-1])
        await try_recv(a, 'v1 empty lp', 0x64, b'\x64\x00')
        i = bytes(make_interest('/nobody', InterestParam()))
        await try_recv(a, 'v1 nack nobody', 0x64, bytes(make_network_nack(i, 150)))
        coro = a.express_interest('/c', lifetime=500, nonce=1)
        t = aio.create_task(coro)
        await aio.sleep(0.01)
        t.cancel()
        try:
            await t
        except BaseException as e:
            print('cancelled ->', type(e).__name__)
        await try_recv(a, 'v1 data after cancel', 6, bytes(make_data('/c', MetaInfo(), b'x')))
    face = DummyFace(tf)
    from ndn.security import KeychainDigest
    a = appv1.NDNApp(face=face, keychain=KeychainDigest())
    face.app = a
    await a.main_loop()

aio.run(main_v2())
aio.run(main_v1())
