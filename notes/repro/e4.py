import os, tempfile, shutil
from ndn.encoding import *
from ndn.security import *

def t(label, f):
    try:
        r = f(); print(label, '->', repr(r)[:300])
    except BaseException as e:
        print(label, 'RAISES', type(e).__name__, e)

d = tempfile.mkdtemp()
try:
    pib = os.path.join(d, 'pib.db'); tpmp = os.path.join(d, 'keys')
    KeychainSqlite3.initialize(pib, 'tpm-file', tpmp)
    kc = KeychainSqlite3(pib, TpmFile(tpmp))
    a = kc.touch_identity('/A')
    b = kc.touch_identity('/B')
    ka = a.default_key(); kb = b.default_key()
    a.new_key('ec'); 
    print('len(identity A)=', len(a), 'iter', len(list(a)))
    print('len(key A)=', len(ka), 'iter certs', len(list(ka)))
    t('A[keyB] lookup (should KeyError)', lambda: Name.to_str(a[kb.name].name))
    print('kb.name in a:', kb.name in a, ' listed:', kb.name in list(a))
    # signer cache
    s1 = kc.get_signer({'key': ka.name, 'key_locator': '/loc'})
    s2 = kc.get_signer({'key': kb.name, 'key_locator': '/loc'})
    print('same signer object for different keys:', s1 is s2)
    # del_identity with multiple keys
    for _ in range(3): a.new_key('ec')
    keys_before = [Name.to_str(k) for k in a]
    files_before = len(os.listdir(tpmp))
    t('del_identity A', lambda: kc.del_identity('/A'))
    print('keys before', len(keys_before), 'files before', files_before, 'files after', len(os.listdir(tpmp)))
    cur = kc.conn.execute('select count(*) from keys'); print('key rows left', cur.fetchone()[0])
    cur = kc.conn.execute('select count(*) from certificates'); print('cert rows left', cur.fetchone()[0])
    print('default identity after deleting default:', kc.has_default_identity())
    # touch_identity partial failure
    class BadTpm(TpmFile):
        def generate_key(self, *a, **k): raise OSError('disk full')
    kc2 = KeychainSqlite3(pib, BadTpm(tpmp))
    t('touch with failing tpm', lambda: kc2.touch_identity('/C'))
    kc3 = KeychainSqlite3(pib, TpmFile(tpmp))
    idc = kc3.touch_identity('/C')
    print('after retry: keys of /C:', len(list(idc)))
finally:
    shutil.rmtree(d)

# client conf colon
import ndn.client_conf as cc
os.environ['NDN_CLIENT_PIB'] = 'pib-sqlite3:/tmp/a:b'
t('read_client_conf colon path', lambda: cc.read_client_conf())
del os.environ['NDN_CLIENT_PIB']
t('default_face bogus', lambda: cc.default_face('bogus://x'))
t('default_face tcp', lambda: (lambda f: (type(f).__name__, f.host, f.port))(cc.default_face('tcp://1.2.3.4')))
t('default_face udp', lambda: (lambda f: (type(f).__name__, f.host, f.port))(cc.default_face('udp4://1.2.3.4:77')))
