import asyncio as aio
from ndn.encoding import *
from ndn import utils, appv2
from ndn.app_support import nfd_mgmt
from ndn.transport.dummy_face import DummyFace
import ndn.security.signer.sha256_digest_signer as ds
class CR(TlvModel):
    r = ModelField(0x65, nfd_mgmt.ControlResponse)
def resp():
    cr = CR(); cr.r = nfd_mgmt.ControlResponse(); cr.r.status_code = 200; cr.r.status_text = 'OK'
    cr.r.body = nfd_mgmt.ControlParametersValue()
    return bytes(cr.encode())
async def clock():
    times = []
    async def tf(face):
        a = face.app
        utils.timestamp = lambda: 5000
        ds.timestamp = lambda: 5000
        t1 = aio.create_task(a.register('/p1')); t2 = aio.create_task(a.register('/p2'))
        for _ in range(2):
            for _ in range(100):
                await aio.sleep(0.005)
                if face.output_buf: break
            out = bytes(face.output_buf); face.output_buf = b''
            name, _, _, sp = parse_interest(out)
            times.append(sp.signature_info.signature_time)
            await face.input_packet(make_data(name, MetaInfo(), resp()))
        print('results', await t1, await t2)
    face = DummyFace(tf); a = appv2.NDNApp(face=face); face.app = a
    await a.main_loop()
    print('SignatureTime of two concurrent commands at one clock reading:', times)
aio.run(clock())
