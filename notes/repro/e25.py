"""v2 front-end (ndn.appv2 + NfdRegister): the registration semaphore is created once in NfdRegister.__init__ and so outlives
an event loop.  run_forever() starts a new loop per connection (asyncio.run); once the semaphore has been contended in the
first loop it is bound to it, and the next contended acquire in the second loop raises RuntimeError: the starting task dies,
the routes declared before connecting are not registered on the second connection and register() raises instead of
reporting a bool."""
import asyncio as aio
import sys

from ndn.appv2 import NDNApp
from ndn import encoding as enc
from ndn import security as sec
from ndn.app_support import nfd_mgmt
from ndn.transport.face import Face


class RespWrapper(enc.TlvModel):
    resp = enc.ModelField(0x65, nfd_mgmt.ControlResponse)


def make_response(status, text, prefix):
    w = RespWrapper()
    w.resp = nfd_mgmt.ControlResponse()
    w.resp.status_code = status
    w.resp.status_text = text
    w.resp.body = nfd_mgmt.ControlParametersValue()
    w.resp.body.name = prefix
    return bytes(w.encode())


class FakeForwarder(Face):
    def __init__(self):
        super().__init__()
        self.script = None
        self.connection = 0
        self.commands = {}

    async def open(self):
        self.running = True
        self.connection += 1
        self.commands[self.connection] = []

    def shutdown(self):
        self.running = False

    def isLocalFace(self):
        return True

    async def run(self):
        await self.script()

    def send(self, data):
        name, _param, _app_param, _sig = enc.parse_interest(bytes(data))
        if enc.Name.to_str(name[:3]) != '/localhost/nfd/rib':
            return
        verb = bytes(enc.Component.get_value(name[3])).decode()
        cp = nfd_mgmt.ControlParameters.parse(enc.Component.get_value(name[4]))
        self.commands[self.connection].append((verb, enc.Name.to_str(cp.cp.name)))
        reply = enc.make_data(name, enc.MetaInfo(), make_response(200, 'OK', cp.cp.name), signer=sec.DigestSha256Signer())
        aio.get_running_loop().create_task(self.callback(enc.TypeNumber.DATA, reply))


def main():
    face = FakeForwarder()
    app = NDNApp(face=face)
    dyn_results, failures = [], []

    @app.route('/pre/one')
    def on_one(name, app_param, reply, context):
        pass

    @app.route('/pre/two')
    def on_two(name, app_param, reply, context):
        pass

    async def script():
        try:
            dyn_results.append(await app.register('/dyn'))
        except Exception as e:  # noqa
            dyn_results.append(repr(e))
        for _ in range(2000):     # until the automatic registrations are through (bounded: 2 s)
            if len(face.commands[face.connection]) >= 3:
                break
            await aio.sleep(0.001)
        for _ in range(50):
            await aio.sleep(0)

    face.script = script
    for conn in (1, 2):
        try:
            app.run_forever()
        except Exception as e:  # noqa
            failures.append(f'connection {conn}: run_forever raised {e!r}')
    expected = [('register', '/dyn'), ('register', '/pre/one'), ('register', '/pre/two')]
    for conn in (1, 2):
        seen = sorted(face.commands.get(conn, []))
        if seen != expected:
            failures.append(f'connection {conn}: expected each prefix registered exactly once, forwarder saw {seen}')
    if dyn_results != [True, True]:
        failures.append(f"register('/dyn') results over the two connections: {dyn_results}")
    for f in failures:
        print('FAIL:', f)
    print('OK' if not failures else 'DEFECT REPRODUCED')
    return 1 if failures else 0


if __name__ == '__main__':
    sys.exit(main())
