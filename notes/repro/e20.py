"""C06 / C14: a packet that claims one signature algorithm while its key locator names a key of another kind makes the cascade validator
(and the known-key checkers) raise ValueError from the key import instead of answering False."""
import asyncio as aio, sys
from Cryptodome.PublicKey import ECC, RSA
from ndn.encoding import make_data, parse_data, MetaInfo, SignatureType
from ndn.security import Sha256WithEcdsaSigner
from ndn.security.validator.cascade_validator import CascadeChecker
from ndn.security.validator.known_key_validator import EccChecker

ec = ECC.generate(curve='P-256')
rsa_pub = RSA.generate(1024).publickey().export_key(format='DER')
signer = Sha256WithEcdsaSigner('/k/KEY/1', ec.export_key(format='DER'))
wire = bytes(make_data('/d', MetaInfo(), b'x', signer=signer))
name, _, _, sig = parse_data(wire)
bad = 0
try:
    print('CascadeChecker._verify_sig ->', CascadeChecker._verify_sig(rsa_pub, sig))
except Exception as e:
    print('CascadeChecker._verify_sig raised', type(e).__name__, e)
    bad += 1
try:
    print('EccChecker validator ->', aio.run(EccChecker.from_key('/k/KEY/1', rsa_pub)(name, sig)))
except Exception as e:
    print('EccChecker validator raised', type(e).__name__, e)
    bad += 1
print('ok' if not bad else 'VIOLATION: the verifiers fail instead of rejecting')
sys.exit(1 if bad else 0)
