"""Finding 31 (C03, v1 front-end): the lifetime of an Interest is measured from the first await of the returned
coroutine, not from express time. express(lifetime=300), caller awaits at t=200 ms, Data arrives at t=400 ms:
the Data is delivered although the lifetime ran out at t=300 ms."""
import asyncio as aio
import time
from ndn.app import NDNApp
from ndn import encoding as enc
from ndn import types
from ndn.transport.dummy_face import DummyFace


async def main():
    done = aio.Event()
    res = {}

    async def face_proc(_f):
        await done.wait()
    face = DummyFace(face_proc)
    app = NDNApp(face=face, keychain=object())
    face.app = app

    async def late():
        await aio.sleep(0.4)
        await face.input_packet(bytes(enc.make_data('/late/data', enc.MetaInfo(), b'x')))

    async def am():
        t0 = time.monotonic()
        pending = app.express_interest('/late/data', lifetime=300, validator=None)
        f = aio.create_task(late())
        await aio.sleep(0.2)
        try:
            await pending
            res['outcome'] = 'data'
        except types.InterestTimeout:
            res['outcome'] = 'timeout'
        res['ms'] = round((time.monotonic() - t0) * 1000)
        await f
        done.set()
    await app.main_loop(am())
    return res

print(aio.run(main()))
