"""C18: "publishing ... promptly emits a sync Interest carrying the full vector".
new_data() arms the timer for an immediate emission (next_sync_timing = 0). If a sync Interest is handled before the timer task wakes
(another task that was already scheduled: the receive pipeline runs each packet as its own task) and its vector does not call for a
notification (here: the sender has never heard of this node, so the vector lacks the own entry; all its entries are known), the
steady-state branch of sync_handler resets the timer to now + a whole sync period. The publish is then announced ~30 s later."""
import asyncio as aio, sys, time
from ndn.app_support.svs.sync import SvsInst, StateVecWrapper, StateVec, StateVecEntry
from ndn import encoding as enc


class FakeApp:
    def __init__(self):
        self.sent = []

    def attach_handler(self, *a, **k):
        pass

    def detach_handler(self, *a, **k):
        pass

    def express(self, name, *a, **k):
        self.sent.append(name)
        async def nothing():
            return None
        return nothing()


def sync_name(base, vec):
    w = StateVecWrapper()
    w.val = StateVec()
    w.val.entries = []
    for nid, seq in vec:
        e = StateVecEntry()
        e.node_id = enc.Name.from_str(nid)
        e.seq_no = seq
        w.val.entries.append(e)
    return enc.Name.normalize(base) + [w.encode(), enc.Component.from_str('sig')]


async def main():
    app = FakeApp()
    inst = SvsInst('/sync', '/me', lambda i: None, None, None, sync_interval=30, suppression_interval=0.2)
    inst.start(app)
    await aio.sleep(0.05)
    # learn about /other first (so that its later vector raises nothing)
    inst.sync_handler(sync_name('/sync', [('/other', 3)]), None, None, None)
    app.sent.clear()
    inst.new_data()                                   # publish: timer armed for an immediate sync Interest
    # a sync Interest from a node that does not know us yet is handled before the timer task runs
    inst.sync_handler(sync_name('/sync', [('/other', 3)]), None, None, None)
    await aio.sleep(1.0)
    delay = inst.next_sync_timing - time.time()
    print('sync Interests sent within 1 s of the publish:', len(app.sent), ' next emission in %.1f s' % delay)
    inst.stop()
    return len(app.sent) >= 1

ok = aio.run(main())
print('ok: announced promptly' if ok else 'VIOLATION: the publish was not announced (timer pushed out by a whole period)')
sys.exit(0 if ok else 1)
