"""C06 / C14: a library validator must answer, not fail, on any parsed packet.
A Data whose SignatureInfo names the right key but that carries no SignatureValue element makes the known-key (and therefore the
cascade / schema) validators raise TypeError (bytes(None)) instead of returning False: in the receive pipeline the task that completes
the pending Interest ends with an unhandled error and the Interest is left to time out."""
import asyncio as aio, sys
from Cryptodome.PublicKey import ECC
from ndn.encoding import parse_data, Name, make_data, MetaInfo, SignaturePtrs
from ndn.security import Sha256WithEcdsaSigner
from ndn.security.validator.known_key_validator import EccChecker

key = ECC.generate(curve='P-256')
pub = key.public_key().export_key(format='DER')
signer = Sha256WithEcdsaSigner('/k/KEY/1', key.export_key(format='DER'))
wire = bytes(make_data('/d', MetaInfo(), b'x', signer=signer))
# cut the SignatureValue element (type 0x17) off and fix the outer length (walk the elements: the signature bytes are random)
from ndn.encoding import parse_tl_num
typ, tl = parse_tl_num(wire, 0)
_, ll = parse_tl_num(wire, tl)
off = tl + ll
while off < len(wire):
    t, a = parse_tl_num(wire, off)
    l, b = parse_tl_num(wire, off + a)
    if t == 0x17:
        break
    off += a + b + l
body = wire[tl + ll:off]
assert len(body) < 253
cut = bytes([0x06, len(body)]) + body
name, meta, content, sig = parse_data(cut)
print('parsed; signature_value_buf =', sig.signature_value_buf)
validator = EccChecker.from_key('/k/KEY/1', pub)
try:
    verdict = aio.run(validator(name, sig))
    print('verdict', verdict)
    sys.exit(0 if verdict is False else 1)
except Exception as e:
    print('VIOLATION: validator raised', type(e).__name__, e)
    sys.exit(1)
