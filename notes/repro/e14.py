"""C15: get_signer decides whether a signing argument was given by its truthiness. Key and Identity are Mappings (their truthiness is the
number of certificates / keys they hold): a Key object whose certificates were deleted, or an Identity object whose keys were deleted, is
falsy and silently treated as "not given" - the signer returned is the one of the default identity instead of an error."""
import os, sys, tempfile
from ndn.security.keychain.keychain_sqlite3 import KeychainSqlite3
from ndn.security.tpm.tpm_file import TpmFile
from ndn.encoding import Name

d = tempfile.mkdtemp()
KeychainSqlite3.initialize(os.path.join(d, 'pib.db'), 'tpm-file', os.path.join(d, 'tpm'))
kc = KeychainSqlite3(os.path.join(d, 'pib.db'), TpmFile(os.path.join(d, 'tpm')))
a = kc.touch_identity('/alice')          # first identity: the default one
b = kc.touch_identity('/bob')
bkey = b.default_key()
for cname in list(bkey):
    kc.del_cert(cname)                   # bob's key has no certificate left
print('len(bob key) =', len(bkey), ' bool =', bool(bkey))
try:
    s = kc.get_signer({'key': bkey})
    print('signer returned for key locator', Name.to_str(s.key_locator_name))
    bad = Name.to_str(s.key_locator_name).startswith('/alice')
except KeyError as e:
    print('KeyError', e)
    bad = False
print('VIOLATION: asked for bob\'s key, got alice\'s signer' if bad else 'ok: refused')
sys.exit(1 if bad else 0)
