"""Finding 32 (C19): two segment fetches of the same object running concurrently on one NDNApp share the `name` list
returned by express_interest (one tuple completes every matching pending Interest) and segment_fetcher mutates it in
place (name[-1] = ...), so one fetcher's step corrupts the other's final-block test / next name."""
import asyncio as aio
from ndn.app import NDNApp
from ndn import encoding as enc
from ndn.transport.face import Face
from ndn.app_support.segment_fetcher import segment_fetcher

NSEG = 4


class FakeFace(Face):
    def __init__(self):
        super().__init__()
        self.running = True
        self.stop = None

    async def open(self):
        self.running = True
        self.stop = aio.get_running_loop().create_future()

    def shutdown(self):
        self.running = False
        if self.stop and not self.stop.done():
            self.stop.set_result(True)

    async def run(self):
        await self.stop

    def isLocalFace(self):
        return True

    def send(self, data):
        name, _, _, _ = enc.parse_interest(data)
        aio.get_running_loop().call_later(0.02, lambda: aio.ensure_future(self.answer(name)))

    async def answer(self, name):
        if enc.Component.get_type(name[-1]) == enc.Component.TYPE_SEGMENT:
            seg = enc.Component.to_number(name[-1])
            base = name[:-1]
        else:
            seg, base = 0, name
        dn = base + [enc.Component.from_segment(seg)]
        wire = enc.make_data(dn, enc.MetaInfo(final_block_id=enc.Component.from_segment(NSEG - 1)), b'seg-%d' % seg)
        await self.callback(enc.TypeNumber.DATA, bytes(wire))


async def main():
    face = FakeFace()
    app = NDNApp(face=face, keychain=object())

    async def fetch(delay):
        await aio.sleep(delay)
        out = []
        async for c in segment_fetcher(app, '/obj', timeout=500, retry_times=2, validator=None):
            out.append(bytes(c))
        return out

    async def am():
        a, b = await aio.gather(fetch(0), fetch(0.001))
        print('A', a)
        print('B', b)
        app.shutdown()
        want = [b'seg-%d' % i for i in range(NSEG)]
        assert a == want and b == want, 'segments missing / out of order'
    await app.main_loop(am())

aio.run(main())
