import asyncio as aio, os, tempfile, shutil
from ndn.encoding import *
from ndn.security import *
from ndn.security.validator.cascade_validator import CascadeChecker, MemoryKeyStorage
from ndn.app_support.light_versec import compile_lvs, Checker, DEFAULT_USER_FNS, LvsModelError
from ndn.app_support.light_versec import binary as bny

def t(label, f):
    try:
        r = f(); print(label, '->', repr(r)[:300])
    except BaseException as e:
        print(label, 'RAISES', type(e).__name__, e)

# cascade: HMAC returns None; default storage shared
import inspect
print('default storage shared:', CascadeChecker.__init__.__defaults__)
hs = HmacSha256Signer('/k', b'secret')
d = make_data('/x', MetaInfo(), b'c', hs)
_,_,_,sp = parse_data(d)
t('_verify_sig hmac', lambda: CascadeChecker._verify_sig(b'secret', sp))

# LVS: bound tag constraints skipped in check()
lvs = '''
#pkt: /"b"/x <= #key
#key: /"a"/x & {x: "foo"}
'''
c = Checker(compile_lvs(lvs), DEFAULT_USER_FNS)
t('match key /a/bar', lambda: list(c.match('/a/bar')))
t('match key /a/foo', lambda: list(c.match('/a/foo')))
t('check /b/bar signed by /a/bar (should be False)', lambda: c.check('/b/bar', '/a/bar'))
t('check /b/foo signed by /a/foo', lambda: c.check('/b/foo', '/a/foo'))
t('match empty name', lambda: list(c.match('/')))

# LVS: temp pattern constraint lost on 2nd reference
lvs2 = '''
#a: /_x & {_x: "p"}
#r: #a/#a
'''
c2 = Checker(compile_lvs(lvs2), DEFAULT_USER_FNS)
t('r match /p/p', lambda: list(c2.match('/p/p')))
t('r match /p/q (should be none)', lambda: list(c2.match('/p/q')))

# LVS sanity: child of root with wrong parent
m = compile_lvs(lvs)
raw = bytes(m.encode())
m2 = bny.LvsModel.parse(raw)
print('nodes', [(n.id, n.parent) for n in m2.nodes])
for n in m2.nodes:
    if n.parent == 0:
        n.parent = 3
        break
t('load with wrong parent for child of root', lambda: Checker(m2, DEFAULT_USER_FNS) and 'ACCEPTED')
m3 = bny.LvsModel.parse(raw); m3.start_id = None
t('load with start_id None', lambda: Checker(m3, DEFAULT_USER_FNS) and 'ACCEPTED')
m4 = bny.LvsModel.parse(raw); m4.named_pattern_cnt = None
t('load with named_pattern_cnt None', lambda: list(Checker(m4, DEFAULT_USER_FNS).match('/a/foo')))
