import asyncio as aio
from ndn.encoding import *
from ndn.app_support.svs import *
from ndn.app_support.svs.tlv import *
from ndn.app_support.svs.sync import SvsState
from ndn.security import NullSigner

def t(label, f):
    try:
        r = f(); print(label, '->', repr(r)[:300])
    except BaseException as e:
        print(label, 'RAISES', type(e).__name__, e)

def sv(d):
    w = StateVecWrapper(); w.val = StateVec(); w.val.entries = []
    for k, v in d.items():
        e = StateVecEntry(); e.node_id = k; e.seq_no = v; w.val.entries.append(e)
    return w.encode()

async def main():
    missing = []
    s = SvsInst('/sync', '/me', lambda inst: missing.append(dict(inst.local_sv)), NullSigner(), None)
    s.timer_rst_event = aio.Event(); s.running = True
    s.local_sv = {Name.to_bytes('/A'): 10, Name.to_bytes('/me'): 0}
    def feed(d):
        s.sync_handler(Name.normalize('/sync') + [sv(d), Component.from_bytes(b'\0'*32, 2)], None, None, None)
    feed({'/B': 1})
    print('state', s.state, 'agg', {Name.to_str(k): v for k, v in s.agg_sv.items()})
    feed({'/A': 3})
    print('state', s.state, 'agg', {Name.to_str(k): v for k, v in s.agg_sv.items()})
    nec = any(s.agg_sv.get(k, 0) < v for k, v in s.local_sv.items())
    print('emit decision by code:', nec, ' expected: True (local A:10 > heard A:3)')
    t('malformed: seq missing', lambda: feed({'/Z': None}))
    # malformed component
    t('malformed comp', lambda: s.sync_handler(Name.normalize('/sync') + [b'\xc9\x03\xca\x05\x01', b'\x02\x00'], None, None, None))
    t('malformed comp2', lambda: s.sync_handler(Name.normalize('/sync') + [b'\xc9\x04\xca\x02\xcc\x03', b'\x02\x00'], None, None, None))
aio.run(main())
