import asyncio as aio
from ndn import appv2, types
from ndn.encoding import *
from ndn.encoding.ndnlp_v2 import *
from ndn.encoding.ndnlp_v2 import LpPacket, LpPacketValue, NetworkNack
from ndn.transport.dummy_face import DummyFace
def t(label, f):
    try:
        r = f(); print(label, '->', repr(r)[:300])
    except BaseException as e:
        print(label, 'RAISES', type(e).__name__, e)
t('empty data', lambda: parse_data(b'\x06\x00'))
t('empty interest', lambda: parse_interest(b'\x05\x00'))
t('data w/o name', lambda: parse_data(b'\x06\x03\x15\x01x'))
# duplicate name
t('data dup name', lambda: parse_data(b'\x06\x0a\x07\x03\x08\x01a\x07\x03\x08\x01b'))
t('uint width 3', lambda: parse_interest(b'\x05\x0a\x07\x03\x08\x01a\x0c\x03\x00\x00\x01'))
t('nonce width 1', lambda: parse_interest(b'\x05\x08\x07\x03\x08\x01a\x0a\x01\x01')[1])
# unknown critical type <=31 even
t('unknown type 0x10 (crit by spec)', lambda: parse_interest(b'\x05\x08\x07\x03\x08\x01a\x10\x01\x01')[0])

async def main():
    got = []
    async def tf(face):
        a = face.app
        a.attach_handler('/h', lambda n, ap, r, c: got.append(Name.to_str(n)))
        i = make_interest('/h/1', InterestParam(nonce=1))
        lp = LpPacket(); lp.lp_packet = LpPacketValue(); lp.lp_packet.nack = NetworkNack(); lp.lp_packet.fragment = i
        w = lp.encode()
        try:
            await a._receive(0x64, bytes(w)); await aio.sleep(0.01)
        except BaseException as e:
            print('raises', type(e).__name__, e)
        print('nack without reason delivered to handler as Interest:', got)
        try:
            await a._receive(6, b'\x06\x00'); await aio.sleep(0.01)
            print('empty data ok')
        except BaseException as e:
            print('empty data raises', type(e).__name__, e)
    face = DummyFace(tf); a = appv2.NDNApp(face=face); face.app = a
    await a.main_loop()
aio.run(main())
