"""C01: make_interest(need_final_name=True) must report the name that is on the wire.
When the caller's name already contains a ParametersSha256DigestComponent (a placeholder), the encoder computes the real digest into the
wire, but the final name returned still carries the caller's placeholder."""
import sys
from ndn.encoding import make_interest, parse_interest, InterestParam, Name, Component

placeholder = Component.from_bytes(bytes(32), Component.TYPE_PARAMETERS_SHA256)
name = Name.from_str('/a/b') + [placeholder] + Name.from_str('/c')
wire, final_name = make_interest(name, InterestParam(), b'params', need_final_name=True)
parsed_name, _, app_param, sig = parse_interest(wire)
print('final name :', Name.to_str(final_name))
print('on the wire:', Name.to_str(parsed_name))
ok = [bytes(c) for c in final_name] == [bytes(c) for c in parsed_name]
print('ok' if ok else 'VIOLATION: the final name reported differs from the name in the packet')
sys.exit(0 if ok else 1)
