"""C15: "an operation that fails part-way does not leave the store in a state where repeating it misbehaves" / "signs with the private key
belonging to the selected key". new_key(..., key_id=X) for a key id that already exists generates a fresh key pair, overwrites the private
key file of the existing key, and only then fails on the UNIQUE constraint of the database. The existing key keeps its public key and
certificate but now signs with a private key that does not belong to them."""
import os, sys, tempfile, sqlite3
from ndn.security.keychain.keychain_sqlite3 import KeychainSqlite3
from ndn.security.tpm.tpm_file import TpmFile
from ndn.encoding import make_data, MetaInfo, parse_data
from ndn.security.validator.known_key_validator import verify_ecdsa
from Cryptodome.PublicKey import ECC

d = tempfile.mkdtemp()
KeychainSqlite3.initialize(os.path.join(d, 'pib.db'), 'tpm-file', os.path.join(d, 'tpm'))
kc = KeychainSqlite3(os.path.join(d, 'pib.db'), TpmFile(os.path.join(d, 'tpm')))
kc.touch_identity('/alice')
key = kc.new_key('/alice', key_type='ec', key_id='k1')
try:
    kc.new_key('/alice', key_type='ec', key_id='k1')
    print('second new_key succeeded?!')
except Exception as e:
    print('second new_key with the same key id failed as expected:', type(e).__name__)
try:
    kc.conn.rollback()
except Exception:
    pass
signer = kc.get_signer({'key': key.name})
wire = make_data('/d', MetaInfo(), b'x', signer=signer)
_, _, _, sig = parse_data(wire)
ok = verify_ecdsa(ECC.import_key(bytes(key.key_bits)), sig)
print('signature verifies under the key\'s public key:', ok)
print('ok' if ok else 'VIOLATION: the failed new_key replaced the private key of the existing key')
sys.exit(0 if ok else 1)
