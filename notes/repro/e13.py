"""Finding 36 (C14): algorithm confusion in CascadeChecker._verify_sig. The verifier is chosen by the packet's own SignatureType,
so a packet that claims HMAC and names a legitimate certificate is checked with HMAC(key = that certificate's PUBLIC key bits),
which anybody can compute. (Only reachable once the HMAC branch returns its verdict.)"""
from Cryptodome.PublicKey import ECC
from ndn.encoding import make_data, parse_data, MetaInfo
from ndn.security import HmacSha256Signer
from ndn.security.validator.cascade_validator import CascadeChecker

victim = ECC.generate(curve='P-256')
pub_bits = victim.public_key().export_key(format='DER')        # public: published in the victim's certificate
forged = make_data('/victim/data', MetaInfo(), b'forged', signer=HmacSha256Signer('/victim/KEY/1/self/1', pub_bits))
_, _, _, sig = parse_data(forged)
print('forged HMAC packet accepted with the public key as secret:', CascadeChecker._verify_sig(pub_bits, sig))
