"""C07: "the ... certificate decoders ... accept only if the mandatory name is present".
parse_certificate accepts a well-framed Data element that has no Name at all (parse_data refuses the same bytes)."""
import sys
from ndn.app_support.security_v2 import parse_certificate
from ndn.encoding import parse_data, DecodeError

# Data { MetaInfo{ContentType=KEY}, Content="k", SignatureInfo{type 0}, SignatureValue(32 bytes) } - no Name
body = bytes.fromhex('1403180102') + bytes.fromhex('15016b') + bytes.fromhex('16031b0100') + b'\x17\x20' + bytes(32)
wire = bytes([0x06, len(body)]) + body
try:
    parse_data(wire)
    print('parse_data accepted it (unexpected)')
except (DecodeError, IndexError, ValueError) as e:
    print('parse_data refuses:', type(e).__name__, e)
try:
    cert = parse_certificate(wire)
    print('parse_certificate ACCEPTS it; name reported as', repr(cert.name))
    sys.exit(1)
except (DecodeError, IndexError, ValueError) as e:
    print('parse_certificate refuses:', type(e).__name__, e)
    sys.exit(0)
