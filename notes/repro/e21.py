"""C03: "... otherwise with the Nack reason, a timeout at its deadline ...".
An Interest whose name ends in an implicit digest is registered in the PIT under the name without that component (Data names do not carry
it). A Nack carries the Interest as it was sent, i.e. with the digest component: the lookup under the full name finds nothing and the
pending Interest ends by time-out instead of InterestNack."""
import asyncio as aio, hashlib, sys
from ndn import appv2, encoding as enc, security as sec, types
from ndn.transport.dummy_face import DummyFace
from ndn.encoding import ndnlp_v2 as lp

DATA = bytes(enc.make_data('/x', enc.MetaInfo(), b'hello', signer=sec.DigestSha256Signer()))
digest = hashlib.sha256(DATA).digest()
full = enc.Name.from_str('/x') + [enc.Component.from_bytes(digest, enc.Component.TYPE_IMPLICIT_SHA256)]
results = {}


async def waiter(tag, coro):
    try:
        await coro
        results[tag] = 'data'
    except types.InterestNack as e:
        results[tag] = ('nack', e.reason)
    except types.InterestTimeout:
        results[tag] = 'timeout'
    except BaseException as e:
        results[tag] = ('error', repr(e))


async def main():
    app = None

    async def face_proc(face: DummyFace):
        t = aio.create_task(waiter('A', app.express(full, appv2.pass_all, lifetime=300, nonce=7)))
        await aio.sleep(0.02)
        sent = face.sent[-1] if hasattr(face, 'sent') else None
        # the forwarder answers with a Nack that carries the Interest
        interest = bytes(enc.make_interest(full, enc.InterestParam(lifetime=300, nonce=7)))
        pkt = lp.LpPacket()
        pkt.lp_packet = lp.LpPacketValue()
        pkt.lp_packet.nack = lp.NetworkNack()
        pkt.lp_packet.nack.nack_reason = lp.NackReason.NO_ROUTE
        pkt.lp_packet.fragment = interest
        await face.input_packet(pkt.encode())
        await aio.sleep(0.05)
        results['A-after-nack'] = results.get('A')
        await t
        app.shutdown()

    face = DummyFace(face_proc)
    app = appv2.NDNApp(face)
    face.app = app
    await app.main_loop()

aio.run(main())
print(results)
ok = results.get('A-after-nack') == ('nack', lp.NackReason.NO_ROUTE)
print('ok' if ok else 'VIOLATION: the nacked Interest did not finish with the Nack reason (it timed out)')
sys.exit(0 if ok else 1)
