import asyncio as aio
from ndn.encoding import *
from ndn import utils, appv2, types
from ndn.transport.dummy_face import DummyFace
from ndn.transport.udp_face import UdpFace
def t(label, f):
    try:
        r = f(); print(label, '->', repr(r)[:300])
    except BaseException as e:
        print(label, 'RAISES', type(e).__name__, e)
# 13: MapField with unknown element between key and value
class MM(TlvModel):
    m = MapField(BytesField(0x85, is_string=True), BytesField(0x87))
x = MM(); x.m = {'k': b'v'}
w = bytes(x.encode()); print(w.hex())
# insert unknown non-critical TLV (type 0x90 len 1) between key and value
k_end = 2 + w[1]
w2 = w[:k_end] + b'\x90\x01Z' + w[k_end:]
t('map parse clean', lambda: MM.parse(w).asdict())
t('map parse with unknown between', lambda: MM.parse(w2).asdict())
# 12: UDP empty datagram
async def udp():
    f = UdpFace('127.0.0.1', 56363)
    async def cb(typ, data): pass
    f.callback = cb
    await f.open()
    t('udp empty datagram', lambda: f.handler.datagram_received(b'', ('127.0.0.1', 1)))
    t('udp truncated datagram', lambda: f.handler.datagram_received(b'\xfd\x01', ('127.0.0.1', 1)))
    f.shutdown()
aio.run(udp())
# 26: frozen clock -> equal timestamps
async def clock():
    sent = []
    async def tf(face):
        a = face.app
        utils.timestamp = lambda: 1000
        import ndn.security.signer.sha256_digest_signer as ds
        ds.timestamp = lambda: 1000
        t1 = aio.create_task(a.register('/p1')); t2 = aio.create_task(a.register('/p2'))
        await aio.sleep(0.3)
        out = face.output_buf
        # split packets
        pkts = []; off = 0
        while off < len(out):
            typ, tl = parse_tl_num(out, off); ln, ll = parse_tl_num(out, off+tl)
            pkts.append(out[off:off+tl+ll+ln]); off += tl+ll+ln
        for p in pkts:
            _,_,_,sp = parse_interest(p); sent.append(sp.signature_info.signature_time)
        t1.cancel(); t2.cancel()
    face = DummyFace(tf); a = appv2.NDNApp(face=face); face.app = a
    try:
        await a.main_loop()
    except BaseException as e:
        pass
    print('signature times of concurrent commands under frozen clock:', sent)
aio.run(clock())
