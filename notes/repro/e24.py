"""C15: a new_key() that fails after the private key was stored leaves the key file behind; repeating new_key() with the same
explicit key id then fails for ever ("already exists") although the store holds no such key."""
import os
import sqlite3
import sys
import tempfile
from ndn.encoding import Name
from ndn.security.keychain.keychain_sqlite3 import KeychainSqlite3
from ndn.security.tpm.tpm_file import TpmFile


class FailingConn:
    """connection proxy: the first INSERT INTO keys raises (disk full, lock, ...)"""
    def __init__(self, conn):
        self._c = conn
        self.armed = True

    def execute(self, sql, *a):
        if self.armed and sql.lstrip().upper().startswith('INSERT INTO KEYS'):
            self.armed = False
            raise sqlite3.OperationalError('injected: database or disk is full')
        return self._c.execute(sql, *a)

    def __getattr__(self, k):
        return getattr(self._c, k)


d = tempfile.mkdtemp()
pib, tpm = os.path.join(d, 'pib.db'), os.path.join(d, 'tpm')
KeychainSqlite3.initialize(pib, 'tpm-file', tpm)
kc = KeychainSqlite3(pib, TpmFile(tpm))
kc.new_identity('/a')
kc.conn = FailingConn(kc.conn)
try:
    kc.new_key('/a', key_id='k1')
    print('the injected failure did not happen')
    sys.exit(2)
except sqlite3.OperationalError as e:
    print('first attempt failed as injected:', e)
print('keys of /a after the failure:', [Name.to_str(k) for k in kc['/a']], ' files in the private-key store:', len(os.listdir(tpm)))
try:
    k = kc.new_key('/a', key_id='k1')
    print('repeat succeeded:', Name.to_str(k.name))
except Exception as e:
    print('repeat FAILED:', type(e).__name__, e, '  <-- VIOLATION: the half-done first attempt makes the repeat misbehave')
    sys.exit(1)
s = kc.get_signer({'key': k.name})
print('ok')
