from ndn.encoding import *
from ndn.security import *
from Cryptodome.PublicKey import ECC
k = ECC.generate(curve='P-256')
s = Sha256WithEcdsaSigner('/k/KEY/1', k.export_key(format='DER'))
bad = 0
for n in range(150, 260):
    for rep in range(3):
        d = make_data('/a', MetaInfo(), b'x'*n, s)
        try:
            name, mi, c, sp = parse_data(d)
            assert bytes(c) == b'x'*n
            from ndn.security.validator.known_key_validator import verify_ecdsa
            assert verify_ecdsa(k.public_key(), sp)
        except Exception as e:
            bad += 1; print(n, type(e).__name__, e)
        i, fn = make_interest('/a', InterestParam(), b'x'*n, s, need_final_name=True)
        try:
            name, p, ap, sp = parse_interest(i)
            assert bytes(ap) == b'x'*n and verify_ecdsa(k.public_key(), sp)
            import hashlib
            h = hashlib.sha256()
            for b in sp.digest_covered_part: h.update(b)
            assert h.digest() == bytes(sp.digest_value_buf)
        except Exception as e:
            bad += 1; print('int', n, type(e).__name__, e)
print('bad', bad)
