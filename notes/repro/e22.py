"""C04: "after a handler is detached it receives nothing".
An Interest that needs validation is handed to the handler from a task that first awaits the validator. When the handler is detached
while the validator is still busy, the task calls it all the same once the validator accepts."""
import asyncio as aio, sys
from ndn import appv2, encoding as enc, security as sec, types
from ndn.transport.dummy_face import DummyFace

got = []


async def slow_validator(name, sig, ctx):
    await aio.sleep(0.1)
    return types.ValidResult.PASS


def handler(name, app_param, reply, ctx):
    got.append(enc.Name.to_str(name))


async def main():
    app = None

    async def face_proc(face: DummyFace):
        app.attach_handler('/svc', handler, slow_validator)
        interest = bytes(enc.make_interest('/svc/op', enc.InterestParam(lifetime=1000), b'args'))
        await face.input_packet(interest)
        await aio.sleep(0.02)             # the validator is running
        app.detach_handler('/svc')        # the application withdraws the handler
        await aio.sleep(0.3)
        app.shutdown()

    face = DummyFace(face_proc)
    app = appv2.NDNApp(face)
    face.app = app
    await app.main_loop()

aio.run(main())
print('handler calls after it was detached:', got)
print('ok' if not got else 'VIOLATION: the detached handler received an Interest')
sys.exit(1 if got else 0)
