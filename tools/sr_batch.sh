#!/bin/bash
# sr_batch.sh <PROP> <round letter> [outroot]: confirm and check <outroot>/<PROP>/r1..5 (scratch copies), keep as <PROP>-<round>-rK
P=$1; S=$2; ROOT=${3:-/tmp/sr/out}
for k in 1 2 3 4 5; do
  d=$ROOT/$P/r$k
  [ -f $d/patch.diff ] || continue
  python3 /verif/tools/refactor_check.py $d $P --keep $P-$S-r$k > /tmp/rc-$P$S-$k.json 2>&1
  python3 - <<PY
import json
s=open('/tmp/rc-$P$S-$k.json').read()
try:
    r=json.loads(s[:s.rindex('}')+1])
    print('$P-$S-r$k', 'confirmed' if r.get('confirmed') else 'UNCONFIRMED '+str({k:v for k,v in r.items() if k!='checks'}), 'FA', r['false_alarms'], 'AE', r['analysis_errors'])
    for p,v in r['checks'].items():
        for x in v['reports'][:2]: print('     ',p,x[:260])
except Exception as e:
    print('$P-$S-r$k ERR', s[-500:])
PY
done
