#!/venv/bin/python
"""Write sa/baseline_funcs.json: the function list of the reference tree (the /repo HEAD the rules were confirmed on).
Functions absent from it are "new helpers" that sa/inline.py expands at their call sites."""
import json, os, sys
sys.path.insert(0, os.path.dirname(os.path.dirname(os.path.abspath(__file__))))
from sa.loader import Program
P = Program(sys.argv[1] if len(sys.argv) > 1 else '/repo', canonical=False)
PC = Program(sys.argv[1] if len(sys.argv) > 1 else '/repo', canonical=True, restore=False)
from sa.alpha import alpha_form, fingerprints
out = os.path.join(os.path.dirname(os.path.dirname(os.path.abspath(__file__))), 'sa', 'baseline_funcs.json')
import ast
consts = []
for m, (path, tree, src) in P.mods.items():
    for s in tree.body:
        if isinstance(s, ast.Assign):
            consts += [f'{m}.{t.id}' for t in s.targets if isinstance(t, ast.Name)]
        elif isinstance(s, ast.AnnAssign) and isinstance(s.target, ast.Name):
            consts.append(f'{m}.{s.target.id}')
for (m, c), cls in P.classes.items():
    for s in cls.body:
        if isinstance(s, ast.Assign):
            consts += [f'{m}.{c}.{t.id}' for t in s.targets if isinstance(t, ast.Name)]
        elif isinstance(s, ast.AnnAssign) and isinstance(s.target, ast.Name):
            consts.append(f'{m}.{c}.{s.target.id}')
import ast as _ast
alpha = {}
for q, f in PC.funcs.items():
    if isinstance(f.node, _ast.Lambda):
        continue
    h, names = alpha_form(f.node)
    alpha[q] = {'alpha': h, 'names': names, 'fp': fingerprints(f.node)}
json.dump({'functions': sorted(P.funcs), 'constants': sorted(set(consts)), 'locals': alpha}, open(out, 'w'), indent=0)
print(len(P.funcs), 'functions')
