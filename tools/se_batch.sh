#!/bin/bash
# se_batch.sh <PROP> <round letter> [outroot]: confirm and check <outroot>/<PROP>/m1..3 (serially: seed_check applies to /repo), keep as <PROP>-<round>-mK
P=$1; S=$2; ROOT=${3:-/tmp/se/out}
for k in 1 2 3; do
  d=$ROOT/$P/m$k
  [ -f $d/patch.diff ] || continue
  python3 /verif/tools/seed_check.py $d $P --keep $P-$S-m$k > /tmp/sc-$P$S-$k.json 2>&1
  python3 - <<PY
import json
s=open('/tmp/sc-$P$S-$k.json').read()
try:
    r=json.loads(s[:s.rindex('}')+1])
    print('$P-$S-m$k', 'confirmed' if r.get('confirmed') else 'UNCONFIRMED '+str({k:v for k,v in r.items() if k!='checks'}), 'own' if r['detected_by_own_check'] else 'OWN-MISSED', 'by', r['detected_by'], 'AE', [p for p,v in r['checks'].items() if v['rc']==2])
    for p,v in r['checks'].items():
        for x in v['reports'][:2]: print('     ',p,x[:230])
except Exception as e:
    print('$P-$S-m$k ERR', s[-600:])
PY
done
