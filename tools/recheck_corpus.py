#!/usr/bin/env python3
"""Re-confirm every kept patch against the *current* /repo tree (needed after a `fix:` commit: a patch may still apply textually and
yet no longer mean what it meant). In a scratch copy of /repo (src + tests) per patch, 16 at a time:
  refactors/<id>: patch applies, unedited suite passes, demo passes            (and demo passes on the current tree)
  seeded/<id>   : patch applies, unedited suite passes, demo FAILS             (and demo passes on the current tree)
usage: recheck_corpus.py refactors|seeded [id-prefix ...]"""
import concurrent.futures as cf
import os
import shutil
import subprocess
import sys
import tempfile

VERIF = os.path.dirname(os.path.dirname(os.path.abspath(__file__)))
kind = sys.argv[1]
only = sys.argv[2:]
root = os.path.join(VERIF, kind)


def sh(cmd, **kw):
    return subprocess.run(cmd, shell=True, capture_output=True, text=True, **kw)


def one(d):
    t = tempfile.mkdtemp(prefix='recheck-')
    try:
        for sub in ('src', 'tests'):
            shutil.copytree(os.path.join('/repo', sub), os.path.join(t, sub), ignore=shutil.ignore_patterns('__pycache__', '*.pyc', '*.egg-info'))
        for f in ('pyproject.toml', 'setup.cfg', 'pytest.ini', 'tox.ini'):
            if os.path.exists(os.path.join('/repo', f)):
                shutil.copy(os.path.join('/repo', f), t)
        demo = os.path.join(root, d, 'demo.py')
        cur = sh(f'timeout 900 /venv/bin/python {demo}', cwd='/tmp', env=dict(os.environ, PYTHONPATH='/repo/src')).returncode
        a = sh(f'git apply {os.path.join(root, d, "patch.diff")}', cwd=t)
        if a.returncode != 0:
            return d, 'DOES NOT APPLY', ''
        env = dict(os.environ, PYTHONPATH=os.path.join(t, 'src'))
        suite = sh('/venv/bin/python -m pytest -q -p no:cacheprovider tests 2>&1 | tail -1', cwd=t, env=env).stdout.strip()
        rc = sh(f'timeout 900 /venv/bin/python {demo}', cwd='/tmp', env=env).returncode
        ok = 'passed' in suite and 'failed' not in suite and 'error' not in suite and cur == 0 and ((rc == 0) if kind == 'refactors' else (rc != 0))
        return d, 'ok' if ok else 'PROBLEM', f'suite: {suite}; demo on current tree rc={cur}; demo with patch rc={rc}'
    finally:
        shutil.rmtree(t, ignore_errors=True)


dirs = sorted(d for d in os.listdir(root) if os.path.exists(os.path.join(root, d, 'patch.diff')) and (not only or any(d.startswith(o) for o in only)))
bad = 0
with cf.ThreadPoolExecutor(max_workers=16) as ex:
    for d, st, info in ex.map(one, dirs):
        if st != 'ok':
            bad += 1
            print(f'{d:12} {st} {info}')
print(f'{len(dirs) - bad}/{len(dirs)} confirmed on the current tree')
