#!/venv/bin/python
"""print the canonical form of a function as the rules see it: tools/showfn.py <qualname> [repo]"""
import ast, sys, os
sys.path.insert(0, os.path.dirname(os.path.dirname(os.path.abspath(__file__))))
from sa.loader import Program
P = Program(sys.argv[2] if len(sys.argv) > 2 else '/repo')
print(ast.unparse(P.func(sys.argv[1]).node))
