#!/usr/bin/env python3
"""Regenerate the generated parts of DESIGN.md from the committed results:
  <!-- BEGIN seeds --> ... <!-- END seeds -->              from seeded/*/meta.json + seeded/CORPUS.json
  <!-- BEGIN refactors --> ... <!-- END refactors -->      from refactors/*/meta.json + refactors/RESULTS.json
  <!-- BEGIN obligations --> ... <!-- END obligations -->  from evidence/*.json"""
import json
import os
import re

V = os.path.dirname(os.path.dirname(os.path.abspath(__file__)))


def seeds():
    res = json.load(open(os.path.join(V, 'seeded', 'CORPUS.json')))
    rows = ['| seed | change (as described by its author) | first run | now | reporting obligation(s) |', '|---|---|---|---|---|']
    for d in sorted(res):
        m = json.load(open(os.path.join(V, 'seeded', d, 'meta.json')))
        txt = (m.get('summary') or m.get('description') or '').replace('|', '/').replace('\n', ' ')[:170]
        first = m.get('detected_by')
        first_s = ('detected' if m['property'] in (first or []) else ('by ' + ','.join(first) if first else 'missed')) if first is not None else '?'
        r = res[d]
        now = 'detected' if r['own_check'] else ('by ' + ','.join(r['detected_by']) if r['detected_by'] else 'MISSED')
        rows.append(f'| `{d}` | {txt} | {first_s} | {now} | {" ".join(r["obligations"][:3])} |')
    n = len(res)
    own = sum(1 for r in res.values() if r['own_check'])
    anyc = sum(1 for r in res.values() if r['detected_by'])
    rows.append('')
    rows.append(f'Totals now: {own}/{n} reported by the check of the seed\'s own property, {anyc}/{n} by some check.')
    return '\n'.join(rows)


def refactors():
    res = json.load(open(os.path.join(V, 'refactors', 'RESULTS.json')))
    rows = ['| refactoring | what was restructured (as described by its author) | first run | now |', '|---|---|---|---|']
    for d in sorted(res):
        m = json.load(open(os.path.join(V, 'refactors', d, 'meta.json')))
        txt = (m.get('summary') or '').replace('|', '/').replace('\n', ' ')[:200]
        fr = m.get('first_run', {})
        first = 'silent' if not fr.get('false_alarms') and not fr.get('analysis_errors') else \
            (('FALSE ALARM ' + ','.join(fr.get('false_alarms', []))) if fr.get('false_alarms') else '') + \
            ((' exit 2 ' + ','.join(fr.get('analysis_errors', []))) if fr.get('analysis_errors') else '')
        r = res[d]
        now = 'silent' if not r['false_alarms'] and not r['analysis_errors'] else \
            (('FALSE ALARM ' + ','.join(r['false_alarms'])) if r['false_alarms'] else '') + ((' exit 2 ' + ','.join(r['analysis_errors'])) if r['analysis_errors'] else '')
        rows.append(f'| `{d}` | {txt} | {first.strip()} | {now.strip()} |')
    n = len(res)
    rows.append('')
    rows.append(f'Totals now: {sum(1 for r in res.values() if not r["false_alarms"] and not r["analysis_errors"])}/{n} silent, '
                f'{sum(1 for r in res.values() if r["false_alarms"])} with a false alarm, '
                f'{sum(1 for r in res.values() if r["analysis_errors"] and not r["false_alarms"])} ending in `ANALYSIS-ERROR` (exit 2, no verdict).')
    return '\n'.join(rows)


def obligations():
    out = []
    for i in range(1, 21):
        p = os.path.join(V, 'evidence', f'C{i:02d}.json')
        if not os.path.exists(p):
            continue
        e = json.load(open(p))
        out.append(f'**C{i:02d}**')
        out.append('')
        for r in e['coverage'].get('rules', []):
            out.append(f'* `{r["id"]}` ({r["instances"]}) {r["rule"]}')
        out.append('')
    return '\n'.join(out)


def main():
    p = os.path.join(V, 'DESIGN.md')
    s = open(p).read()
    for tag, fn in (('seeds', seeds), ('refactors', refactors), ('obligations', obligations)):
        a, b = f'<!-- BEGIN {tag} -->', f'<!-- END {tag} -->'
        if a in s and b in s:
            s = s[:s.index(a) + len(a)] + '\n' + fn() + '\n' + s[s.index(b):]
    open(p, 'w').write(s)


if __name__ == '__main__':
    main()
