#!/usr/bin/env python3
"""Confirm a seeded change produced by a sub-agent and run the checks against it.
usage: seed_check.py <dir with patch.diff demo.py meta.json> <PROP> [--keep <seed-id>]
1. in a scratch worktree of /repo: the patch applies, the unedited suite passes with it, the demo fails with it and
   passes without it;
2. apply the patch to /repo, run ./check <PROP> (and every other claimed check, to see collateral detection), undo.
With --keep the change is stored as /verif/seeded/<seed-id>/ (patch.diff, demo.py, meta.json with what was run)."""
import json
import os
import shutil
import subprocess
import sys
import tempfile

VERIF = os.path.dirname(os.path.dirname(os.path.abspath(__file__)))


def sh(cmd, **kw):
    return subprocess.run(cmd, shell=True, capture_output=True, text=True, **kw)


def main():
    d, prop = os.path.abspath(sys.argv[1]), sys.argv[2]
    keep = sys.argv[sys.argv.index('--keep') + 1] if '--keep' in sys.argv else None
    patch = os.path.join(d, 'patch.diff')
    demo = os.path.join(d, 'demo.py')
    res = {'property': prop}
    wt = tempfile.mkdtemp(prefix='seedwt-')
    os.rmdir(wt)
    assert sh(f'git -C /repo worktree add -q --detach {wt} HEAD').returncode == 0
    try:
        env = dict(os.environ, PYTHONPATH=f'{wt}/src')
        r = sh(f'cd / && timeout 120 /venv/bin/python {demo}', env=env)
        res['demo_pristine_rc'] = r.returncode
        a = sh(f'git -C {wt} apply {patch}')
        res['applies'] = a.returncode == 0
        if a.returncode != 0:
            res['apply_err'] = a.stderr[-300:]
        else:
            r = sh(f'cd {wt} && timeout 600 /venv/bin/python -m pytest -q -p no:cacheprovider tests 2>&1 | tail -1', env=env)
            res['suite_with_change'] = r.stdout.strip()
            r = sh(f'cd / && timeout 120 /venv/bin/python {demo}', env=env)
            res['demo_with_change_rc'] = r.returncode
            res['demo_tail'] = (r.stdout + r.stderr)[-300:]
    finally:
        sh(f'git -C /repo worktree remove --force {wt}')
    res['confirmed'] = bool(res.get('applies') and res.get('demo_pristine_rc') == 0 and res.get('demo_with_change_rc', 0) != 0
                            and ' passed' in res.get('suite_with_change', '') and 'failed' not in res.get('suite_with_change', ''))
    # run the checks against /repo with the patch applied
    assert sh('git -C /repo status --porcelain').stdout.strip() == '', '/repo not clean'
    det = {}
    if res.get('applies'):
        assert sh(f'git -C /repo apply {patch}').returncode == 0
        try:
            man = json.load(open(os.path.join(VERIF, 'MANIFEST.json')))
            props = [c['property_id'] for c in man['checks']]
            if prop not in props:
                props.append(prop)
            evd = tempfile.mkdtemp(prefix='seedev-')
            for p in props:
                r = sh(f'cd {VERIF} && VERIF_EVIDENCE_DIR={evd} ./check {p}')
                lines = [l.strip() for l in r.stdout.splitlines() if l.startswith('  C') and '[' in l.split(' inst')[0]]
                if r.returncode != 0 or p == prop:
                    det[p] = {'rc': r.returncode, 'reports': [l[:260] for l in lines][:4] +
                              [l for l in r.stdout.splitlines() if l.startswith('ANALYSIS-ERROR')][:1]}
            shutil.rmtree(evd, ignore_errors=True)
        finally:
            sh('git -C /repo checkout -- .')
    res['checks'] = det
    res['detected_by_own_check'] = det.get(prop, {}).get('rc') == 1
    res['detected_by'] = sorted(p for p, v in det.items() if v['rc'] == 1)
    print(json.dumps(res, indent=1))
    if keep and res['confirmed']:
        dst = os.path.join(VERIF, 'seeded', keep)
        os.makedirs(dst, exist_ok=True)
        shutil.copy(patch, os.path.join(dst, 'patch.diff'))
        shutil.copy(demo, os.path.join(dst, 'demo.py'))
        meta = json.load(open(os.path.join(d, 'meta.json'))) if os.path.exists(os.path.join(d, 'meta.json')) else {}
        meta.update({'property': prop, 'confirmed_by_me': {
            'ran': 'scratch worktree of /repo HEAD: demo pristine rc=0; git apply; unedited suite; demo with change rc!=0',
            'suite_with_change': res.get('suite_with_change'), 'demo_pristine_rc': res['demo_pristine_rc'],
            'demo_with_change_rc': res['demo_with_change_rc']},
            'detected_by': res['detected_by'], 'reports': det.get(prop, {}).get('reports', [])})
        json.dump(meta, open(os.path.join(dst, 'meta.json'), 'w'), indent=1)
        print('kept as', dst)


if __name__ == '__main__':
    main()
