#!/venv/bin/python
"""Run the mutation campaign (sa/mutate.py) for the given properties (default all) and store the reports under notes/mutation/."""
import json
import os
import sys
HERE = os.path.dirname(os.path.dirname(os.path.abspath(__file__)))
sys.path.insert(0, HERE)
os.chdir('/')
from sa.mutate import campaign  # noqa: E402

props = sys.argv[1:] or ['C%02d' % i for i in range(1, 21)]
os.makedirs(os.path.join(HERE, 'notes', 'mutation'), exist_ok=True)
for p in props:
    ev = json.load(open(os.path.join(HERE, 'evidence', f'{p}.json')))
    quals = [q for q in ev['coverage']['functions_analysed'] if not q.startswith(('ndn.bin.', 'ndn.schema.'))]
    r = campaign('/repo', p, quals, limit=700)
    json.dump(r, open(os.path.join(HERE, 'notes', 'mutation', f'{p}.json'), 'w'), indent=1)
    print(p, {k: v for k, v in r.items() if not k.endswith('_list')}, flush=True)
