#!/usr/bin/env python3
"""Run the property check against every kept seeded change (/verif/seeded/*/patch.diff applied to /repo, undone right after)
and print which are detected. Does not re-run the demos (see seed_check.py)."""
import json
import os
import subprocess
import sys
import tempfile

VERIF = os.path.dirname(os.path.dirname(os.path.abspath(__file__)))


def sh(c):
    return subprocess.run(c, shell=True, capture_output=True, text=True)


assert sh('git -C /repo status --porcelain').stdout.strip() == '', '/repo not clean'
rows = []
evd = tempfile.mkdtemp(prefix='seedev-')
for sid in sorted(os.listdir(os.path.join(VERIF, 'seeded'))):
    d = os.path.join(VERIF, 'seeded', sid)
    if not os.path.exists(os.path.join(d, 'patch.diff')):
        continue
    meta = json.load(open(os.path.join(d, 'meta.json')))
    prop = meta['property']
    a = sh(f'git -C /repo apply {d}/patch.diff')
    if a.returncode != 0:
        rows.append((sid, prop, 'PATCH-STALE', ''))
        continue
    try:
        worst, obs = 0, set()
        for pp in [prop] + meta.get('also_check', []):
            r = sh(f'cd {VERIF} && VERIF_EVIDENCE_DIR={evd} ./check {pp}')
            obs |= {l.split()[0] for l in r.stdout.splitlines() if l.startswith('  C') and '[' in l.split(' inst')[0]}
            if r.returncode == 1 or (r.returncode == 2 and worst == 0):
                worst = r.returncode if worst != 1 else 1
        rows.append((sid, prop, {0: 'missed', 1: 'detected', 2: 'analysis-error'}.get(worst, str(worst)), ' '.join(sorted(obs))))
    finally:
        sh('git -C /repo checkout -- .')
sh(f'rm -rf {evd}')
for r in rows:
    print('%-14s %-4s %-15s %s' % r)
n = sum(1 for r in rows if r[2] == 'detected')
print(f'{n}/{len(rows)} detected')
if '--json' in sys.argv:
    json.dump([dict(zip(('seed', 'property', 'result', 'obligations'), r)) for r in rows], open(os.path.join(VERIF, 'seeded', 'RESULTS.json'), 'w'), indent=1)
