# executed by gen_manifest.py
for _i in range(1, 21):
    NOT_YET['C%02d' % _i] = 'check not built yet in this session (planned, see DESIGN.md §4); not claimed until its rules run clean'

claim('C04', 'ast + CFG must-pass-through, provenance of trie keys and handler node, return-value typestate',
      'Decides structural necessary conditions of C04 on every path of the dispatch/attach/detach/reply code: handler node '
      'comes from longest_prefix(name) on the attach trie; all attach/detach keys are Name.normalize(arg); duplicate attach '
      'raises; detach deletes; reply sends only on the not-expired edge and returns a truthful bool. a match is never decided by the truthiness of the matched key (the empty name is a key). Does not decide pygtrie '
      'semantics or timing values. Also: a node enters a dispatch table only through the attach function of that table (no handler-less nodes shadowing shorter prefixes).',
      'Python semantics as modelled by the CFG builder; pygtrie longest_prefix; user handlers do not raise or re-enter')

claim('C05', 'finite-domain verdict evaluation over the CFG (accepting-set), reaching definitions of the verdict, must-pass-through',
      'For both front-ends decides, on every path: Data/handler delivery is reachable exactly for verdicts {PASS, ALLOW_BYPASS} '
      '(v2, all 5 ValidResult members enumerated) or a truthy verdict (v1); no accepting constant reaches the test where '
      'validation is required; missing validator => FAIL; validation-required condition == (ApplicationParameters or SignatureInfo '
      'present) by truth table; parameters-digest gate dominates the handler task; rejected Data ends in ValidationFailure carrying '
      'packet and verdict; completion re-guarded after the validator await. Does not decide validator latency vs deadline values.',
      'validators are user callbacks; plain-Enum truthiness; CFG model of Python')

claim('C06', 'interprocedural exception-escape analysis with handler filtering and nullable-field narrowing; CFG ordering/dataflow for framing; decision-table comparison',
      'Computes, over every call path from both NDNApp._receive entries and the datagram callbacks (61+ functions, all internal '
      'calls resolved or the run fails closed), the set of exception classes that can leave them and requires it to be empty; '
      'requires the signature verifiers of the library to answer (not raise) for a packet without SignatureValue or with a key of another kind than its signature type; checks the stream loop catches end-of-stream, shuts down and delivers nothing, the framing dataflow (fresh buffer, T, L, '
      'readexactly(L), one task with (T, whole buffer)), byte-echo pairing in read_tl_num_from_stream and equality of its width '
      'table with parse_tl_num. Does not execute packets; "unrelated Interests unaffected" is covered only through C03 bookkeeping. Also: reading a UintField declared with an Enum base type counts as a ValueError raiser in the escape analysis.',
      'user callbacks and tabled library calls do not raise; asserts are invariants; exception hierarchy table; CancelledError legitimate')

claim('C03', 'typestate/pairing over the CFG (acquire-release), exception-escape sets, 16-row decision table by abstract interpretation of the matching loop, loop-shape and provenance checks',
      'For both front-ends decides the bookkeeping structure behind exactly-once completion: every completion of a pending future is '
      'done()-guarded (no suspension in between); every exit of _wait_for_data through the time-out/cancel handlers first removes '
      'the entry, deleting the trie node only under an identity test; its escape set is within the 4 documented exceptions; '
      'time-out->InterestTimeout, cancel->InterestCanceled; InterestTreeNode.satisfy realises the matching rule on all 16 '
      'valuations and v1==v2; no early exit in the prefix walk / entry loop / nack loop; node deleted iff satisfy() reports empty; '
      'express registers before sending and waits on the same future/node/key; timeout()/cancel()/_clean_up shapes. '
      'Does not decide deadline arithmetic, event-loop fairness or arrival order (timing). Also: InterestTimeout / InterestCanceled are raised only as the outcome of the wait on the future itself.',
      'asyncio.wait_for / Future contract; pygtrie prefixes(); user validators do not raise')

claim('C17', 'CFG must-pass-through on the status test with provenance of the tested reply, handler-coverage via exception-escape sets, with-region dominance, loop fall-through, call-shape checks',
      'For all four register/unregister functions decides: `return True` only through status_code == 200 of parse_response(<reply '
      'element of the awaited command>); all four documented command exceptions and every exception class parse_response can raise '
      '(computed interprocedurally, incl. the nullable body) are caught; exactly one command, sent inside the semaphore; timestamp '
      'bookkeeping only advances and (known finding) cannot be skipped; command verb/name/signing shape per front-end; '
      'auto-registration loop and parse_response field copy complete. Does not decide clock values or real concurrency. Also: the timestamp test-and-advance lies inside the critical section that sends; the registration semaphore is created once per event loop / connection and shared by register and unregister.',
      'NFD management protocol tables (status 200, 0x65/0x66/0x67/0x68); asyncio.Semaphore semantics')

claim('C19', 'path-sensitive walk of the generator under the six valuations of (segmented, segment 0, final) with a request/yield trace state, induction-variable analysis of the retry counter, handler-tuple check, provenance of the yielded value',
      'Decides the shape of the retry loop (handler around the awaited Interest catches exactly InterestTimeout; attempts == '
      'retry_times from init/step/test/position of the counter; exhaustion re-raises; a timed-out Interest is re-expressed with the '
      'caller\'s parameters) and of the generator: on every path under each valuation every answer is yielded once (element 2 of the '
      'fetched tuple) before the next request or the end, only a discovery answer that is a segment other than 0 is discarded, request '
      'k asks for the segment after the k yielded so far, nothing is requested after a final or unsegmented answer and the generator '
      'does not end before one. Does not decide loss patterns or producer behaviour.',
      'express_interest contract; Component.from_segment/to_number semantics')

claim('C20', 'ordering of classified writes over the CFG, constant folding of environment names, finite-domain evaluation of scheme dispatch, sibling-contradiction check on scheme:location splits',
      'Decides that read_client_conf writes default < file < environment < resolve_location in that order on every path, each '
      'source over all its keys (resolution only pib/tpm), missing keys tolerated without overwriting; folded environment names; '
      'get_path first-existing; default_face / default_keychain scheme tables by enumerating every scheme value plus "other" '
      '(raising default), default port 6363 only when absent; scheme:location splits at most once everywhere; resolve_location '
      'walked under 40 valuations of (colon, empty, absolute, exists as given, file present, exists relative, item) returns given / '
      'relative to the file / platform default as specified. Does not decide file-system state or ConfigParser/urlparse behaviour. Also: the settings dict is created by each call (nothing written by one call is the default of the next).',
      'ConfigParser, urlparse and os.path semantics')

claim('C18', 'exception-escape set of the handler, CFG ordering (no state write before the over-claim return), guard-polarity must-pass-through on stores, provenance of accumulator reads, loop/decision shape of the timer',
      'Decides: escape set of sync_handler empty; the over-claim guard (`remote > own`, own node only) returns before any write to '
      'local_sv/agg_sv/state; every store into local_sv is behind old < new with old read from local_sv under the same key; '
      'need_fetch set exactly with a raise and on_missing_data fires iff need_fetch on every path; aggregate is '
      'max(agg_sv.get(k,0), v) and a suppression period starts from a copy of its first vector; on_timer sends iff necessary, '
      'suppression overridden only by agg_sv.get(id,0) < local over all local entries, steady state never suppressed; new_data '
      '(linear execution on every path) leaves counter, stored entry and returned value at entry value + 1 and arms the timer; sync Interest carries every local entry. the periodic timer is restarted only when no emission is already due; Does not decide timers or suppression timing.',
      'user callback on_missing_data does not raise; asyncio timer behaviour')

claim('C14', 'default-argument lint, finite-domain dispatch evaluation over SignatureType, must-pass-through and provenance of key material, wiring checks of the validator composition',
      'Decides: no stateful default argument in the validator modules; _verify_sig returns the matching verify_* result for every '
      'signature type that has a shipped signer (derived from the signer classes) and False otherwise, bool on all paths; '
      'CascadeChecker.validate accepts only through _verify_sig(key_bits, sig_ptrs) with key_bits from {anchor key under '
      'cert_name == anchor_name, storage.load(cert_name), Content of a fetch of cert_name validated by next_level}, fetch failures '
      'reject; lvs_validator returns union(validate_name, cascade) and rewires next_level to it; union_checker is a conjunction; '
      'constructor refusals (self-signed anchor, roots of trust, user functions). Does not decide existence of a chain, '
      'cryptographic validity or retrieval behaviour. Also: the key cache is filed under the full certificate name; validate() decides nothing by instance state it writes itself.',
      'Cryptodome verifiers; Checker.check/match semantics (C11/C12)')

claim('C15', 'SQL effect extraction from string constants (table, WHERE columns, bound parameters), trigger parsing, resolved-call lint, def-use of the memo key, ordering of delete/reset effects, commit-compensation pattern',
      'Decides: per view class iteration/length/lookup/default queries read the same table and are scoped to their owner with the '
      'scope bound to self.row_id; a missing entry raises KeyError; the nine default-maintaining triggers exist with the right '
      'timing, WHEN clause and owner scope, and set_default_* go through UPDATE + commit; every self.pib.<m>() delegation resolves '
      'to an existing keychain method; the signer memo key depends on every argument of tpm.get_signer; key locator defaults to the '
      'certificate, key name and certificate name belong together on every path, a Key / Identity object given as argument is used even when it holds nothing; deletes remove certificates, key row and private key (cascade is inert) and reset the signer cache afterwards; '
      'no commit between dependent inserts without a compensating delete; the private-key store never replaces an existing key; every step '
      'of new_key after the private key was stored runs under a handler that rolls back, deletes that private key and re-raises; TpmFile names files from one encoding. '
      'Does not decide histories, crash points or reopen. Also: ON DELETE CASCADE counts only if PRAGMA foreign_keys is enabled on the connection the delete methods use.',
      'sqlite3 trigger/unique-index semantics; no PRAGMA foreign_keys in the package')

claim('C16', 'provenance of each certificate field, linear size algebra on the hand-assembled outer TLV (normal-form equality), extracted model field order against the certificate format',
      'Decides for new_cert: name = normalize(key_name)+[issuer, version] and is what is returned; content = pub_key; content type KEY; '
      'not_before<-start_time, not_after<-end_time through strftime with the certificate format; signer argument reaches the signing '
      'marker of the same encode; outer TLV: buffer = TL(DATA)+TL(n)+n, type at 0, length n at TL(DATA), value[0:n] at TL(DATA)+TL(n) '
      'with n = len(value) - shrink (symbolic equality); wrappers pass the right issuer component / period; certificate models keep '
      'SignatureInfo at 0x16 with ValidityPeriod 0xFD{0xFE,0xFF}; parse_certificate checks the Data type. '
      'issuing signers and verifiers agree on type, scheme parameters and hash (table shared with C02). '
      'Does not decide signature validity or time-zone handling. Also: derive_cert hands the caller\'s start instant to new_cert as given; no memoised function hands out a mutable key name.',
      'NDN certificate format v2 numbers; datetime.strftime semantics')

claim('C10', 'reaching definitions / provenance at the dispatch block, nullable-field narrowing of the Nack discriminator, must-pass-through on the token test, extracted NDNLPv2 model tables',
      'Decides: everything dispatched after unwrapping derives from the received packet or the envelope Fragment and its type from '
      'parse_tl_num(Fragment), one shared dispatch block; the Nack reason reaching _on_nack/InterestNack is the envelope field or NONE, '
      'and the Nack discriminator cannot be None when a Nack header is present and is tested for presence, not truthiness (NackReason.NONE is 0) (both front-ends); the PIT token flows envelope -> '
      '_on_interest -> reply closure -> LpPacket(pit_token, fragment=data) unmodified, bare send exactly when there is no token '
      '(is None, not truthiness); parse_lp_packet_v2 checks 0x64, ignores unknown headers, rejects frag_index/frag_count with '
      'DecodeError; model type numbers, Fragment last, Nack nesting. Does not decide value-level behaviour for all header combinations.',
      'NDNLPv2 numbers as transcribed; TlvModel codec (C08)')

claim('C11', 'CFG must-pass-through with guard polarity on the matcher state machine, bind/undo pairing, loop-shape (CNF) analysis, induction-variable facts of the pattern numbering, comprehension-shape check of reference inlining',
      'Decides checker-side necessary conditions: a match is yielded only at depth == len(name); literal edges need an equal component; '
      'every pattern-edge move is behind _check_cons(value, context, edge constraints); a bound tag needs an equal component; named '
      'tags are bound once, pushed on the undo stack and removed on backtrack; _check_cons is for-all constraints / exists option with '
      'each option comparing the component; tag numbering (named 1..n, temporaries from n+1, named_pattern_cnt = n, checker binds '
      'tag <= n); reference inlining concatenates both name chains and both constraint sets over the product of alternatives, '
      'redefinitions accumulate; the trie builder drops the constraints of a pattern seen earlier in a chain only for named patterns '
      '(a temporary one keeps them at every occurrence); save/load round-trip the model. Semantic equivalence of the compiler with '
      'the schema text for all schemas x names is NOT decided. Also: match() drops a trailing component only if it is the implicit digest.',
      'TlvModel codec of the binary model; lark grammar/parser')

claim('C12', 'CFG must-pass-through on the signer membership test, provenance of the carried context, sibling normalisation checks, loop completeness of the signing-reference fix-up',
      'Decides: constraints are evaluated also on the bound-tag path (the defect that let /a/bar sign /b/bar); check() matches the key '
      'name under the bindings produced by the packet match and answers True only through `key node in packet node.sign_cons`, False '
      'by default; both names are normalised, digest-stripped and may be empty; every signer rule name maps to all node ids of that '
      'rule, unknown signer raises, every rule-ending node is recorded; expanding a rule reference lends name and constraints but not signers (rule shared with C11); compiler pass order. The relation over all schema/name pairs is not decided. Also: no match of the key name starts from an empty context; only the implicit digest is dropped.',
      'as C11')

claim('C13', 'guard-existence and raising-edge analysis against the documented sanity list (read from docs at run time), truthiness lint on integer ids, reachability of schema-error raises, loop progress of top_order',
      'Decides: each of the six documented sanity rules has a test of the right shape whose violating edge raises LvsModelError, inside '
      'a walk that starts at start_id and recurses over both edge kinds, run by the constructor and load(); integer ids are never '
      'tested by truthiness; compile-time errors (undefined / temporary rule reference, reference and signing cycles via top_order, '
      'unknown pattern, temporary pattern as value or argument, unknown signer) each have a guard raising SemanticError; the rule '
      'reference graph receives every reference of every definition of a rule (no entry re-initialised per definition); every round '
      'of top_order removes a node or raises. That every ill-formed schema is caught, and termination of _match on every accepted '
      'model beyond the tree property, are not decided. Also: no function between schema text and compiler input is memoised with a mutable result (the compiler rewrites the parse tree in place).',
      'docs/src/lvs/binary-format.rst lists exactly the mandatory rules')

claim('C01', 'linear size algebra over the encoder methods (normal-form equality), def-use agreement of value normalisations, decision-table comparison, ordering/provenance checks on make/parse',
      'Decides structural necessary conditions of the round trip: per Field class the value measured is the value written (SIZ.1a) and the '
      'announced size equals the reported/advanced size symbolically (SIZ.1b); shrink_length offsets (diff + TL sizes identity, both '
      'views end at -val); signature shrink bookkeeping and the 253 guard; make_* encode, then shrink iff shrink_size > 0, return that '
      'buffer; make_interest/parse_interest copy the same six InterestParam fields name-to-name and pass name/params/payload through; '
      'the parameters-digest component is type 0x02, length 32, announced as 34 bytes, its buffer is the 32-byte value; VAR-NUMBER tables. '
      'the final name gets the wire region of the digest component also when the caller supplied a placeholder; the digest written into it is computed after the signature over the range ending at the shrunk signature (rules shared with C02); '
      'Does not decide equality of returned values for all names/payloads or the signers themselves.',
      'struct widths; signer.get_signature_value_size() >= real size')

claim('C02', 'extracted model field order vs signed-portion definition, wiring/provenance checks, CFG ordering, loop-shape (consume-all) checks, signer/verifier sibling tables',
      'Decides: marker placement gives the NDN 0.3 signed portion for Data [07,14,15,16] and Interest [24,2c] and digest portion '
      '[24,2c,2e] to the end; SignatureValueField / InterestNameField are wired to the model\'s own procedure arguments; the covered '
      'slice is wire[start:offset] taken before the signature TLV is written and wire[start:offset_btl] at parse; every name component '
      'except the parameters digest is covered; signature before digest, digest over the shrunk range, written into the name; every '
      'signer/verifier/digest checker consumes all covered blocks in order; digest checkers are truthy only through digest == value and '
      'refuse empty parts; signer and verifier agree on type constant and scheme parameters; verifiers return True only after verify(); '
      'both front-ends run the parameters-digest check whenever parameters are present (even empty) or a signature is (shared with C05). '
      'Cryptographic soundness (tampering is rejected) is not decided. Also: a known-key validator accepts only through the verifier\'s answer for the packet at hand (no remembered verdicts); a running position kept while reporting covered name ranges advances on every path.',
      'Cryptodome primitives; NDN packet format 0.3 signed-portion definition as transcribed')

claim('C07', 'taint/bounds dominance on wire-derived lengths, interprocedural escape sets of the decoders, guard existence for the mandatory Name, decision tables, model order vs format, loop-progress checks',
      'Decides: a Length read from the wire is compared (raising) with the buffer, or with a counter that itself was so compared, before '
      'it bounds a slice or is passed on (two known findings in TlvModel.parse); the five decoders raise only documented decoding '
      'errors; parse_interest/parse_data/parse_certificate refuse a packet without Name and check the outer type; (the set of Lengths for which a number is returned, explored for 0..17 whatever the shape of the dispatch) Uint widths {1,2,4,8}; packet models '
      'follow the format\'s element order and fixed widths; scan loop: search from the current position, single fields advance, '
      'repeated/map stay, unknown critical raises, every element is skipped by its length; decode loops consume input. '
      'Value equality with a strict reading is not decided.',
      'NDN packet format 0.3 / certificate format orders as transcribed; critical = odd type (library documentation)')

claim('C08', 'decision-table extraction and comparison with VAR-NUMBER / NonNegativeInteger, linear size algebra per Field class, loop-shape checks on the model walker and metaclass, lint over all 64 extracted models',
      'Decides: the four VAR-NUMBER functions and the four NonNegativeInteger functions implement the shortest-form tables and agree; '
      'per Field class value normalisations agree and announced == written size symbolically; container fields name the element field per element by the same template before measuring and before writing; TlvModel.encoded_length/encode/__eq__ walk '
      '_encoded_fields completely in order and the buffer is sized by encoded_length; the metaclass keeps class-body order; every '
      'shipped model has distinct sibling type numbers, resolvable nested models and acyclic nesting; scan-loop critical-bit rule '
      '(shared with C07); map value type check (known finding). Equality after decode for all values / generated classes is not decided. Also: key and value sub-fields of a map entry get names of their own; TlvModel.encode runs the measuring pass before any field is written unless the markers say it has.',
      'struct widths B/H/I/Q; static model extraction equals the metaclass result (validated in the self-test)')

claim('C09', 'decision tables (shortest form), sibling comparison of the three normalisers and of the URI writers, constant folding of CHARSET and the alternate-URI tables, linear size agreement of Name.encode/encoded_length',
      'Decides: shortest-form type/length numbers and component assembly; the three NonStrictName normalisers convert str via '
      'Name.from_str and text components via Component.from_str(escape_str(c)), refuse other types; to_str/to_canonical_uri share the '
      'escaping rule (raw iff in CHARSET and not % or =), length check and type prefix, Name writers differ only in the component '
      'function; CHARSET = unreserved + {=,%} without /; from_str treats exactly % and = as metacharacters; alternate URI tables are '
      'inverse and match the naming conventions; digest shorthands symmetric; typed numbers use the smallest width; is_prefix '
      'normalises both sides and bounds the slice; Name.encode allocates what encoded_length announces. '
      'Round-trip identity over all byte values is not decided. Also: the octet -> URI text rule of to_str / to_canonical_uri is folded for all 256 octet values whatever its spelling; no memoised function hands out a mutable name.',
      'NDN naming conventions table as transcribed')

