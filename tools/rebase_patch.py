#!/usr/bin/env python3
"""Carry a kept seed / refactoring patch over a `fix:` commit in /repo that touched the same lines.
usage: rebase_patch.py <old-commit> <seeded|refactors>/<id> <port-script.py>
The patch is applied in a scratch worktree of <old-commit> (the tree it was written for); <port-script.py> (python, gets the worktree
path in sys.argv[1]) ports the fix into the changed files by hand-written edits; the changed files are then copied over a scratch
worktree of the current HEAD and the difference becomes the new patch.diff. The unedited suite and the kept demonstration are re-run:
a refactoring's demo must pass with the new patch, a seed's demo must fail with it and pass on the current tree."""
import os
import subprocess
import sys

VERIF = os.path.dirname(os.path.dirname(os.path.abspath(__file__)))


def sh(cmd, **kw):
    return subprocess.run(cmd, shell=True, capture_output=True, text=True, **kw)


def main():
    old, ident, port = sys.argv[1], sys.argv[2], os.path.abspath(sys.argv[3])
    d = os.path.join(VERIF, ident)
    wo, wn = '/tmp/rb-old', '/tmp/rb-new'
    for w in (wo, wn):
        sh(f'git -C /repo worktree remove --force {w}')
    assert sh(f'git -C /repo worktree add -q --detach {wo} {old}').returncode == 0
    assert sh(f'git -C /repo worktree add -q --detach {wn} HEAD').returncode == 0
    try:
        a = sh(f'git apply {d}/patch.diff', cwd=wo)
        assert a.returncode == 0, a.stderr
        r = sh(f'/venv/bin/python {port} {wo}')
        print(ident, r.stdout.strip(), r.stderr.strip()[-200:])
        assert r.returncode == 0, 'the port script failed: nothing rebased'
        files = sh('git diff --name-only', cwd=wo).stdout.split()
        for f in files:
            sh(f'cp {wo}/{f} {wn}/{f}')
        new = sh('git diff', cwd=wn).stdout
        env = dict(os.environ, PYTHONPATH=f'{wn}/src')
        suite = sh('/venv/bin/python -m pytest -q -p no:cacheprovider tests 2>&1 | tail -1', cwd=wn, env=env).stdout.strip()
        demo = os.path.join(d, 'demo.py')
        rc_new = sh(f'timeout 900 /venv/bin/python {demo}', cwd='/tmp', env=env).returncode
        rc_cur = sh(f'timeout 900 /venv/bin/python {demo}', cwd='/tmp', env=dict(os.environ, PYTHONPATH='/repo/src')).returncode
        print(f'   suite: {suite}; demo with the rebased change rc={rc_new}; demo on the current tree rc={rc_cur}')
        want_new = 0 if ident.startswith('refactors') else 1
        okay = 'passed' in suite and 'failed' not in suite and rc_cur == 0 and (rc_new == 0) == (want_new == 0)
        if okay:
            open(os.path.join(d, 'patch.diff'), 'w').write(new)
            print('   rebased')
        else:
            print('   NOT rebased (kept as it was)')
    finally:
        for w in (wo, wn):
            sh(f'git -C /repo worktree remove --force {w}')


main()
