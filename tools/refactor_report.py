#!/venv/bin/python
"""Run the behaviour-preserving rewrite campaign (sa/refactor.py) for the given properties (default all) and store the
reports under notes/refactor/. Every variant must leave the check silent."""
import json
import os
import sys
HERE = os.path.dirname(os.path.dirname(os.path.abspath(__file__)))
sys.path.insert(0, HERE)
os.chdir('/')
from sa.refactor import campaign  # noqa: E402

props = sys.argv[1:] or ['C%02d' % i for i in range(1, 21)]
os.makedirs(os.path.join(HERE, 'notes', 'refactor'), exist_ok=True)
for p in props:
    ev = json.load(open(os.path.join(HERE, 'evidence', f'{p}.json')))
    quals = [q for q in ev['coverage']['functions_analysed'] if not q.startswith(('ndn.bin.', 'ndn.schema.'))]
    r = campaign('/repo', p, quals, limit=900)
    json.dump(r, open(os.path.join(HERE, 'notes', 'refactor', f'{p}.json'), 'w'), indent=1)
    print(p, {'generated': r['generated'], 'silent': r['silent'], 'false_alarms': len(r['false_alarms']), 'analysis_errors': len(r['analysis_errors'])}, flush=True)
