#!/usr/bin/env python3
"""Regenerates /verif/MANIFEST.json from the table below (one entry per property)."""
import json
import os

HERE = os.path.dirname(os.path.dirname(os.path.abspath(__file__)))

# property -> (claimed?, technique, level text, level note)   -- filled as checks are built
CLAIMS = {}


def claim(pid, technique, text, note):
    CLAIMS[pid] = (technique, text, note)


NOT_YET = {}

exec(open(os.path.join(HERE, 'tools', 'claims.py')).read())

checks = []
for pid in sorted(CLAIMS):
    technique, text, note = CLAIMS[pid]
    checks.append({
        'property_id': pid,
        'quick_cmd': f'./check {pid} --tier quick',
        'thorough_cmd': f'./check {pid} --tier thorough',
        'evidence_file': f'/verif/evidence/{pid}.json',
        'replay_cmd_template': './check ' + pid + ' --replay {path}',
        'engine': 'sa',
        'level_claimed': {'category': 'other', 'text': text, 'design_ref': f'DESIGN.md §4 {pid}'},
        'level_note': note,
        'technique': technique,
    })
man = {
    'version': 1,
    'setup_cmd': 'true',
    'hooks': {
        'guard': 'NAMED_DATA_PYTHON_NDN_VERIF',
        'enable': 'none needed: the checks read the source under /repo/src/ndn with ast and never import or run it',
        'baseline_off_cmd': 'cd /repo && /venv/bin/python -m pytest -ra -q -p no:cacheprovider --timeout=900 '
                            '--continue-on-collection-errors',
        'source_commits': [],
        'add_only': True,
    },
    'engines': [{'name': 'sa', 'path': '/verif/sa', 'serves_properties': sorted(CLAIMS),
                 'kind_free_text': 'repository-specific static analyser on Python ast: resolver, per-function CFG with '
                                   'split short-circuit tests and exception edges, reaching definitions / provenance through '
                                   'closures, exception-escape and nullable-field effect analyses, TLV model extraction, '
                                   'decision-table and SQL extraction'}],
    'checks': checks,
    'notes': 'Static analysis only. Exit 0 ok / 1 + VIOLATION line / 2 + ANALYSIS-ERROR line (analyser could not decide). '
             'Known findings: /verif/known_findings.json. See DESIGN.md.',
    'not_applicable': [{'property_id': p, 'reason': r} for p, r in sorted(NOT_YET.items()) if p not in CLAIMS],
}
json.dump(man, open(os.path.join(HERE, 'MANIFEST.json'), 'w'), indent=1)
print('claimed', sorted(CLAIMS), 'not_applicable', [x['property_id'] for x in man['not_applicable']])
