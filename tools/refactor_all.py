#!/usr/bin/env python3
"""Run every claimed check against every kept refactoring (/verif/refactors/<id>/patch.diff applied to /repo, undone afterwards).
All must be silent. Writes refactors/RESULTS.json. usage: refactor_all.py [--json]"""
import json
import os
import sys
sys.path.insert(0, os.path.dirname(os.path.abspath(__file__)))
from refactor_check import run_checks, VERIF

root = os.path.join(VERIF, 'refactors')
out = {}
for d in sorted(os.listdir(root)):
    p = os.path.join(root, d, 'patch.diff')
    if not os.path.exists(p):
        continue
    prop = json.load(open(os.path.join(root, d, 'meta.json')))['property']
    det = run_checks(p, prop)
    fa = sorted(k for k, v in det.items() if v['rc'] == 1)
    ae = sorted(k for k, v in det.items() if v['rc'] == 2)
    out[d] = {'property': prop, 'false_alarms': fa, 'analysis_errors': ae, 'reports': {k: v['reports'][:1] for k, v in det.items()}}
    print(f'{d:12} {prop}  ' + ('silent' if not det else f'FALSE-ALARM {fa} ANALYSIS-ERROR {ae}'))
    for k, v in det.items():
        for r in v['reports'][:1]:
            print('      ', k, r[:220])
n = len(out)
print(f'{sum(1 for v in out.values() if not v["false_alarms"] and not v["analysis_errors"])}/{n} silent, '
      f'{sum(1 for v in out.values() if v["false_alarms"])} with false alarms, {sum(1 for v in out.values() if v["analysis_errors"] and not v["false_alarms"])} analysis-error only')
if '--json' in sys.argv:
    json.dump(out, open(os.path.join(root, 'RESULTS.json'), 'w'), indent=1)
