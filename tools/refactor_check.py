#!/usr/bin/env python3
"""Confirm a behaviour-preserving refactoring produced by a sub-agent and run the checks against it (they must stay silent).
usage: refactor_check.py <dir with patch.diff demo.py meta.json> <PROP> [--keep <id>]
1. scratch worktree of /repo: demo passes pristine; patch applies; unedited suite passes with it; demo still passes;
2. apply the patch to /repo, run every claimed check, undo. rc 0 = silent (wanted), 1 = FALSE ALARM, 2 = analysis error.
With --keep the change is stored as /verif/refactors/<id>/ (patch.diff, demo.py, meta.json)."""
import json
import os
import shutil
import subprocess
import sys
import tempfile

VERIF = os.path.dirname(os.path.dirname(os.path.abspath(__file__)))


def sh(cmd, **kw):
    return subprocess.run(cmd, shell=True, capture_output=True, text=True, **kw)


def run_checks(patch, prop):
    """on a scratch copy of /repo's working tree (src + docs/src/lvs) with the patch applied - the same thing as applying it to /repo and undoing it,
    but safe while other jobs read /repo"""
    det = {}
    t = tempfile.mkdtemp(prefix='refchk-')
    try:
        shutil.copytree('/repo/src', os.path.join(t, 'src'), ignore=shutil.ignore_patterns('__pycache__', '*.pyc', '*.egg-info'))
        shutil.copytree('/repo/docs/src/lvs', os.path.join(t, 'docs', 'src', 'lvs'))
        assert sh(f'git apply {patch}', cwd=t).returncode == 0
        man = json.load(open(os.path.join(VERIF, 'MANIFEST.json')))
        props = [c['property_id'] for c in man['checks']]

        def one(p):
            return p, sh(f'cd {VERIF} && VERIF_EVIDENCE_DIR={t}/ev-{p} ./check {p} --repo {t}')
        import concurrent.futures as cf
        with cf.ThreadPoolExecutor(max_workers=10) as ex:
            for p, r in ex.map(one, props):
                if r.returncode != 0:
                    lines = [l.strip() for l in r.stdout.splitlines() if l.startswith('  C') and '[' in l.split(' inst')[0]]
                    det[p] = {'rc': r.returncode, 'reports': [l[:300] for l in lines][:4] + [l[:300] for l in r.stdout.splitlines() if l.startswith('ANALYSIS-ERROR')][:1]}
    finally:
        shutil.rmtree(t, ignore_errors=True)
    return det


def main():
    d, prop = os.path.abspath(sys.argv[1]), sys.argv[2]
    keep = sys.argv[sys.argv.index('--keep') + 1] if '--keep' in sys.argv else None
    patch = os.path.join(d, 'patch.diff')
    demo = os.path.join(d, 'demo.py')
    res = {'property': prop}
    if '--checks-only' not in sys.argv:
        wt = tempfile.mkdtemp(prefix='refwt-')
        os.rmdir(wt)
        assert sh(f'git -C /repo worktree add -q --detach {wt} HEAD').returncode == 0
        try:
            env = dict(os.environ, PYTHONPATH=f'{wt}/src')
            r = sh(f'cd / && timeout 300 /venv/bin/python {demo}', env=env)
            res['demo_pristine_rc'] = r.returncode
            a = sh(f'git -C {wt} apply {patch}')
            res['applies'] = a.returncode == 0
            if a.returncode == 0:
                r = sh(f'cd {wt} && timeout 600 /venv/bin/python -m pytest -q -p no:cacheprovider tests 2>&1 | tail -1', env=env)
                res['suite_with_change'] = r.stdout.strip()
                r = sh(f'cd / && timeout 300 /venv/bin/python {demo}', env=env)
                res['demo_with_change_rc'] = r.returncode
        finally:
            sh(f'git -C /repo worktree remove --force {wt}')
        res['confirmed'] = bool(res.get('applies') and res.get('demo_pristine_rc') == 0 and res.get('demo_with_change_rc') == 0
                                and ' passed' in res.get('suite_with_change', '') and 'failed' not in res.get('suite_with_change', ''))
    else:
        res['applies'] = True
    det = run_checks(patch, prop) if res.get('applies') else {}
    res['checks'] = det
    res['false_alarms'] = sorted(p for p, v in det.items() if v['rc'] == 1)
    res['analysis_errors'] = sorted(p for p, v in det.items() if v['rc'] == 2)
    print(json.dumps(res, indent=1))
    if keep and res.get('confirmed'):
        dst = os.path.join(VERIF, 'refactors', keep)
        os.makedirs(dst, exist_ok=True)
        shutil.copy(patch, os.path.join(dst, 'patch.diff'))
        shutil.copy(demo, os.path.join(dst, 'demo.py'))
        meta = json.load(open(os.path.join(d, 'meta.json'))) if os.path.exists(os.path.join(d, 'meta.json')) else {}
        meta.update({'property': prop, 'kind': 'refactoring', 'confirmed_by_me': {
            'ran': 'scratch worktree of /repo HEAD: demo pristine rc=0; git apply; unedited suite; demo with change rc=0',
            'suite_with_change': res.get('suite_with_change')},
            'first_run': {'false_alarms': res['false_alarms'], 'analysis_errors': res['analysis_errors'],
                          'reports': {p: v['reports'][:2] for p, v in det.items()}}})
        json.dump(meta, open(os.path.join(dst, 'meta.json'), 'w'), indent=1)
        print('kept as', dst)


if __name__ == '__main__':
    main()
