#!/bin/bash
# rc_batch.sh <PROP> <suffix letter>: confirm and check /tmp/wt/out-<PROP><suffix>/r1..5 in parallel, keep as <PROP>-<suffix>-rK
P=$1; S=$2
for k in 1 2 3 4 5; do
  d=/tmp/wt/out-$P$S/r$k
  [ -f $d/patch.diff ] || continue
  python3 /verif/tools/refactor_check.py $d $P --keep $P-$S-r$k > /tmp/rc-$P$S-$k.json 2>&1 &
done
wait
for k in 1 2 3 4 5; do
  [ -f /tmp/rc-$P$S-$k.json ] || continue
  python3 - <<PY
import json,re
s=open('/tmp/rc-$P$S-$k.json').read()
try:
    r=json.loads(s[:s.rindex('}')+1])
    print('$P$S r$k', 'confirmed' if r.get('confirmed') else 'UNCONFIRMED '+str({k:v for k,v in r.items() if k!='checks'}), 'FA', r['false_alarms'], 'AE', r['analysis_errors'])
    for p,v in r['checks'].items():
        for x in v['reports'][:2]: print('     ',p,x[:260])
except Exception as e:
    print('$P$S r$k ERR', s[-500:])
PY
done
