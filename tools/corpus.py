#!/usr/bin/env python3
"""Run every claimed check against every kept change in parallel, each on its own scratch copy of /repo/src (never touching /repo):
  corpus.py refactors   -> every check must stay silent on every kept refactoring   (writes refactors/RESULTS.json)
  corpus.py seeded      -> the check of the seed's property (and the others) must report it (writes seeded/CORPUS.json)
Equivalent to applying the patch to /repo, running the checks and undoing it (tools/seed_all.py / refactor_all.py), but 16 at a time."""
import concurrent.futures as cf
import json
import os
import shutil
import subprocess
import sys
import tempfile

VERIF = os.path.dirname(os.path.dirname(os.path.abspath(__file__)))
kind = sys.argv[1] if len(sys.argv) > 1 else 'refactors'
only = sys.argv[2:] if len(sys.argv) > 2 else None
root = os.path.join(VERIF, kind)
props = [c['property_id'] for c in json.load(open(os.path.join(VERIF, 'MANIFEST.json')))['checks']]


def one(d):
    meta = json.load(open(os.path.join(root, d, 'meta.json')))
    prop = meta['property']
    t = tempfile.mkdtemp(prefix='corpus-')
    try:
        shutil.copytree('/repo/src', os.path.join(t, 'src'), ignore=shutil.ignore_patterns('__pycache__', '*.pyc', '*.egg-info'))
        shutil.copytree('/repo/docs/src/lvs', os.path.join(t, 'docs', 'src', 'lvs'))
        r = subprocess.run(['git', 'apply', os.path.join(root, d, 'patch.diff')], cwd=t, capture_output=True, text=True)
        if r.returncode != 0:
            return d, prop, None, {'apply': r.stderr[-200:]}
        det = {}
        for p in props:
            r = subprocess.run([os.path.join(VERIF, 'check'), p, '--repo', t], capture_output=True, text=True,
                               env=dict(os.environ, VERIF_EVIDENCE_DIR=os.path.join(t, 'ev')))
            if r.returncode != 0:
                lines = [l.strip()[:300] for l in r.stdout.splitlines() if (l.startswith('  C') and '[' in l.split(' inst')[0]) or l.startswith('ANALYSIS-ERROR')]
                det[p] = {'rc': r.returncode, 'reports': lines[:3]}
        return d, prop, meta, det
    finally:
        shutil.rmtree(t, ignore_errors=True)


dirs = sorted(d for d in os.listdir(root) if os.path.exists(os.path.join(root, d, 'patch.diff')) and (not only or any(d.startswith(o) or (o.startswith('-') and o in d) for o in only)))
with cf.ThreadPoolExecutor(max_workers=16) as ex:
    res = list(ex.map(one, dirs))
out = {}
for d, prop, meta, det in res:
    if 'apply' in det:
        print(f'{d:12} {prop}  PATCH DOES NOT APPLY to the current tree (rebase it with tools/rebase_patch.py): {str(det["apply"])[:120]}')
        out[d] = {'property': prop, 'apply_error': str(det['apply'])[:200], 'false_alarms': [], 'analysis_errors': ['apply'], 'detected_by': [], 'own_check': False, 'obligations': []}
        continue
    fa = sorted(k for k, v in det.items() if isinstance(v, dict) and v.get('rc') == 1)
    ae = sorted(k for k, v in det.items() if isinstance(v, dict) and v.get('rc') == 2)
    if kind == 'refactors':
        out[d] = {'property': prop, 'false_alarms': fa, 'analysis_errors': ae,
                  'reports': {k: v['reports'][:1] for k, v in det.items() if isinstance(v, dict) and 'reports' in v}}
        status = 'silent' if not det else f'FALSE-ALARM {fa} ANALYSIS-ERROR {ae}'
    else:
        own = prop in fa
        out[d] = {'property': prop, 'detected_by': fa, 'own_check': own, 'analysis_errors': ae,
                  'obligations': sorted({r.split()[0] for k in fa for r in det[k]['reports'] if r.startswith('C')})}
        status = ('detected' if own else ('detected-by-other ' + str(fa) if fa else 'MISSED')) + (f' AE {ae}' if ae else '')
    print(f'{d:12} {prop}  {status}')
    if kind == 'refactors' or not fa:
        for k, v in det.items():
            for r in (v.get('reports') or [])[:1] if isinstance(v, dict) else []:
                print('      ', k, r[:230])
n = len(out)
if kind == 'refactors':
    print(f'{sum(1 for v in out.values() if not v["false_alarms"] and not v["analysis_errors"])}/{n} silent, '
          f'{sum(1 for v in out.values() if v["false_alarms"])} with false alarms, '
          f'{sum(1 for v in out.values() if v["analysis_errors"] and not v["false_alarms"])} analysis-error only')
else:
    print(f'{sum(1 for v in out.values() if v["own_check"])}/{n} detected by the property\'s own check, '
          f'{sum(1 for v in out.values() if v["detected_by"])}/{n} by some check')
res_path = os.path.join(root, 'CORPUS.json' if kind == 'seeded' else 'RESULTS.json')
if not only:
    json.dump(out, open(res_path, 'w'), indent=1)
elif os.path.exists(res_path):
    # a filtered run updates the entries it covered
    allr = json.load(open(res_path))
    allr.update(out)
    json.dump(allr, open(res_path, 'w'), indent=1)
