#!/bin/sh
# tools/rf.sh <refactor-id> <PROP>...  : apply refactors/<id>/patch.diff to /repo, run the given checks, undo
id=$1; shift
git -C /repo apply /verif/refactors/$id/patch.diff || exit 3
for p in "$@"; do (cd /verif && VERIF_EVIDENCE_DIR=/tmp/rf-ev ./check $p 2>&1 | grep -E "^(VIOLATION|ANALYSIS)|^  C[0-9]+\.[A-Z]+\.[0-9a-z]+ \[|Traceback|Error" | cut -c1-400); done
git -C /repo checkout -- . ; git -C /repo clean -fdq src
