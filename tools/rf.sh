#!/bin/sh
# tools/rf.sh <refactor-id|seed-id> <PROP>...  : apply the kept patch to a scratch copy of /repo/src, run the given checks there
id=$1; shift
d=/verif/refactors/$id; [ -d $d ] || d=/verif/seeded/$id
t=$(mktemp -d /tmp/rfsh-XXXXXX)
cp -r ${SRC:-/tmp/pristine}/src $t/src; mkdir -p $t/docs/src; cp -r ${SRC:-/tmp/pristine}/docs/src/lvs $t/docs/src/lvs 2>/dev/null
(cd $t && git apply $d/patch.diff) || { rm -rf $t; exit 3; }
for p in "$@"; do (cd /verif && VERIF_EVIDENCE_DIR=$t/ev ./check $p --repo $t 2>&1 | grep -E "^(VIOLATION|ANALYSIS)|^  C[0-9]+\.[A-Z]+\.[0-9a-z]+ \[|Traceback" | cut -c1-400); done
if [ -n "$SHOW" ]; then (cd / && /verif/tools/showfn.py $SHOW $t); fi
rm -rf $t
