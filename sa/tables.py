"""Frozen tables of the analyser, one line of reason each (DESIGN §2.1, §2.4, §6)."""

# TLV field constructors recognised by the model extractor (ndn.encoding.tlv_model)
FIELD_KINDS = {'UintField', 'BoolField', 'BytesField', 'NameField', 'ModelField', 'RepeatedField', 'MapField',
               'SignatureValueField', 'InterestNameField', 'ProcedureArgument', 'OffsetMarker'}

# third-party / builtin callees and the exception classes they may raise
EXT_RAISES = {
    'struct.unpack': {'struct.error'}, 'struct.unpack_from': {'struct.error'},
    'struct.pack': {'struct.error'}, 'struct.pack_into': {'struct.error'},
    'bytes.decode': {'UnicodeDecodeError'},
    'builtin.int': {'ValueError'},          # int(text) / int(text, 16)
    'bytearray.fromhex': {'ValueError'}, 'bytes.fromhex': {'ValueError'},
    'Cryptodome.PublicKey.ECC.import_key': {'ValueError'}, 'Cryptodome.PublicKey.RSA.import_key': {'ValueError'},
    'os.remove': {'OSError'},
    'asyncio.wait_for': {'TimeoutError'},
    'asyncio.StreamReader.readexactly': {'asyncio.IncompleteReadError', 'ConnectionResetError'},
}

# attribute calls on receivers the resolver cannot type whose *name* marks a non-raising library method
# (containers, logging, hashing, asyncio handles). Never used to discharge an obligation about repository code.
SAFE_ATTR_CALLS = {'append', 'get', 'items', 'keys', 'values', 'split', 'update', 'digest', 'format', 'join', 'hex',
                   'encode', 'extend', 'copy', 'write', 'getvalue', 'startswith', 'endswith', 'sort', 'add',
                   'warning', 'debug', 'error', 'info', 'isEnabledFor', 'setdefault', 'longest_prefix', 'prefixes',
                   'itervalues', 'clear', 'cancel', 'done', 'cancelled', 'set', 'send', 'close', 'sendto', 'wait',
                   'create_future', 'sleep', 'count', 'issubset', 'toreadonly', 'upper', 'lower', 'strip',
                   'exception', 'getLogger', 'is_set', 'total_seconds', 'hexdigest', 'shutdown', 'tobytes', 'release',
                   'cast', 'find', 'rfind', 'replace', 'isdigit', 'pop_default', 'discard', 'insert', 'reverse',
                   'create_task', 'get_running_loop', 'result_or_none', 'timestamp', 'new', 'verify_noexcept'}

# attributes holding user-supplied callables: assumed not to raise (stated assumption in the evidence)
USER_CALLBACKS = {'callback', 'validator', 'on_missing_data', 'test_func', 'int_validator', 'data_validator'}

# receiver types the resolver cannot infer: (class qualname, attribute) -> (module, class); reason on the right
RECEIVER_TABLE = {
    ('ndn.transport.prefix_registerer.PrefixRegisterer', 'app'): ('ndn.appv2', 'NDNApp'),  # set by NDNApp.__init__ via set_app(app=self)
}

# value class of each name trie: taken from the `setdefault(k, C())` sites
TRIE_VALUES = {
    ('ndn.appv2', '_pit'): ('ndn.appv2', 'InterestTreeNode'), ('ndn.appv2', '_fib'): ('ndn.appv2', 'PrefixTreeNode'),
    ('ndn.app', '_int_tree'): ('ndn.name_tree', 'InterestTreeNode'),
    ('ndn.app', '_prefix_tree'): ('ndn.name_tree', 'PrefixTreeNode'),
    ('ndn.app_support.dispatcher', '_tree'): ('ndn.name_tree', 'PrefixTreeNode'),
}

# polymorphic Name helpers summarised per kind of argument (DESIGN §2.4 "name kinds")
NAME_POLY = {'ndn.encoding.name.Name.normalize', 'ndn.encoding.name.Name.to_str', 'ndn.encoding.name.Name.to_bytes',
             'ndn.encoding.name.Name.to_canonical_uri', 'ndn.encoding.name.Name.is_prefix'}
NAME_LIBENCODED_PRODUCERS = {'ndn.encoding.name.Name.to_bytes', 'ndn.encoding.name.Name.encode'}
NAME_FORMAL_PRODUCERS = {'ndn.encoding.name.Name.normalize', 'ndn.encoding.name.Name.from_str',
                         'ndn.encoding.name.Name.from_bytes'}

# functions that subscript / measure their first argument: passing a nullable value raises TypeError
MEASURING = {'parse_tl_num', 'len', 'memoryview', 'bytes', 'getattr', 'parse_and_check_tl', 'sha256'}

# exception classes tracked but never reported (cooperative cancellation / interpreter exit)
NEVER_REPORTED = {'asyncio.CancelledError', 'KeyboardInterrupt', 'SystemExit', 'GeneratorExit'}
