"""Per-function analysis context: CFG + reaching definitions + provenance through closures."""
import ast

from .cfg import CFG, walk_shallow
from .loader import AnalysisError, FuncT

_cache = {}


def ctx_of(P, qual):
    fault = getattr(P, 'expansion_faults', {}).get(qual) or getattr(P, 'expansion_faults', {}).get(qual.split('.<')[0])
    if fault:
        from .loader import AnalysisError
        raise AnalysisError(fault)
    key = (id(P), qual)
    if key not in _cache:
        _cache[key] = FuncCtx(P, qual)
    return _cache[key]


class Src:
    """terminal of a provenance chain"""
    __slots__ = ('kind', 'expr', 'ctx', 'node', 'extra')

    def __init__(self, kind, expr, ctx, node, extra=None):
        self.kind = kind      # 'expr' | 'param' | 'iter' | 'unpack' | 'with' | 'aug' | 'exc' | 'def' | 'free'
        self.expr = expr
        self.ctx = ctx
        self.node = node
        self.extra = extra

    def text(self):
        if self.kind == 'expr':
            return ast.unparse(self.expr)
        if self.kind == 'param':
            return f'param:{self.expr}'
        if self.kind == 'free':
            return f'free:{self.expr}'
        if self.kind == 'unpack':
            return f'unpack[{self.extra}]:{ast.unparse(self.expr)}'
        if self.kind in ('iter', 'with'):
            return f'{self.kind}:{ast.unparse(self.expr)}'
        if self.kind == 'aug':
            return f'aug:{ast.unparse(self.expr)}'
        return self.kind

    def __repr__(self):
        return f'<Src {self.text()}>'


class FuncCtx:
    def __init__(self, P, qual):
        self.P = P
        self.f = P.func(qual)
        self.qual = qual
        self.cfg = CFG(self.f.node)
        self.parent = ctx_of(P, self.f.parent) if self.f.parent else None
        self._owner = {}
        for n in self.cfg.nodes:
            for x in n.walk():
                self._owner.setdefault(id(x), n)
            if n.ast is not None:
                self._owner.setdefault(id(n.ast), n)
        self.locals = set()
        for n in self.cfg.nodes:
            for name, _ in self.cfg.defs_of(n):
                self.locals.add(name)
        self.nonlocals = set()
        from .cfg import walk_function
        for x in walk_function(self.f.node):
            if isinstance(x, (ast.Nonlocal, ast.Global)):
                self.nonlocals.update(x.names)

    def node_of(self, a):
        n = self._owner.get(id(a))
        if n is None:
            raise AnalysisError(f'{self.qual}: ast node not owned by any CFG node: {ast.unparse(a)[:60]}')
        return n

    def def_node_in_parent(self):
        """CFG node of the parent that defines this nested function"""
        if not self.parent:
            return None
        for n in self.parent.cfg.nodes:
            if n.kind == 'def' and n.ast is self.f.node:
                return n
        # methods of nested classes: the class def node
        for n in self.parent.cfg.nodes:
            if n.kind == 'def' and isinstance(n.ast, ast.ClassDef) and any(b is self.f.node for b in n.ast.body):
                return n
        return None

    def defs(self, node, name):
        """definitions of `name` visible at CFG node `node`: list of (ctx, def_cfg_node, value)"""
        if name in self.locals and name not in self.nonlocals:
            return [(self, d, v) for (d, v) in self.cfg.defs_reaching(node, name) if not self._none_def_excluded(d, v, node, name)]
        if self.parent:
            dn = self.def_node_in_parent()
            if dn is not None:
                # a closure reads the variable at call time: any definition in the parent may be seen,
                # keep it precise for the common case (defined once before the def)
                got = self.parent.defs(dn, name)
                later = []
                for n in self.parent.cfg.nodes:
                    for nm, v in self.parent.cfg.defs_of(n):
                        if nm == name and all(n is not d for (_, d, _) in got) and name in self.parent.locals:
                            if self.parent.cfg.path_exists(dn, n):
                                later.append((self.parent, n, v))
                return got + later
        return []

    def _none_def_excluded(self, d, v, use, name):
        """a binding `name = None` cannot be what `use` sees if every path from it to `use` leaves a test of `name` by the edge on
        which `name` is not None / truthy (`x = None ... if x is None: return ... use(x)`)"""
        if not (isinstance(v, ast.Constant) and v.value is None):
            return False
        edges = set()
        for t in self.cfg.nodes:
            if t.kind != 'test':
                continue
            a = t.ast
            lab = None
            if isinstance(a, ast.Name) and a.id == name:
                lab = True
            elif isinstance(a, ast.Compare) and len(a.ops) == 1 and isinstance(a.left, ast.Name) and a.left.id == name \
                    and isinstance(a.comparators[0], ast.Constant) and a.comparators[0].value is None:
                lab = True if isinstance(a.ops[0], (ast.IsNot, ast.NotEq)) else (False if isinstance(a.ops[0], (ast.Is, ast.Eq)) else None)
            if lab is not None:
                edges.add((t.id, lab))
        if not edges:
            return False
        redefs = {n.id for n in self.cfg.nodes if n is not d and any(nm == name for (nm, _) in self.cfg.defs_of(n))}
        seen, todo = set(), [s for (s, l) in d.succ if l != 'exc']
        while todo:
            n = todo.pop()
            if n.id in seen or n.id in redefs:
                continue
            seen.add(n.id)
            if n is use:
                return False
            for (m, l) in n.succ:
                if l == 'exc' or (n.id, l) in edges:
                    continue
                todo.append(m)
        return use.id not in seen

    @staticmethod
    def _alternatives(v):
        """a conditional value is any of its alternatives: `a if t else b`, object-valued `a or b`"""
        alts = [v]
        k = 0
        while k < len(alts):
            a_ = alts[k]
            if isinstance(a_, ast.IfExp):
                alts[k:k + 1] = [a_.body, a_.orelse]
            elif isinstance(a_, ast.BoolOp) and isinstance(a_.op, ast.Or) and all(isinstance(x, (ast.Name, ast.Attribute, ast.Call, ast.Subscript)) for x in a_.values):
                alts[k:k + 1] = list(a_.values)
            else:
                k += 1
        return alts

    def sources(self, node, expr, depth=0, seen=None, live=None):
        """follow plain name copies back to terminals. live: optional set of CFG node ids of this function - bindings made at other
        nodes are ignored (provenance under a valuation: pass the nodes reachable under it)"""
        seen = seen if seen is not None else set()
        alts = self._alternatives(expr)
        if len(alts) > 1:
            out = []
            for a_ in alts:
                out += self.sources(node, a_, depth, seen, live)
            return out
        if isinstance(expr, ast.Name):
            ds = self.defs(node, expr.id)
            if not ds:
                return [Src('free', expr.id, self, node)]
            out = []
            for (cx, dn, v) in ds:
                key = (id(cx), dn.id, expr.id)
                if key in seen or depth > 10:
                    continue
                if live is not None and cx is self and isinstance(v, ast.AST) and dn.id not in live:
                    continue
                seen.add(key)
                if isinstance(v, ast.AST):
                    for a_ in self._alternatives(v):
                        if isinstance(a_, ast.Name):
                            out += cx.sources(dn, a_, depth + 1, seen, live if cx is self else None)
                        else:
                            out.append(Src('expr', a_, cx, dn))
                elif isinstance(v, tuple):
                    if v[0] == 'param':
                        out.append(Src('param', v[1], cx, dn))
                    elif v[0] == 'unpack':
                        # `a, b = t` with t a local bound (on every definition) to a tuple display of that arity: follow the element
                        done = False
                        if isinstance(v[1], ast.Name):
                            inner = cx.sources(dn, v[1], depth + 1, seen, live if cx is self else None)
                            tups = [s_ for s_ in inner if s_.kind == 'expr' and isinstance(s_.expr, (ast.Tuple, ast.List)) and len(s_.expr.elts) > v[2]
                                    and not any(isinstance(e_, ast.Starred) for e_ in s_.expr.elts)]
                            nones = [s_ for s_ in inner if s_.kind == 'expr' and isinstance(s_.expr, ast.Constant) and s_.expr.value is None]
                            if tups and len(tups) + len(nones) == len(inner):
                                for s_ in tups:
                                    el = s_.expr.elts[v[2]]
                                    for a_ in s_.ctx._alternatives(el):
                                        if isinstance(a_, ast.Name):
                                            out += s_.ctx.sources(s_.node, a_, depth + 1, seen, None)
                                        else:
                                            out.append(Src('expr', a_, s_.ctx, s_.node))
                                done = True
                        if not done:
                            out.append(Src('unpack', v[1], cx, dn, v[2]))
                    elif v[0] in ('iter', 'with'):
                        out.append(Src(v[0], v[1], cx, dn))
                    elif v[0] == 'aug':
                        out.append(Src('aug', v[1], cx, dn))
                    else:
                        out.append(Src(v[0], None, cx, dn))
                else:
                    out.append(Src('unknown', None, cx, dn))
            return out
        return [Src('expr', expr, self, node)]

    def find_calls(self, pred):
        """(cfg_node, call) for all calls in this function satisfying pred"""
        out = []
        for n in self.cfg.nodes:
            for c in n.calls():
                if pred(c):
                    out.append((n, c))
        return out

    def loc(self, node_or_ast):
        ln = getattr(node_or_ast, 'lineno', None)
        return f'{self.f.path}:{ln}'


def callee_attr(c):
    return c.func.attr if isinstance(c.func, ast.Attribute) else None


def callee_text(c):
    return ast.unparse(c.func)


def is_none(e):
    return isinstance(e, ast.Constant) and e.value is None


def nested_funcs(P, qual):
    pre = qual + '.<'
    return [q for q in P.funcs if q.startswith(pre)]
