"""Main-path abstract execution of the small Field.encoded_length / encode_into bodies in the linear-size domain
(SIZ.1b, DESIGN §2.6). Presence tests are resolved for a present value; isinstance-normalisations are skipped (SIZ.1a
compares them); variables assigned in other branches become opaque symbols. Unrecognised constructs raise NotLinear."""
import ast

from .linexpr import lin, show, NotLinear, _add

PRESENCE_FALSE = ('val is None', 'not val', 'signer is None', 'markers is None')
PRESENCE_TRUE = ('val', 'val is not None', 'signer is not None')


class Result:
    def __init__(self):
        self.ret = None
        self.markers = {}       # key text -> lin
        self.offset = None      # final advance of `offset` relative to its initial value (lin) or None
        self.store_end = None   # end of the last `wire[a:b] = ...` store relative to the initial offset
        self.env = {}


def _tl(e, env, markers):
    return {f'get_tl_num_size({show(expr(e, env, markers))})': 1}


def expr(e, env, markers):
    """lin of e with env substitution; write_tl_num(X, ..) and get_tl_num_size(X) both become TL(X)"""
    if isinstance(e, ast.Call):
        fn = ast.unparse(e.func).split('.')[-1]
        if fn in ('write_tl_num', 'get_tl_num_size') and e.args:
            return _tl(e.args[0], env, markers)
        if fn == 'len' and e.args:
            return {f'len({show(expr(e.args[0], env, markers))})': 1}
    if isinstance(e, ast.Subscript) and ast.unparse(e.value) == 'markers':
        k = ast.unparse(e.slice)
        if k in markers:
            return dict(markers[k])
        return {f'markers[{k}]': 1}
    if isinstance(e, ast.Name):
        if e.id in env:
            return dict(env[e.id])
        return {e.id: 1}
    if isinstance(e, ast.Constant) and isinstance(e.value, int) and not isinstance(e.value, bool):
        return {1: e.value} if e.value else {}
    if isinstance(e, ast.BinOp) and isinstance(e.op, (ast.Add, ast.Sub)):
        return _add(expr(e.left, env, markers), expr(e.right, env, markers), 1 if isinstance(e.op, ast.Add) else -1)
    if isinstance(e, ast.IfExp):
        t = ast.unparse(e.test)
        if t in PRESENCE_TRUE:
            return expr(e.body, env, markers)
        if t in PRESENCE_FALSE:
            return expr(e.orelse, env, markers)
    if isinstance(e, (ast.Attribute, ast.Call, ast.Subscript)):
        return {ast.unparse(e): 1}
    raise NotLinear(ast.unparse(e))


def run(fn, markers_in=None):
    res = Result()
    env = res.env
    markers = dict(markers_in or {})
    env['offset'] = {'offset0': 1}
    done = [False]

    def assigned_names(stmts):
        out = set()
        for s in stmts:
            for x in ast.walk(s):
                if isinstance(x, (ast.Assign, ast.AugAssign)):
                    for t in (x.targets if isinstance(x, ast.Assign) else [x.target]):
                        if isinstance(t, ast.Name):
                            out.add(t.id)
        return out

    def block(stmts):
        for s in stmts:
            if done[0]:
                return
            stmt(s)

    def stmt(s):
        if isinstance(s, ast.Expr):
            c = s.value
            # a nested model written in place: `<model>.encode(wire, <pos>, <markers>)` fills <model>.encoded_length(<markers>) bytes
            if isinstance(c, ast.Call) and isinstance(c.func, ast.Attribute) and c.func.attr == 'encode' and len(c.args) >= 3 \
                    and isinstance(c.args[0], ast.Name) and c.args[0].id == 'wire':
                try:
                    end = _add(expr(c.args[1], env, markers), {f'{ast.unparse(c.func.value)}.encoded_length({ast.unparse(c.args[2])})': 1})
                    res.store_end = _add(end, {'offset0': 1}, -1)
                except NotLinear:
                    pass
            return
        if isinstance(s, ast.Assign) and len(s.targets) == 1:
            t = s.targets[0]
            if isinstance(t, ast.Name):
                try:
                    env[t.id] = expr(s.value, env, markers)
                except NotLinear:
                    env[t.id] = {t.id: 1}
                return
            if isinstance(t, ast.Subscript) and ast.unparse(t.value) == 'markers':
                try:
                    markers[ast.unparse(t.slice)] = expr(s.value, env, markers)
                except NotLinear:
                    markers[ast.unparse(t.slice)] = {f'markers[{ast.unparse(t.slice)}]': 1}
                return
            if isinstance(t, ast.Subscript) and isinstance(t.value, ast.Name) and t.value.id == 'wire' and isinstance(t.slice, ast.Slice) \
                    and t.slice.upper is not None:
                try:
                    res.store_end = _add(expr(t.slice.upper, env, markers), {'offset0': 1}, -1)
                except NotLinear:
                    pass
            return      # stores into attributes: no size effect tracked here
        if isinstance(s, ast.AugAssign) and isinstance(s.target, ast.Name):
            cur = env.get(s.target.id, {s.target.id: 1})
            env[s.target.id] = _add(cur, expr(s.value, env, markers), 1 if isinstance(s.op, ast.Add) else -1)
            return
        if isinstance(s, ast.Return):
            res.ret = expr(s.value, env, markers) if s.value is not None else {}
            done[0] = True
            return
        if isinstance(s, ast.If):
            t = ast.unparse(s.test)
            if t in PRESENCE_FALSE:
                block(s.orelse)
                return
            if t in PRESENCE_TRUE:
                block(s.body)
                return
            if t.startswith('isinstance(') or t.startswith('not isinstance('):
                # normalisation / type guard: no size effect on the main path, but reassigned names stay as they are
                return
            for nm in assigned_names(s.body + s.orelse):
                env[nm] = {nm: 1}
            return
        if isinstance(s, ast.Raise):
            done[0] = True
            return
        if isinstance(s, (ast.For, ast.While, ast.With, ast.Try)):
            raise NotLinear('loop / compound statement: ' + ast.unparse(s).split('\n')[0])
        raise NotLinear(ast.unparse(s).split('\n')[0])

    block(fn.body)
    res.markers = markers
    off = env.get('offset', {})
    res.offset = _add(off, {'offset0': 1}, -1)
    # bytes written: the cursor advance, or the end of the last slice store when that lies beyond the cursor
    res.written = res.offset
    if res.store_end is not None:
        d = _add(res.store_end, res.offset, -1)
        if d and all(c > 0 for c in d.values()):
            res.written = res.store_end
    return res
