"""Canonical form of function bodies, applied once when a module is loaded, so that rules are indifferent to the common
behaviour-preserving ways of spelling the same code:

 1. comparison orientation: constants to the right, then calls to the right of plain expressions, ties broken by text
    (`0 < n` == `n > 0`, `len(w) > off` == `off < len(w)`);
 2. `x = x + e` / `x = x - e` on a plain name is the augmented assignment `x += e`;
 3. `if not c: A else: B` is `if c: B else: A`;
 4. no else after a terminator: `if c: ...return/raise/continue/break  else: R` is `if c: ...` followed by R;
 5. a local bound once and read once, in the statement right after its binding, is inlined (`r = E; return r` == `return E`).

Every rewrite keeps the original source positions of the pieces it moves, so reports still point into the file. The
transformation is semantics-preserving for the analyses built on it (paths, definitions, calls); it is never written back."""
import ast

SWAP = {ast.Lt: ast.Gt, ast.LtE: ast.GtE, ast.Gt: ast.Lt, ast.GtE: ast.LtE, ast.Eq: ast.Eq, ast.NotEq: ast.NotEq}
TERM = (ast.Return, ast.Raise, ast.Continue, ast.Break)


def _rank(e):
    if isinstance(e, ast.Constant):
        return 3
    if isinstance(e, ast.UnaryOp) and isinstance(e.operand, ast.Constant):
        return 3
    if isinstance(e, (ast.Name, ast.Attribute)):
        last = e.id if isinstance(e, ast.Name) else e.attr
        if last.isupper() and len(last) > 1:
            return 3        # named constant (TYPE_GENERIC, ValidResult.PASS)
    if isinstance(e, ast.Call):
        return 2
    return 1


class _Expr(ast.NodeTransformer):
    def visit_Compare(self, n):
        self.generic_visit(n)
        if len(n.ops) == 1 and type(n.ops[0]) in SWAP:
            l, r = n.left, n.comparators[0]
            kl, kr = _rank(l), _rank(r)
            swap = kl > kr or (kl == kr and ast.unparse(l) > ast.unparse(r) and isinstance(n.ops[0], (ast.Eq, ast.NotEq)))
            if swap:
                m = ast.Compare(left=r, ops=[SWAP[type(n.ops[0])]()], comparators=[l])
                return ast.copy_location(m, n)
        return n


def _count_names(node, name):
    loads = stores = 0
    for x in ast.walk(node):
        if isinstance(x, ast.Name) and x.id == name:
            if isinstance(x.ctx, ast.Load):
                loads += 1
            else:
                stores += 1
    return loads, stores


class _Subst(ast.NodeTransformer):
    def __init__(self, name, value):
        self.name, self.value, self.done = name, value, 0

    def visit_Name(self, n):
        if n.id == self.name and isinstance(n.ctx, ast.Load):
            self.done += 1
            return self.value
        return n

    def visit_FunctionDef(self, n):
        return n

    visit_AsyncFunctionDef = visit_Lambda = visit_ClassDef = visit_FunctionDef


def _block(stmts, fn_counts):
    out = []
    i = 0
    stmts = list(stmts)
    while i < len(stmts):
        s = stmts[i]
        # 2. x = x +/- e
        if isinstance(s, ast.Assign) and len(s.targets) == 1 and isinstance(s.targets[0], ast.Name) and isinstance(s.value, ast.BinOp) \
                and isinstance(s.value.op, (ast.Add, ast.Sub)) and isinstance(s.value.left, ast.Name) and s.value.left.id == s.targets[0].id:
            s = ast.copy_location(ast.AugAssign(target=s.targets[0], op=s.value.op, value=s.value.right), s)
        # recurse into compound statements
        for fld in ('body', 'orelse', 'finalbody'):
            b = getattr(s, fld, None)
            if isinstance(b, list) and b and isinstance(b[0], ast.stmt) and not isinstance(s, (ast.FunctionDef, ast.AsyncFunctionDef, ast.ClassDef)):
                setattr(s, fld, _block(b, fn_counts))
        if isinstance(s, ast.Try):
            for h in s.handlers:
                h.body = _block(h.body, fn_counts)
        if isinstance(s, ast.Match) if hasattr(ast, 'Match') else False:
            for c in s.cases:
                c.body = _block(c.body, fn_counts)
        if isinstance(s, ast.If):
            # 3. if not c: A else: B
            if s.orelse and isinstance(s.test, ast.UnaryOp) and isinstance(s.test.op, ast.Not):
                s.test, s.body, s.orelse = s.test.operand, s.orelse, s.body
            # 4. no else after a terminator
            if s.orelse and s.body and isinstance(s.body[-1], TERM):
                rest = s.orelse
                s.orelse = []
                out.append(s)
                stmts[i + 1:i + 1] = rest
                i += 1
                continue
        # 5. single-use temporary read by the next statement
        if isinstance(s, ast.Assign) and len(s.targets) == 1 and isinstance(s.targets[0], ast.Name) and i + 1 < len(stmts):
            name = s.targets[0].id
            nxt = stmts[i + 1]
            tot = fn_counts.get(name, (0, 0))
            if tot == (1, 1) and not isinstance(nxt, (ast.FunctionDef, ast.AsyncFunctionDef, ast.ClassDef, ast.For, ast.AsyncFor, ast.While, ast.Try, ast.With, ast.AsyncWith)):
                head = nxt.test if isinstance(nxt, ast.If) else nxt
                l, st = _count_names(head, name)
                if l == 1 and st == 0 and not isinstance(s.value, (ast.Await, ast.Yield, ast.YieldFrom)) and not any(
                        isinstance(x, (ast.Await, ast.Yield, ast.YieldFrom)) for x in ast.walk(s.value)):
                    sub = _Subst(name, s.value)
                    if isinstance(nxt, ast.If):
                        nxt.test = sub.visit(nxt.test)
                    else:
                        stmts[i + 1] = sub.visit(nxt)
                    if sub.done == 1:
                        i += 1
                        continue
        out.append(s)
        i += 1
    return out


def canonicalise(tree):
    """in-place canonicalisation of a module tree; returns the tree"""
    _Expr().visit(tree)
    for fn in [n for n in ast.walk(tree) if isinstance(n, (ast.FunctionDef, ast.AsyncFunctionDef))]:
        counts = {}
        for x in ast.walk(fn):
            if isinstance(x, ast.Name):
                l, s = counts.get(x.id, (0, 0))
                counts[x.id] = (l + 1, s) if isinstance(x.ctx, ast.Load) else (l, s + 1)
            elif isinstance(x, (ast.Global, ast.Nonlocal)):
                for nm in x.names:
                    counts[nm] = (99, 99)
            elif isinstance(x, ast.arg):
                counts[x.arg] = (99, 99)
        fn.body = _block(fn.body, counts)
    ast.fix_missing_locations(tree)
    return tree
