"""Canonical form of function bodies, applied once when a module is loaded, so that rules are indifferent to the common
behaviour-preserving ways of spelling the same code:

 1. comparison orientation: constants to the right, then calls to the right of plain expressions, ties broken by text
    (`0 < n` == `n > 0`, `len(w) > off` == `off < len(w)`);
 2. `x = x + e` / `x = x - e` on a plain name is the augmented assignment `x += e`;
 3. `if not c: A else: B` is `if c: B else: A`;
 4. no else after a terminator: `if c: ...return/raise/continue/break  else: R` is `if c: ...` followed by R;
 5. a local bound once and read once, in the statement right after its binding, is inlined (`r = E; return r` == `return E`).

Every rewrite keeps the original source positions of the pieces it moves, so reports still point into the file. The
transformation is semantics-preserving for the analyses built on it (paths, definitions, calls); it is never written back."""
import ast

SWAP = {ast.Lt: ast.Gt, ast.LtE: ast.GtE, ast.Gt: ast.Lt, ast.GtE: ast.LtE, ast.Eq: ast.Eq, ast.NotEq: ast.NotEq}
TERM = (ast.Return, ast.Raise, ast.Continue, ast.Break)


def _rank(e):
    if isinstance(e, ast.Constant):
        return 3
    if isinstance(e, ast.UnaryOp) and isinstance(e.operand, ast.Constant):
        return 3
    if isinstance(e, (ast.Name, ast.Attribute)):
        last = e.id if isinstance(e, ast.Name) else e.attr
        if last.isupper() and len(last) > 1:
            return 3        # named constant (TYPE_GENERIC, ValidResult.PASS)
    if isinstance(e, ast.Call):
        return 2
    return 1


class _Expr(ast.NodeTransformer):
    def visit_UnaryOp(self, n):
        self.generic_visit(n)
        if isinstance(n.op, ast.Not):
            o = n.operand
            if isinstance(o, ast.UnaryOp) and isinstance(o.op, ast.Not) and False:
                return o.operand
            if isinstance(o, ast.Compare) and len(o.ops) == 1 and type(o.ops[0]) in NEGOP:
                return ast.copy_location(ast.Compare(left=o.left, ops=[NEGOP[type(o.ops[0])]()], comparators=o.comparators), n)
        return n

    def visit_Call(self, n):
        self.generic_visit(n)
        # 16. getattr(X, '<identifier>') is X.<identifier>
        if isinstance(n.func, ast.Name) and n.func.id == 'getattr' and len(n.args) == 2 and not n.keywords and isinstance(n.args[1], ast.Constant) \
                and isinstance(n.args[1].value, str) and n.args[1].value.isidentifier():
            return ast.copy_location(ast.Attribute(value=n.args[0], attr=n.args[1].value, ctx=ast.Load()), n)
        # 17. vars(X) is X.__dict__
        if isinstance(n.func, ast.Name) and n.func.id == 'vars' and len(n.args) == 1 and not n.keywords:
            return ast.copy_location(ast.Attribute(value=n.args[0], attr='__dict__', ctx=ast.Load()), n)
        return n

    def visit_Compare(self, n):
        self.generic_visit(n)
        if len(n.ops) == 1 and type(n.ops[0]) in SWAP:
            l, r = n.left, n.comparators[0]
            kl, kr = _rank(l), _rank(r)
            # higher rank (constants, then calls) to the right; among equals: `==`/`!=` ordered by text, `>`/`>=` written as `<`/`<=`
            swap = kl > kr or (kl == kr and ((ast.unparse(l) > ast.unparse(r) and isinstance(n.ops[0], (ast.Eq, ast.NotEq)))
                                             or isinstance(n.ops[0], (ast.Gt, ast.GtE))))
            if swap:
                m = ast.Compare(left=r, ops=[SWAP[type(n.ops[0])]()], comparators=[l])
                return ast.copy_location(m, n)
        return n


def _term(b):
    return bool(b) and isinstance(b[-1], TERM)


def _size(b):
    return sum(1 for st in b for _ in ast.walk(st))


NEGOP = {ast.Eq: ast.NotEq, ast.NotEq: ast.Eq, ast.Is: ast.IsNot, ast.IsNot: ast.Is, ast.In: ast.NotIn, ast.NotIn: ast.In}


def _negative(t):
    return (isinstance(t, ast.UnaryOp) and isinstance(t.op, ast.Not)) or \
        (isinstance(t, ast.Compare) and len(t.ops) == 1 and isinstance(t.ops[0], (ast.NotEq, ast.IsNot, ast.NotIn)))


def _neg(t):
    """negation of a condition (used only where truthiness alone matters: `if` / `while` tests), in negation normal form"""
    if isinstance(t, ast.UnaryOp) and isinstance(t.op, ast.Not):
        return _nnf(t.operand)
    if isinstance(t, ast.BoolOp):
        dual = ast.Or() if isinstance(t.op, ast.And) else ast.And()
        return ast.copy_location(ast.BoolOp(op=dual, values=[_neg(v) for v in t.values]), t)
    if isinstance(t, ast.Compare) and len(t.ops) == 1 and type(t.ops[0]) in NEGOP:
        return ast.copy_location(ast.Compare(left=t.left, ops=[NEGOP[type(t.ops[0])]()], comparators=t.comparators), t)
    return ast.copy_location(ast.UnaryOp(op=ast.Not(), operand=t), t)


def _nnf(t):
    """a test with `not` pushed through and / or (De Morgan): `not (a and b)` is `not a or not b`"""
    if isinstance(t, ast.UnaryOp) and isinstance(t.op, ast.Not) and isinstance(t.operand, (ast.BoolOp, ast.UnaryOp)) and \
            (isinstance(t.operand, ast.BoolOp) or isinstance(t.operand.op, ast.Not)):
        return _neg(t.operand)
    if isinstance(t, ast.BoolOp):
        return ast.copy_location(ast.BoolOp(op=t.op, values=[_nnf(v) for v in t.values]), t)
    return t


def _count_names(node, name):
    loads = stores = 0
    for x in ast.walk(node):
        if isinstance(x, ast.Name) and x.id == name:
            if isinstance(x.ctx, ast.Load):
                loads += 1
            else:
                stores += 1
    return loads, stores


class _Subst(ast.NodeTransformer):
    def __init__(self, name, value):
        self.name, self.value, self.done = name, value, 0

    def visit_Name(self, n):
        if n.id == self.name and isinstance(n.ctx, ast.Load):
            self.done += 1
            return self.value
        return n

    def visit_FunctionDef(self, n):
        return n

    visit_AsyncFunctionDef = visit_Lambda = visit_ClassDef = visit_FunctionDef


def _quantifier(e):
    """('any'|'all', generator) for `any(E for T in I if C)` / `all(..)` with one plain generator, else None"""
    if isinstance(e, ast.Call) and isinstance(e.func, ast.Name) and e.func.id in ('any', 'all') and len(e.args) == 1 and not e.keywords \
            and isinstance(e.args[0], (ast.GeneratorExp, ast.ListComp)) and len(e.args[0].generators) == 1 and not e.args[0].generators[0].is_async \
            and not any(isinstance(x, (ast.Lambda, ast.Await, ast.NamedExpr)) for x in ast.walk(e.args[0])):
        ge = e.args[0]
        # a nested comprehension is fine only inside a nested any()/all() that is the element itself (`all(any(..) for ..)`)
        elt = ge.elt.operand if isinstance(ge.elt, ast.UnaryOp) and isinstance(ge.elt.op, ast.Not) else ge.elt
        allowed = set()
        if _is_quant_call(elt):
            if _quantifier(elt) is None:
                return None
            allowed = {id(y) for y in ast.walk(elt)}
        for x in ast.walk(ge):
            if x is not ge and id(x) not in allowed and isinstance(x, (ast.ListComp, ast.SetComp, ast.DictComp, ast.GeneratorExp)):
                return None
        return e.func.id, ge
    return None


def _is_quant_call(e):
    return isinstance(e, ast.Call) and isinstance(e.func, ast.Name) and e.func.id in ('any', 'all') and len(e.args) == 1 and not e.keywords \
        and isinstance(e.args[0], (ast.GeneratorExp, ast.ListComp))


def _block(stmts, fn_counts):
    out = []
    i = 0
    stmts = list(stmts)
    while i < len(stmts):
        s = stmts[i]
        # 19. `a, b = (x, y)` with independent sides is `a = x` followed by `b = y`
        if isinstance(s, ast.Assign) and len(s.targets) == 1 and isinstance(s.targets[0], ast.Tuple) and isinstance(s.value, ast.Tuple) \
                and len(s.targets[0].elts) == len(s.value.elts) >= 2 and all(isinstance(t_, ast.Name) for t_ in s.targets[0].elts) \
                and not any(isinstance(x, (ast.Starred, ast.Await, ast.NamedExpr, ast.Yield, ast.YieldFrom)) for x in ast.walk(s.value)):
            tn = {t_.id for t_ in s.targets[0].elts}
            if not any(isinstance(x, ast.Name) and x.id in tn for x in ast.walk(s.value)) and len(tn) == len(s.targets[0].elts):
                seq = [ast.copy_location(ast.Assign(targets=[t_], value=v_), s) for t_, v_ in zip(s.targets[0].elts, s.value.elts)]
                for x in seq:
                    ast.fix_missing_locations(x)
                stmts[i:i + 1] = seq
                continue
        # 15. a loop over a short display of literals whose body neither breaks nor continues is the body once per literal (only for loops that
        #     came with an expanded helper, or that read attributes by name: reference code keeps its loops, rules name them)
        if isinstance(s, ast.For) and isinstance(s.iter, (ast.Tuple, ast.List)) and 1 <= len(s.iter.elts) <= 4 and isinstance(s.target, ast.Name) \
                and (__import__('re').search(r'__h\d+$', s.target.id) or any(isinstance(x, ast.Call) and isinstance(x.func, ast.Name) and x.func.id == 'getattr' for b_ in s.body for x in ast.walk(b_))) \
                and all(isinstance(e_, ast.Constant) and isinstance(e_.value, (str, int, bytes)) for e_ in s.iter.elts) and not s.orelse \
                and not any(isinstance(x, (ast.Break, ast.Continue, ast.For, ast.While, ast.AsyncFor, ast.FunctionDef, ast.AsyncFunctionDef, ast.Lambda))
                            for b_ in s.body for x in ast.walk(b_)) \
                and not any(isinstance(x, ast.Name) and x.id == s.target.id and isinstance(x.ctx, (ast.Store, ast.Del)) for b_ in s.body for x in ast.walk(b_)):
            import copy as _copy
            unrolled = []
            for e_ in s.iter.elts:
                for b_ in s.body:
                    nb = _Subst(s.target.id, e_).visit(_copy.deepcopy(b_))
                    nb = _Expr().visit(nb)
                    unrolled.append(nb)
            for x in unrolled:
                ast.fix_missing_locations(x)
            stmts[i:i + 1] = unrolled
            continue
        # 15c. a search over a short table of constant rows - `for w, f in ROWS: if C: BODY; break` - is the chain `if C[row 1]: BODY elif C[row 2]: ..`
        if isinstance(s, ast.For) and isinstance(s.iter, (ast.Tuple, ast.List)) and 1 <= len(s.iter.elts) <= 6 and isinstance(s.target, (ast.Tuple, ast.Name)) \
                and not s.orelse and len(s.body) == 1 and isinstance(s.body[0], ast.If) and not s.body[0].orelse and s.body[0].body \
                and isinstance(s.body[0].body[-1], ast.Break) \
                and not any(isinstance(x, (ast.Break, ast.Continue, ast.For, ast.While, ast.AsyncFor, ast.FunctionDef, ast.AsyncFunctionDef, ast.Lambda))
                            for b_ in s.body[0].body[:-1] for x in ast.walk(b_)):
            tnames = [t_.id for t_ in s.target.elts] if isinstance(s.target, ast.Tuple) and all(isinstance(t_, ast.Name) for t_ in s.target.elts) else \
                ([s.target.id] if isinstance(s.target, ast.Name) else None)

            def _const(c_):
                return isinstance(c_, ast.Constant) or (isinstance(c_, ast.UnaryOp) and isinstance(c_.operand, ast.Constant))
            rows = None
            if tnames is not None:
                if isinstance(s.target, ast.Name) and all(_const(r_) for r_ in s.iter.elts):
                    rows = [[r_] for r_ in s.iter.elts]
                elif isinstance(s.target, ast.Tuple) and all(isinstance(r_, (ast.Tuple, ast.List)) and len(r_.elts) == len(tnames) and all(_const(c_) for c_ in r_.elts)
                                                             for r_ in s.iter.elts):
                    rows = [list(r_.elts) for r_ in s.iter.elts]
            stores = tnames is not None and any(isinstance(x, ast.Name) and x.id in tnames and isinstance(x.ctx, (ast.Store, ast.Del))
                                                for b_ in s.body for x in ast.walk(b_))
            later = tnames is not None and any(isinstance(x, ast.Name) and x.id in tnames for st_ in stmts[i + 1:] for x in ast.walk(st_))
            if rows is not None and not stores and not later:
                import copy as _copy
                chain = []
                for r_ in reversed(rows):
                    arm = _copy.deepcopy(s.body[0])
                    arm.body = arm.body[:-1] or [ast.copy_location(ast.Pass(), s)]
                    for t_, c_ in zip(tnames, r_):
                        arm = _Subst(t_, c_).visit(arm)
                    arm = _Expr().visit(arm)
                    arm.orelse = chain
                    chain = [arm]
                for x in chain:
                    ast.fix_missing_locations(x)
                stmts[i:i + 1] = chain
                continue
        # 15b. a loop over a short table of constant rows (`for width, fmt in ((1, 'B'), (2, 'H'), ..)`) whose body neither breaks nor continues is
        #      the body once per row (a table-driven dispatch read back as the decision chain it stands for)
        if isinstance(s, ast.For) and isinstance(s.iter, (ast.Tuple, ast.List)) and 1 <= len(s.iter.elts) <= 6 and isinstance(s.target, ast.Tuple) \
                and all(isinstance(t_, ast.Name) for t_ in s.target.elts) and not s.orelse \
                and all(isinstance(r_, (ast.Tuple, ast.List)) and len(r_.elts) == len(s.target.elts) and
                        all(isinstance(c_, ast.Constant) or (isinstance(c_, ast.UnaryOp) and isinstance(c_.operand, ast.Constant)) for c_ in r_.elts) for r_ in s.iter.elts) \
                and not any(isinstance(x, (ast.Break, ast.Continue, ast.For, ast.While, ast.AsyncFor, ast.FunctionDef, ast.AsyncFunctionDef, ast.Lambda))
                            for b_ in s.body for x in ast.walk(b_)) \
                and not any(isinstance(x, ast.Name) and x.id in {t_.id for t_ in s.target.elts} and isinstance(x.ctx, (ast.Store, ast.Del))
                            for b_ in s.body for x in ast.walk(b_)):
            import copy as _copy
            unrolled = []
            for r_ in s.iter.elts:
                for b_ in s.body:
                    nb = _copy.deepcopy(b_)
                    for t_, c_ in zip(s.target.elts, r_.elts):
                        nb = _Subst(t_.id, c_).visit(nb)
                    unrolled.append(_Expr().visit(nb))
            for x in unrolled:
                ast.fix_missing_locations(x)
            stmts[i:i + 1] = unrolled
            continue
        # 2. x = x +/- e
        if isinstance(s, ast.Assign) and len(s.targets) == 1 and isinstance(s.targets[0], (ast.Name, ast.Attribute)) and isinstance(s.value, ast.BinOp) \
                and isinstance(s.value.op, (ast.Add, ast.Sub)) and isinstance(s.value.left, (ast.Name, ast.Attribute)) \
                and ast.unparse(s.value.left) == ast.unparse(s.targets[0]) and all(isinstance(x, (ast.Name, ast.Attribute, ast.Load, ast.Store))
                                                                                   for x in ast.walk(s.targets[0])):
            s = ast.copy_location(ast.AugAssign(target=s.targets[0], op=s.value.op, value=s.value.right), s)
        # 6. `x = [E for T in I if C]` on a plain local is the explicit loop
        if isinstance(s, ast.Assign) and len(s.targets) == 1 and isinstance(s.targets[0], ast.Name) and isinstance(s.value, ast.ListComp) \
                and len(s.value.generators) == 1 and not s.value.generators[0].is_async \
                and not any(isinstance(x, (ast.ListComp, ast.SetComp, ast.DictComp, ast.GeneratorExp, ast.Lambda, ast.Await, ast.NamedExpr))
                            for x in ast.walk(s.value) if x is not s.value) \
                and not any(isinstance(x, ast.Name) and x.id == s.targets[0].id for x in ast.walk(s.value)):
            g = s.value.generators[0]
            x = s.targets[0].id
            inner = ast.copy_location(ast.Expr(value=ast.copy_location(ast.Call(
                func=ast.Attribute(value=ast.Name(id=x, ctx=ast.Load()), attr='append', ctx=ast.Load()), args=[s.value.elt], keywords=[]), s.value)), s.value)
            for c in reversed(g.ifs):
                inner = ast.copy_location(ast.If(test=c, body=[inner], orelse=[]), c)
            loop = ast.copy_location(ast.For(target=g.target, iter=g.iter, body=[inner], orelse=[], type_comment=None), s.value)
            ast.fix_missing_locations(loop)
            init = ast.copy_location(ast.Assign(targets=[s.targets[0]], value=ast.copy_location(ast.List(elts=[], ctx=ast.Load()), s.value)), s)
            stmts[i:i + 1] = [init, loop]
            s = init
        # 6b. `x = sum(E for T in I if C)` is `x = 0; for T in I: if C: x += E`
        if isinstance(s, ast.Assign) and len(s.targets) == 1 and isinstance(s.targets[0], ast.Name) and isinstance(s.value, ast.Call) \
                and isinstance(s.value.func, ast.Name) and s.value.func.id == 'sum' and len(s.value.args) == 1 and not s.value.keywords \
                and isinstance(s.value.args[0], (ast.GeneratorExp, ast.ListComp)) and len(s.value.args[0].generators) == 1 \
                and not s.value.args[0].generators[0].is_async \
                and not any(isinstance(x, ast.Name) and x.id == s.targets[0].id for x in ast.walk(s.value)):
            ge = s.value.args[0]
            g = ge.generators[0]
            x = s.targets[0].id
            inner = ast.copy_location(ast.AugAssign(target=ast.Name(id=x, ctx=ast.Store()), op=ast.Add(), value=ge.elt), ge)
            for c in reversed(g.ifs):
                inner = ast.copy_location(ast.If(test=c, body=[inner], orelse=[]), c)
            loop = ast.copy_location(ast.For(target=g.target, iter=g.iter, body=[inner], orelse=[], type_comment=None), ge)
            ast.fix_missing_locations(loop)
            init = ast.copy_location(ast.Assign(targets=[s.targets[0]], value=ast.copy_location(ast.Constant(0), ge)), s)
            stmts[i:i + 1] = [init, loop]
            s = init
        # 6c. `if [not] any(E for T in I if C)` / `x = any(..)` / `return any(..)` (and all(..)) is the flag-and-break loop
        #     `f = False; for T in I: if C: if E: f = True; break` followed by the statement reading f
        q = None
        if isinstance(s, ast.If):
            core = s.test.operand if isinstance(s.test, ast.UnaryOp) and isinstance(s.test.op, ast.Not) else s.test
            q = _quantifier(core)
        elif isinstance(s, (ast.Assign, ast.Return)) and s.value is not None and (isinstance(s, ast.Return) or (len(s.targets) == 1 and isinstance(s.targets[0], ast.Name))):
            core = s.value
            q = _quantifier(core)
            if q and isinstance(s, ast.Assign) and any(isinstance(x, ast.Name) and x.id == s.targets[0].id for x in ast.walk(core)):
                q = None
        if q:
            kind, ge = q
            g = ge.generators[0]
            if isinstance(s, ast.Return) and core is s.value:
                # `return any(E for ..)` is `for ..: if E: return True` followed by `return False` (all: `if not E: return False` .. `return True`)
                hit_r = ast.Return(value=ast.Constant(kind == 'any'))
                inner_r = ast.If(test=ge.elt if kind == 'any' else ast.UnaryOp(op=ast.Not(), operand=ge.elt), body=[hit_r], orelse=[])
                for c in reversed(g.ifs):
                    inner_r = ast.If(test=c, body=[inner_r], orelse=[])
                loop_r = ast.For(target=g.target, iter=g.iter, body=[inner_r], orelse=[], type_comment=None)
                last_r = ast.Return(value=ast.Constant(kind != 'any'))
                for top in (loop_r, last_r):
                    for x in ast.walk(top):
                        if not hasattr(x, 'lineno'):
                            ast.copy_location(x, core)
                    ast.fix_missing_locations(top)
                stmts[i:i + 1] = [loop_r, last_r]
                continue
            # `x = any(..)`: x itself is the flag
            direct = isinstance(s, ast.Assign)
            nm = s.targets[0].id if direct else f'{kind}__{core.lineno}'
            hit = [ast.Assign(targets=[ast.Name(id=nm, ctx=ast.Store())], value=ast.Constant(kind == 'any')), ast.Break()]
            inner = ast.If(test=ge.elt if kind == 'any' else ast.UnaryOp(op=ast.Not(), operand=ge.elt), body=hit, orelse=[])
            for c in reversed(g.ifs):
                inner = ast.If(test=c, body=[inner], orelse=[])
            loop = ast.For(target=g.target, iter=g.iter, body=[inner], orelse=[], type_comment=None)
            init = ast.Assign(targets=[ast.Name(id=nm, ctx=ast.Store())], value=ast.Constant(kind != 'any'))
            for top in (loop, init):
                for x in ast.walk(top):
                    if not hasattr(x, 'lineno'):
                        ast.copy_location(x, core)
                ast.fix_missing_locations(top)
            ref = ast.copy_location(ast.Name(id=nm, ctx=ast.Load()), core)
            if isinstance(s, ast.If):
                if core is s.test:
                    s.test = ref
                else:
                    s.test.operand = ref
            else:
                s.value = ref
            stmts[i:i + 1] = [init, loop] if direct else [init, loop, s]
            s = init
        # 12. a search over a short constant display, `for X in (c1, .., cn): if T(X): S..; break` [else: E], is the decision chain
        #     `if T(c1): X = c1; S.. elif T(c2): X = c2; S.. .. else: X = cn; E` (X keeps the last value when nothing matched)
        if isinstance(s, ast.For) and isinstance(s.target, ast.Name) and isinstance(s.iter, (ast.Tuple, ast.List)) and 1 <= len(s.iter.elts) <= 8 \
                and all(isinstance(c, ast.Constant) for c in s.iter.elts) and len(s.body) == 1 and isinstance(s.body[0], ast.If) and not s.body[0].orelse \
                and s.body[0].body and isinstance(s.body[0].body[-1], ast.Break) \
                and not any(isinstance(y, (ast.Break, ast.Continue, ast.FunctionDef, ast.AsyncFunctionDef, ast.Lambda, ast.ClassDef, ast.Await, ast.Yield, ast.YieldFrom, ast.NamedExpr))
                            for b in [s.body[0].test] + s.body[0].body[:-1] for y in ast.walk(b)) \
                and not any(isinstance(y, ast.Name) and y.id == s.target.id and isinstance(y.ctx, (ast.Store, ast.Del)) for b in s.body for y in ast.walk(b)):
            import copy
            X = s.target.id
            iff = s.body[0]
            consts = s.iter.elts
            tail = list(s.orelse)
            if not (tail and isinstance(tail[0], ast.Assign) and len(tail[0].targets) == 1 and isinstance(tail[0].targets[0], ast.Name) and tail[0].targets[0].id == X):
                tail = [ast.Assign(targets=[ast.Name(id=X, ctx=ast.Store())], value=copy.deepcopy(consts[-1]))] + tail
            chain = tail
            for c in reversed(consts):
                sub = _RenameLoads({X: c})
                body = [ast.Assign(targets=[ast.Name(id=X, ctx=ast.Store())], value=copy.deepcopy(c))] + [sub.visit(copy.deepcopy(b)) for b in iff.body[:-1]]
                chain = [ast.If(test=sub.visit(copy.deepcopy(iff.test)), body=body, orelse=chain)]
            for top in chain:
                for y in ast.walk(top):
                    if not hasattr(y, 'lineno'):
                        ast.copy_location(y, s)
                ast.fix_missing_locations(top)
            stmts[i:i + 1] = chain
            continue
        # 6d. `x = next((E for T in I if C), D)` is `x = D; for T in I: if C: x = E; break`; and when the search result is only used by an
        #     immediately following `if x is not None: BODY` (D is None, E is the loop variable, C dereferences it - so a found element is
        #     not None), the whole is the search loop with the body inside: `for T in I: if C: BODY[x := T]; break`
        if isinstance(s, ast.Assign) and len(s.targets) == 1 and isinstance(s.targets[0], ast.Name) and isinstance(s.value, ast.Call) \
                and isinstance(s.value.func, ast.Name) and s.value.func.id == 'next' and len(s.value.args) == 2 and not s.value.keywords \
                and isinstance(s.value.args[0], ast.GeneratorExp) and len(s.value.args[0].generators) == 1 and not s.value.args[0].generators[0].is_async \
                and (isinstance(s.value.args[1], (ast.Constant, ast.Name)) or (isinstance(s.value.args[1], ast.Call) and isinstance(s.value.args[1].func, ast.Name)
                     and s.value.args[1].func.id == 'len' and len(s.value.args[1].args) == 1 and isinstance(s.value.args[1].args[0], (ast.Name, ast.Attribute)))) \
                and not any(isinstance(x, (ast.ListComp, ast.SetComp, ast.DictComp, ast.GeneratorExp, ast.Lambda, ast.Await, ast.NamedExpr, ast.Yield, ast.YieldFrom))
                            for x in ast.walk(s.value.args[0]) if x is not s.value.args[0]) \
                and not any(isinstance(x, ast.Name) and x.id == s.targets[0].id for x in ast.walk(s.value)):
            import copy
            ge, dflt = s.value.args
            g = ge.generators[0]
            x = s.targets[0].id
            nxt = stmts[i + 1] if i + 1 < len(stmts) else None
            fused = False
            if isinstance(dflt, ast.Constant) and dflt.value is None and isinstance(ge.elt, ast.Name) and isinstance(g.target, ast.Name) \
                    and ge.elt.id == g.target.id and isinstance(nxt, ast.If) and not nxt.orelse \
                    and isinstance(nxt.test, ast.Compare) and len(nxt.test.ops) == 1 and isinstance(nxt.test.ops[0], ast.IsNot) \
                    and isinstance(nxt.test.left, ast.Name) and nxt.test.left.id == x \
                    and isinstance(nxt.test.comparators[0], ast.Constant) and nxt.test.comparators[0].value is None \
                    and any(isinstance(a_, ast.Attribute) and isinstance(a_.value, ast.Name) and a_.value.id == g.target.id for c in g.ifs for a_ in ast.walk(c)):
                T = g.target.id
                body_loads = sum(1 for b in nxt.body for y in ast.walk(b) if isinstance(y, ast.Name) and y.id == x and isinstance(y.ctx, ast.Load))
                body_stores = any(isinstance(y, ast.Name) and y.id in (x, T) and isinstance(y.ctx, (ast.Store, ast.Del)) for b in nxt.body for y in ast.walk(b))
                jumps = any(isinstance(y, (ast.Break, ast.Continue, ast.FunctionDef, ast.AsyncFunctionDef, ast.Lambda, ast.ClassDef)) for b in nxt.body for y in ast.walk(b))
                if fn_counts.get(x) == (1 + body_loads, 1) and fn_counts.get(T, (0, 0))[1] == 1 and not body_stores and not jumps:
                    body = [_RenameLoads({x: ast.Name(id=T, ctx=ast.Load())}).visit(copy.deepcopy(b)) for b in nxt.body] + [ast.Break()]
                    inner = None
                    for c in reversed(g.ifs):
                        inner = ast.If(test=c, body=body if inner is None else [inner], orelse=[])
                    loop = ast.For(target=g.target, iter=g.iter, body=[inner], orelse=[], type_comment=None)
                    for y in ast.walk(loop):
                        if not hasattr(y, 'lineno'):
                            ast.copy_location(y, s)
                    ast.fix_missing_locations(loop)
                    stmts[i:i + 2] = [loop]
                    fused = True
            if fused:
                continue
            hit = [ast.Assign(targets=[ast.Name(id=x, ctx=ast.Store())], value=ge.elt), ast.Break()]
            inner = None
            for c in reversed(g.ifs):
                inner = ast.If(test=c, body=hit if inner is None else [inner], orelse=[])
            loop = ast.For(target=g.target, iter=g.iter, body=[inner] if inner is not None else hit, orelse=[], type_comment=None)
            init = ast.Assign(targets=[ast.Name(id=x, ctx=ast.Store())], value=dflt)
            for top in (loop, init):
                for y in ast.walk(top):
                    if not hasattr(y, 'lineno'):
                        ast.copy_location(y, s)
                ast.fix_missing_locations(top)
            stmts[i:i + 1] = [init, loop]
            s = init
        # 2b. `D.setdefault(K, []).append(V)` is `if K not in D: D[K] = [V] else: D[K].append(V)` (D, K, V plain names / attribute chains / constants)
        if isinstance(s, ast.Expr) and isinstance(s.value, ast.Call) and isinstance(s.value.func, ast.Attribute) and s.value.func.attr == 'append' \
                and len(s.value.args) == 1 and not s.value.keywords and isinstance(s.value.func.value, ast.Call) \
                and isinstance(s.value.func.value.func, ast.Attribute) and s.value.func.value.func.attr == 'setdefault' \
                and len(s.value.func.value.args) == 2 and not s.value.func.value.keywords \
                and isinstance(s.value.func.value.args[1], ast.List) and not s.value.func.value.args[1].elts:
            D, K, V = s.value.func.value.func.value, s.value.func.value.args[0], s.value.args[0]

            def plain(e):
                return all(isinstance(x, (ast.Name, ast.Attribute, ast.Constant, ast.Load)) for x in ast.walk(e))
            if plain(D) and plain(K) and plain(V):
                import copy
                sub = lambda: ast.Subscript(value=copy.deepcopy(D), slice=copy.deepcopy(K), ctx=ast.Load())
                st = ast.Subscript(value=copy.deepcopy(D), slice=copy.deepcopy(K), ctx=ast.Store())
                new = ast.If(test=ast.Compare(left=copy.deepcopy(K), ops=[ast.NotIn()], comparators=[copy.deepcopy(D)]),
                             body=[ast.Assign(targets=[st], value=ast.List(elts=[copy.deepcopy(V)], ctx=ast.Load()))],
                             orelse=[ast.Expr(value=ast.Call(func=ast.Attribute(value=sub(), attr='append', ctx=ast.Load()), args=[copy.deepcopy(V)], keywords=[]))])
                for x in ast.walk(new):
                    ast.copy_location(x, s)
                stmts[i] = new
                s = new
        if isinstance(s, (ast.If, ast.While)):
            s.test = _nnf(s.test)      # 9. negation normal form of tests
        if isinstance(s, ast.While) and not s.orelse and isinstance(s.test, ast.BoolOp) and isinstance(s.test.op, ast.And) and len(s.test.values) >= 2 \
                and not any(isinstance(x, (ast.Await, ast.NamedExpr)) for x in ast.walk(s.test)):
            # 11. `while a and b: BODY` is `while a: if not b: break; BODY` (a counting search loop with its exit test in the body)
            vals = s.test.values
            guards = []
            for v in vals[1:]:
                g = ast.If(test=_neg(v), body=[ast.copy_location(ast.Break(), v)], orelse=[])
                guards.append(ast.copy_location(g, v))
            s.test = vals[0]
            s.body = guards + s.body
            ast.fix_missing_locations(s)
        # recurse into compound statements
        for fld in ('body', 'orelse', 'finalbody'):
            b = getattr(s, fld, None)
            if isinstance(b, list) and b and isinstance(b[0], ast.stmt) and not isinstance(s, (ast.FunctionDef, ast.AsyncFunctionDef, ast.ClassDef)):
                setattr(s, fld, _block(b, fn_counts))
        if isinstance(s, ast.Try):
            for h in s.handlers:
                h.body = _block(h.body, fn_counts)
        if isinstance(s, ast.Match) if hasattr(ast, 'Match') else False:
            for c in s.cases:
                c.body = _block(c.body, fn_counts)
        if isinstance(s, ast.If) and not s.orelse and isinstance(s.test, ast.BoolOp) and isinstance(s.test.op, ast.And) and any(
                isinstance(v.operand if isinstance(v, ast.UnaryOp) and isinstance(v.op, ast.Not) else v, ast.Await) for v in s.test.values[1:]):
            # 8. `if a and [not] await f(): B` (no else) is `if a: if [not] await f(): B` - so that the awaited test can be named
            vals = s.test.values
            inner = ast.copy_location(ast.If(test=vals[-1], body=s.body, orelse=[]), vals[-1])
            for v in reversed(vals[1:-1]):
                inner = ast.copy_location(ast.If(test=v, body=[inner], orelse=[]), v)
            s.test = vals[0]
            s.body = _block([inner], fn_counts)
        if isinstance(s, ast.If):
            # 7. an awaited value tested by an `if` has a name: `if [not] await f(..)` is `v = await f(..); if [not] v`
            core = s.test.operand if isinstance(s.test, ast.UnaryOp) and isinstance(s.test.op, ast.Not) else s.test
            if isinstance(core, ast.Await) and isinstance(core.value, ast.Call):
                nm = f'awaited__{core.lineno}'
                bind = ast.copy_location(ast.Assign(targets=[ast.copy_location(ast.Name(id=nm, ctx=ast.Store()), core)], value=core), core)
                ref = ast.copy_location(ast.Name(id=nm, ctx=ast.Load()), core)
                if core is s.test:
                    s.test = ref
                else:
                    s.test.operand = ref
                out.append(bind)
            # 3/4. one shape for a two-way decision (see module docstring)
            if s.orelse:
                bt, ot = _term(s.body), _term(s.orelse)
                if bt:
                    # (both leave, or only the body leaves) no else after a terminator: the else branch is what follows
                    rest = s.orelse
                    s.orelse = []
                    stmts[i + 1:i + 1] = rest
                elif ot:
                    # only the else branch leaves: it is the guard
                    s.test, s.body, rest = _neg(s.test), s.orelse, s.body
                    s.orelse = []
                    stmts[i + 1:i + 1] = rest
                elif _negative(s.test):
                    s.test, s.body, s.orelse = _neg(s.test), s.orelse, s.body
            if not s.orelse and _term(s.body):
                rest = stmts[i + 1:]
                if rest and isinstance(rest[-1], TERM) and not any(isinstance(x, (ast.FunctionDef, ast.AsyncFunctionDef, ast.ClassDef)) for x in rest):
                    nb, nr = _size(s.body), _size(rest)
                    if nr < nb or (nr == nb and _negative(s.test)):
                        # `if t: LONG(leaves)` followed by SHORT(leaves) is `if not t: SHORT` followed by LONG: the shorter one is the guard
                        long_ = s.body
                        s.test = _neg(s.test)
                        s.body = _block(rest, fn_counts)
                        stmts[i + 1:] = long_
                        out.append(s)
                        out.extend(long_)       # already canonical
                        return out
        # 5. single-use temporary read by the next statement
        if isinstance(s, ast.Assign) and len(s.targets) == 1 and isinstance(s.targets[0], ast.Name) and i + 1 < len(stmts):
            name = s.targets[0].id
            nxt = stmts[i + 1]
            tot = fn_counts.get(name, (0, 0))
            if tot == (1, 1) and not isinstance(nxt, (ast.FunctionDef, ast.AsyncFunctionDef, ast.ClassDef, ast.For, ast.AsyncFor, ast.While, ast.Try, ast.With, ast.AsyncWith)):
                head = nxt.test if isinstance(nxt, ast.If) else nxt
                l, st = _count_names(head, name)
                has_await = any(isinstance(x, (ast.Await, ast.Yield, ast.YieldFrom)) for x in ast.walk(s.value))
                if has_await and not isinstance(nxt, ast.If) and not any(isinstance(x, (ast.Yield, ast.YieldFrom)) for x in ast.walk(s.value)):
                    # an awaited value may move into the next statement only if nothing with an effect is evaluated before it there
                    use = [x for x in ast.walk(head) if isinstance(x, ast.Name) and x.id == name]
                    pos = (use[0].lineno, use[0].col_offset) if use else (0, 0)
                    has_await = any(isinstance(x, (ast.Call, ast.Await)) and (x.end_lineno, x.end_col_offset) <= pos for x in ast.walk(head))
                if l == 1 and st == 0 and not has_await:
                    sub = _Subst(name, s.value)
                    if isinstance(nxt, ast.If):
                        nxt.test = sub.visit(nxt.test)
                    else:
                        stmts[i + 1] = sub.visit(nxt)
                    if sub.done == 1:
                        i += 1
                        continue
        out.append(s)
        i += 1
    return out


def _counts(fn):
    counts = {}
    for x in ast.walk(fn):
        if isinstance(x, ast.Name):
            l, s = counts.get(x.id, (0, 0))
            counts[x.id] = (l + 1, s) if isinstance(x.ctx, ast.Load) else (l, s + 1)
        elif isinstance(x, (ast.Global, ast.Nonlocal)):
            for nm in x.names:
                counts[nm] = (99, 99)
        elif isinstance(x, ast.arg):
            counts[x.arg] = (99, 99)
    return counts


class _RenameLoads(ast.NodeTransformer):
    def __init__(self, m):
        self.m = m

    def visit_Name(self, n):
        if n.id in self.m and isinstance(n.ctx, ast.Load):
            import copy
            return ast.copy_location(copy.deepcopy(self.m[n.id]), n)
        return n


def _propagate_generated_copies(fn):
    """`p__hN = <name or self.attr chain>` introduced by helper expansion: when neither side is bound again, read the source"""
    counts = _counts(fn)
    m = {}
    dead = []
    for x in ast.walk(fn):
        if isinstance(x, ast.Assign) and len(x.targets) == 1 and isinstance(x.targets[0], ast.Name) and '__h' in x.targets[0].id:
            t = x.targets[0].id
            v = x.value
            base = v
            while isinstance(base, ast.Attribute):
                base = base.value
            if counts.get(t, (0, 0))[1] == 1 and isinstance(base, ast.Name) and (counts.get(base.id, (0, 0))[1] <= 1 or counts.get(base.id) == (99, 99)) \
                    and isinstance(base, ast.Name):
                # a parameter of the caller that is re-bound somewhere is not a stable source
                stores = sum(1 for y in ast.walk(fn) if isinstance(y, ast.Name) and y.id == base.id and isinstance(y.ctx, ast.Store))
                if stores <= (1 if counts.get(base.id) != (99, 99) else 0):
                    m[t] = v
                    dead.append(x)
    if not m:
        return

    def strip(stmts):
        out = []
        for s in stmts:
            if s in dead:
                continue
            for fld in ('body', 'orelse', 'finalbody'):
                b = getattr(s, fld, None)
                if isinstance(b, list) and b and isinstance(b[0], ast.stmt):
                    setattr(s, fld, strip(b) or [ast.copy_location(ast.Pass(), s)])
            if isinstance(s, ast.Try):
                for h in s.handlers:
                    h.body = strip(h.body) or [ast.copy_location(ast.Pass(), s)]
            out.append(s)
        return out
    fn.body = strip(fn.body)
    # sources that are themselves generated copies are resolved first (`r__h = n__h.attr`, `n__h = pkt.nack` -> `pkt.nack.attr`)
    import copy
    for _ in range(len(m) + 1):
        changed = False
        for k in list(m):
            if any(isinstance(y, ast.Name) and y.id in m and y.id != k for y in ast.walk(m[k])):
                m[k] = _RenameLoads({a: b for a, b in m.items() if a != k}).visit(copy.deepcopy(m[k]))
                changed = True
        if not changed:
            break
    _RenameLoads(m).visit(fn)


def canonicalise_function(fn, generated=False):
    if generated:
        _propagate_generated_copies(fn)
        _Expr().visit(fn)
    fn.body = _block(fn.body, _counts(fn))
    ast.fix_missing_locations(fn)


def _count_loops(tree):
    """10. `for x in itertools.count(a[, s]): BODY` (x a plain name BODY does not bind, no `continue`, no else) is
    `x = a; while True: BODY; x += s`"""
    names = set()
    for n in tree.body:
        if isinstance(n, ast.ImportFrom) and n.module == 'itertools':
            names |= {(a.asname or a.name) for a in n.names if a.name == 'count'}
        elif isinstance(n, ast.Import):
            names |= {(a.asname or a.name) + '.count' for a in n.names if a.name == 'itertools'}
    if not names:
        return

    def own_continue(stmts):
        for s in stmts:
            if isinstance(s, ast.Continue):
                return True
            if isinstance(s, (ast.For, ast.AsyncFor, ast.While, ast.FunctionDef, ast.AsyncFunctionDef, ast.ClassDef)):
                continue
            for fld in ('body', 'orelse', 'finalbody'):
                b = getattr(s, fld, None)
                if isinstance(b, list) and b and isinstance(b[0], ast.stmt) and own_continue(b):
                    return True
            if isinstance(s, ast.Try) and any(own_continue(h.body) for h in s.handlers):
                return True
        return False

    def block(stmts):
        out = []
        for s in stmts:
            for fld in ('body', 'orelse', 'finalbody'):
                b = getattr(s, fld, None)
                if isinstance(b, list) and b and isinstance(b[0], ast.stmt):
                    setattr(s, fld, block(b))
            if isinstance(s, ast.Try):
                for h in s.handlers:
                    h.body = block(h.body)
            if isinstance(s, ast.For) and not s.orelse and isinstance(s.target, ast.Name) and isinstance(s.iter, ast.Call) and ast.unparse(s.iter.func) in names \
                    and len(s.iter.args) <= 2 and not s.iter.keywords and not own_continue(s.body) \
                    and not any(isinstance(x, ast.Name) and x.id == s.target.id and isinstance(x.ctx, (ast.Store, ast.Del)) for b_ in s.body for x in ast.walk(b_)) \
                    and all(isinstance(a, (ast.Constant, ast.Name)) for a in s.iter.args):
                start = s.iter.args[0] if s.iter.args else ast.Constant(0)
                step = s.iter.args[1] if len(s.iter.args) == 2 else ast.Constant(1)
                init = ast.Assign(targets=[ast.Name(id=s.target.id, ctx=ast.Store())], value=start)
                inc = ast.AugAssign(target=ast.Name(id=s.target.id, ctx=ast.Store()), op=ast.Add(), value=step)
                loop = ast.While(test=ast.Constant(True), body=s.body + [inc], orelse=[])
                for x in (init, inc, loop):
                    ast.copy_location(x, s)
                    ast.fix_missing_locations(x)
                out += [init, loop]
                continue
            out.append(s)
        return out
    for fn in [n for n in ast.walk(tree) if isinstance(n, (ast.FunctionDef, ast.AsyncFunctionDef))]:
        fn.body = block(fn.body)


class _Desugar(ast.NodeTransformer):
    """two spellings of newer Python read back as the statements they abbreviate (rules 13, 14):
    13. `match S: case P: B ..` with value / singleton / or / class / capture / wildcard patterns is the if / elif chain of the tests the
        patterns stand for (`S == V`, `S is None`, `isinstance(S, C) [and S.a == V]`), a capture binds the subject at the head of its arm;
        sequence / mapping patterns are left alone (the rules then say they cannot read the function);
    14. an assignment expression evaluated first in an `if` test (`if (x := E) ..:`) is `x = E` followed by the test on x."""
    n = 0

    def _subject(self, node, pre):
        e = node.subject
        if isinstance(e, (ast.Name, ast.Constant)) or (isinstance(e, ast.Attribute) and isinstance(e.value, ast.Name)):
            return e
        _Desugar.n += 1
        nm = f'subject__m{_Desugar.n}'
        pre.append(ast.copy_location(ast.Assign(targets=[ast.Name(id=nm, ctx=ast.Store())], value=e), node))
        return ast.Name(id=nm, ctx=ast.Load())

    def _test(self, pat, subj, binds):
        """test expression for a pattern, or None when the pattern kind is not handled; True for 'always'"""
        import copy as _copy
        S = lambda: _copy.deepcopy(subj)
        if isinstance(pat, ast.MatchValue):
            return ast.Compare(left=S(), ops=[ast.Eq()], comparators=[pat.value])
        if isinstance(pat, ast.MatchSingleton):
            return ast.Compare(left=S(), ops=[ast.Is()], comparators=[ast.Constant(pat.value)])
        if isinstance(pat, ast.MatchOr):
            ts = [self._test(p_, subj, binds) for p_ in pat.patterns]
            if any(t is None for t in ts):
                return None
            if any(t is True for t in ts):
                return True
            return ast.BoolOp(op=ast.Or(), values=ts)
        if isinstance(pat, ast.MatchAs):
            if pat.pattern is None:
                if pat.name is not None:
                    binds.append(pat.name)
                return True
            t = self._test(pat.pattern, subj, binds)
            if t is not None and pat.name is not None:
                binds.append(pat.name)
            return t
        if isinstance(pat, ast.MatchClass) and not pat.patterns:
            t = ast.Call(func=ast.Name(id='isinstance', ctx=ast.Load()), args=[S(), pat.cls], keywords=[])
            parts = [t]
            for a_, p_ in zip(pat.kwd_attrs, pat.kwd_patterns):
                sub = self._test(p_, ast.Attribute(value=S(), attr=a_, ctx=ast.Load()), binds)
                if sub is None:
                    return None
                if sub is not True:
                    parts.append(sub)
            return parts[0] if len(parts) == 1 else ast.BoolOp(op=ast.And(), values=parts)
        return None

    def visit_Match(self, node):
        self.generic_visit(node)
        pre = []
        subj = self._subject(node, pre)
        arms = []
        for c in node.cases:
            binds = []
            t = self._test(c.pattern, subj, binds)
            if t is None:
                return node
            if c.guard is not None:
                if binds:
                    return node         # a guard that reads a capture: not worth it
                t = c.guard if t is True else ast.BoolOp(op=ast.And(), values=[t, c.guard])
            import copy as _copy
            body = [ast.copy_location(ast.Assign(targets=[ast.Name(id=b, ctx=ast.Store())], value=_copy.deepcopy(subj)), c.body[0]) for b in binds] + c.body
            arms.append((t, body))
        chain = None
        for t, body in reversed(arms):
            if t is True:
                chain = body
            else:
                chain = [ast.copy_location(ast.If(test=t, body=body, orelse=chain or []), body[0])]
        out = pre + (chain or [ast.copy_location(ast.Pass(), node)])
        for x in out:
            ast.fix_missing_locations(x)
        return out

    @staticmethod
    def _first_walrus(t):
        """the NamedExpr that is evaluated first (unconditionally) in test t, with a setter to replace it; or None"""
        if isinstance(t, ast.NamedExpr):
            return t
        if isinstance(t, ast.UnaryOp) and isinstance(t.op, ast.Not):
            return _Desugar._first_walrus(t.operand)
        if isinstance(t, ast.Compare):
            return _Desugar._first_walrus(t.left)
        if isinstance(t, ast.BoolOp):
            return _Desugar._first_walrus(t.values[0])
        if isinstance(t, ast.Call) and t.args and not isinstance(t.func, ast.NamedExpr):
            return _Desugar._first_walrus(t.args[0]) if isinstance(t.func, ast.Name) else None
        return None

    _fn_stack = []

    def visit_FunctionDef(self, node):
        _Desugar._fn_stack.append(node.name)
        self.generic_visit(node)
        _Desugar._fn_stack.pop()
        return node

    visit_AsyncFunctionDef = visit_FunctionDef

    def visit_Return(self, node):
        # 18. `return A if T else B` is `if T: return A` followed by `return B` (the size-algebra methods keep theirs: they are executed as
        #     straight-line code with the condition as a guard key)
        self.generic_visit(node)
        if isinstance(node.value, ast.IfExp) and (not _Desugar._fn_stack or _Desugar._fn_stack[-1] not in ('encoded_length', 'encode_into')):
            v = node.value
            a = ast.copy_location(ast.If(test=v.test, body=[ast.copy_location(ast.Return(value=v.body), node)], orelse=[]), node)
            b = ast.copy_location(ast.Return(value=v.orelse), node)
            ast.fix_missing_locations(a)
            ast.fix_missing_locations(b)
            return [a, b]
        return node

    def visit_Subscript(self, node):
        # 21. `X[slice(a, b)]` is `X[a:b]`;  22. `{True: A, False: B}[T]` is `A if T else B`
        self.generic_visit(node)
        if isinstance(node.value, ast.Dict) and len(node.value.keys) == 2 and all(isinstance(k_, ast.Constant) and isinstance(k_.value, bool) for k_ in node.value.keys) \
                and {k_.value for k_ in node.value.keys} == {True, False} and isinstance(node.ctx, ast.Load):
            d_ = {k_.value: v_ for k_, v_ in zip(node.value.keys, node.value.values)}
            t_ = node.slice
            # the subscript is a bool only if the test is one: comparisons, `not`, bool(), and/or of those
            def _boolish(e):
                return isinstance(e, ast.Compare) or (isinstance(e, ast.UnaryOp) and isinstance(e.op, ast.Not)) or \
                    (isinstance(e, ast.Call) and isinstance(e.func, ast.Name) and e.func.id == 'bool') or \
                    (isinstance(e, ast.BoolOp) and all(_boolish(v_) for v_ in e.values))
            if _boolish(t_):
                return ast.copy_location(ast.IfExp(test=t_, body=d_[True], orelse=d_[False]), node)
        sl = node.slice
        if isinstance(sl, ast.Call) and isinstance(sl.func, ast.Name) and sl.func.id == 'slice' and len(sl.args) in (2, 3) and not sl.keywords:
            none = lambda e: None if isinstance(e, ast.Constant) and e.value is None else e      # noqa: E731
            node.slice = ast.copy_location(ast.Slice(lower=none(sl.args[0]), upper=none(sl.args[1]),
                                                     step=none(sl.args[2]) if len(sl.args) == 3 else None), sl)
        return node

    def visit_Raise(self, node):
        # 20. `raise (A if T else B)(..)` / `raise A(..) if T else B(..)` is `if T: raise A(..)` else `raise B(..)`
        self.generic_visit(node)
        e = node.exc
        import copy as _copy
        alt = None
        if isinstance(e, ast.IfExp):
            alt = (e.test, e.body, e.orelse)
        elif isinstance(e, ast.Call) and isinstance(e.func, ast.IfExp):
            mk = lambda f_: ast.copy_location(ast.Call(func=f_, args=_copy.deepcopy(e.args), keywords=_copy.deepcopy(e.keywords)), e)    # noqa: E731
            alt = (e.func.test, mk(e.func.body), mk(e.func.orelse))
        if alt is None or node.cause is not None:
            return node
        a = ast.copy_location(ast.If(test=alt[0], body=[ast.copy_location(ast.Raise(exc=alt[1], cause=None), node)],
                                     orelse=[ast.copy_location(ast.Raise(exc=alt[2], cause=None), node)]), node)
        ast.fix_missing_locations(a)
        return a

    def visit_If(self, node):
        self.generic_visit(node)
        w = self._first_walrus(node.test)
        if w is None or not isinstance(w.target, ast.Name):
            return node
        asg = ast.copy_location(ast.Assign(targets=[ast.Name(id=w.target.id, ctx=ast.Store())], value=w.value), node)

        class R(ast.NodeTransformer):
            def visit_NamedExpr(self, n):
                return ast.copy_location(ast.Name(id=n.target.id, ctx=ast.Load()), n) if n is w else self.generic_visit(n)
        node.test = R().visit(node.test)
        ast.fix_missing_locations(asg)
        return [asg, node]


def canonicalise(tree):
    """in-place canonicalisation of a module tree; returns the tree"""
    _Desugar().visit(tree)
    ast.fix_missing_locations(tree)
    _count_loops(tree)
    _Expr().visit(tree)
    for fn in [n for n in ast.walk(tree) if isinstance(n, (ast.FunctionDef, ast.AsyncFunctionDef))]:
        fn.body = _block(fn.body, _counts(fn))
    ast.fix_missing_locations(tree)
    # inlining a temporary can put a conditional expression where rules 18 / 20 read one (`f = A if t else B; raise f()`): once more
    before = ast.dump(tree)
    _Desugar().visit(tree)
    ast.fix_missing_locations(tree)
    if ast.dump(tree) != before:
        for fn in [n for n in ast.walk(tree) if isinstance(n, (ast.FunctionDef, ast.AsyncFunctionDef))]:
            fn.body = _block(fn.body, _counts(fn))
        ast.fix_missing_locations(tree)
    return tree
