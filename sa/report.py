"""Obligations, verdicts, known findings, evidence files and exit codes."""
import hashlib
import json
import os
import time

from .loader import AnalysisError, norm

VERIF = os.path.dirname(os.path.dirname(os.path.abspath(__file__)))
KNOWN_FILE = os.path.join(VERIF, 'known_findings.json')


class Obligation:
    def __init__(self, oid, title):
        self.id = oid            # e.g. C04.RET.1
        self.title = title
        self.instances = []      # dicts: instance, status, site, detail


SHAPE_BOUND = {'C11.SIG.1', 'C12.SIG.1', 'C11.PRV.1', 'C12.SHR.1', 'C11.PRV.2', 'C12.GRD.1', 'C13.GRD.3', 'C11.TBL.1', 'C13.LOP.1', 'C13.GRD.1',
               'C08.LOP.1', 'C10.MPT.1', 'C17.PRV.1', 'C17.LOP.2', 'C15.PRV.1', 'C19.LOP.2', 'C10.PRV.1', 'C10.PRV.2', 'C18.MPT.2', 'C03.LOP.1', 'C01.SIB.1'}


class Run:
    def __init__(self, prop, program, tier='quick', evidence_dir=None, quiet=False):
        self.prop = prop
        self.P = program
        self.tier = tier
        self.t0 = time.time()
        self.obligations = {}
        self.order = []
        self.violations = []
        self.known_hits = []
        self.advisories = []
        self.assumptions = []
        self.functions = set()
        self.paths_examined = 0
        self.callsites_resolved = 0
        self.callsites_seen = 0
        self.evidence_dir = evidence_dir or os.environ.get('VERIF_EVIDENCE_DIR') or os.path.join(VERIF, 'evidence')
        self.quiet = quiet
        self.extra = {}
        try:
            self.known = json.load(open(KNOWN_FILE))['findings']
        except FileNotFoundError:
            self.known = []

    # ------------------------------------------------------------------ obligations
    def ob(self, oid, title):
        if oid not in self.obligations:
            self.obligations[oid] = Obligation(oid, title)
            self.order.append(oid)
        return self.obligations[oid]

    def touch(self, *funcs):
        for f in funcs:
            self.functions.add(f.qual if hasattr(f, 'qual') else str(f))

    def ok(self, oid, instance, site='', detail=''):
        self.obligations[oid].instances.append(
            {'instance': instance, 'status': 'discharged', 'site': site, 'detail': detail})

    def fail(self, oid, instance, function, construct, what, site='', witness=None):
        """an undischarged obligation instance: violation unless listed as a known finding"""
        # A few rules on the LVS compiler read one function as a whole (how a key text / a graph / a numbering is built up). When that function now
        # calls helpers that did not exist in the reference tree and could not be expanded in place (used inside a comprehension, generators, pairs
        # of results), the rule sees an incomplete picture: what it misses may stand in the helper. That is "cannot read" (exit 2), not a verdict.
        if oid in SHAPE_BOUND and isinstance(function, str) and function in self.P.funcs:
            try:
                from .rules.common import new_callees
                from .flow import ctx_of
                helpers = new_callees(self, ctx_of(self.P, function))
            except Exception:
                helpers = []
            import ast as _ast
            import re as _re
            fnode = self.P.funcs[function].node
            expanded = function in getattr(self.P, 'expanded_callers', ()) or \
                any(type(x).__name__ == 'InlineBlock' or (isinstance(x, _ast.Name) and _re.search(r'__h\d+$', x.id)) for x in _ast.walk(fnode))
            if expanded and not helpers:
                self.defer(f'{oid} on {function.rsplit(".", 1)[1]}: the function was rebuilt around new helpers (expanded in place) and is not in a form this '
                           f'rule reads; "{what[:90]}" is not a verdict')
                return
            if helpers:
                self.defer(f'{oid} on {function.rsplit(".", 1)[1]}: part of the function now lives in new helper(s) that could not be expanded '
                           f'({", ".join(h.qual.rsplit(".", 1)[1] for h in helpers[:3])}); "{what[:90]}" is not a verdict')
                return
        rule = oid.split('.', 1)[1] if '.' in oid else oid
        rec = {'property': self.prop, 'rule': rule, 'obligation': oid, 'instance': instance,
               'function': function, 'construct': norm(construct), 'what': what, 'site': site,
               'witness': witness or []}
        k = self._known(rec)
        if k is not None:
            rec['status'] = 'known-finding'
            self.known_hits.append((k, rec))
            self.obligations[oid].instances.append(
                {'instance': instance, 'status': 'known-finding', 'site': site, 'detail': what})
        else:
            rec['status'] = 'VIOLATION'
            self.violations.append(rec)
            self.obligations[oid].instances.append(
                {'instance': instance, 'status': 'VIOLATION', 'site': site, 'detail': what})

    def advisory(self, oid, what, site=''):
        self.advisories.append({'obligation': oid, 'what': what, 'site': site})

    def need(self, cond, msg):
        if not cond:
            raise AnalysisError(msg)

    def defer(self, msg):
        """an analysis error in one rule that does not stop the others: the run ends as ANALYSIS-ERROR (exit 2) unless another rule
        establishes a violation (then the violation is the verdict and the unread part is listed with the assumptions)"""
        if not hasattr(self, 'deferred'):
            self.deferred = []
        self.deferred.append(msg)

    def minimum(self, oid, n, what=''):
        """instance count floor confirmed by hand: below it the rule would pass vacuously"""
        have = len(self.obligations[oid].instances) if oid in self.obligations else 0
        if have < n:
            raise AnalysisError(f'{oid}: only {have} instance(s) found, at least {n} confirmed by hand {what}')

    def _known(self, rec):
        for k in self.known:
            if k.get('status') != 'known':
                continue
            if k['property'] == rec['property'] and k['rule'] == rec['rule'] and k['function'] == rec['function'] \
                    and norm(k['construct']) == rec['construct']:
                return k
        return None

    # ------------------------------------------------------------------ output
    def finish(self):
        dfr = getattr(self, 'deferred', [])
        if dfr and not self.violations:
            raise AnalysisError(dfr[0] + (f' (+{len(dfr) - 1} more)' if len(dfr) > 1 else ''))
        for m_ in dfr:
            print(f'ANALYSIS-ERROR property={self.prop} {m_}')
            self.assumptions.append(f'not analysed: {m_}')
        wall = time.time() - self.t0
        os.makedirs(self.evidence_dir, exist_ok=True)
        replay_dir = os.path.join(self.evidence_dir, 'replay')
        n_ob = sum(len(o.instances) for o in self.obligations.values())
        n_dis = sum(1 for o in self.obligations.values() for i in o.instances if i['status'] == 'discharged')
        n_known = sum(1 for o in self.obligations.values() for i in o.instances if i['status'] == 'known-finding')
        distinct = len({(o.id, i['instance']) for o in self.obligations.values() for i in o.instances if i['site']})
        samples = []
        for oid in self.order:
            o = self.obligations[oid]
            samples.append({'obligation': oid, 'rule': o.title, 'instances': o.instances[:6],
                            'n_instances': len(o.instances)})
        out = []
        for k, rec in self.known_hits:
            out.append(f"KNOWN-FINDING: property={self.prop} {rec['obligation']} {rec['function']}: {k['what']}")
        if self.violations:
            os.makedirs(replay_dir, exist_ok=True)
        for rec in self.violations:
            h = hashlib.sha1(json.dumps([rec['obligation'], rec['function'], rec['construct'], rec['instance']]).encode()).hexdigest()[:10]
            path = os.path.join(replay_dir, f"{self.prop}-{rec['obligation']}-{h}.json")
            json.dump(rec, open(path, 'w'), indent=1)
            out.append(f"  {rec['obligation']} [{rec['site']}] {rec['function']}: {rec['what']}  ({rec['construct'][:100]})")
            out.append(f"VIOLATION property={self.prop} replay={path}")
        ev = {
            'property_id': self.prop, 'tier': self.tier, 'seed': int(os.environ.get('VERIF_SEED', '0') or 0),
            'level': 'other',
            'coverage': {
                'explanation': ('static analysis of /repo source (ast, resolved callees, per-function CFG, dataflow); '
                                'each obligation is a structural necessary condition of the property, see DESIGN.md §4 ' + self.prop),
                'obligations': n_ob, 'discharged': n_dis, 'known_findings': n_known,
                'evaluations': n_ob, 'distinct_nontrivial': distinct,
                'rule': 'one evaluation = one obligation instance (rule applied to one construct of the current tree); '
                        'non-trivial = bound to a concrete source site (file:line)',
                'samples': samples,
                'rules': [{'id': oid, 'rule': self.obligations[oid].title, 'instances': len(self.obligations[oid].instances)}
                          for oid in self.order],
                'functions_analysed': sorted(self.functions),
                'n_functions_analysed': len(self.functions),
                'paths_examined': self.paths_examined,
                'call_sites_seen': self.callsites_seen, 'call_sites_resolved': self.callsites_resolved,
                'program': self.P.stats(), 'advisories': self.advisories,
                'repo': self.P.repo,
            },
            'assumptions': self.assumptions,
            'wall_s': round(wall, 3),
            'violations': len(self.violations),
        }
        ev['coverage'].update(self.extra)
        json.dump(ev, open(os.path.join(self.evidence_dir, f'{self.prop}.json'), 'w'), indent=1, default=str)
        if not self.quiet:
            print(f'[{self.prop}] tier={self.tier} obligations={n_ob} discharged={n_dis} known={n_known} '
                  f'violations={len(self.violations)} functions={len(self.functions)} '
                  f'modules={len(self.P.mods)} wall={wall:.2f}s')
            for oid in self.order:
                o = self.obligations[oid]
                st = {}
                for i in o.instances:
                    st[i['status']] = st.get(i['status'], 0) + 1
                print(f'  {oid:<14} {len(o.instances):>3} inst  {st}  {o.title[:90]}')
        for l in out:
            print(l)
        return 1 if self.violations else 0
