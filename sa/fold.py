"""Exhaustive folding of a *pure* expression or of a straight-line / if-else block over a finite domain (an octet 0..255, a Length 0..17):
constant folding with the scrutinee fixed, repeated for every member of the domain. Nothing of the repository is imported or run; only
the operations listed here are understood, everything else raises CannotFold (-> ANALYSIS-ERROR, never a verdict)."""
import ast
import string

from .loader import NOVALUE


class CannotFold(Exception):
    pass


_STR_METHODS = ('isalnum', 'isalpha', 'isdigit', 'isascii', 'isdecimal', 'isnumeric', 'isupper', 'islower', 'upper', 'lower', 'format', 'join',
                'encode', 'hex', 'zfill', 'rjust')
_BUILTINS = {'chr': chr, 'ord': ord, 'len': len, 'str': str, 'int': int, 'hex': hex, 'format': format, 'bool': bool, 'bytes': bytes,
             'tuple': tuple, 'list': list, 'set': set, 'frozenset': frozenset, 'range': range, 'dict': dict, 'sorted': sorted}
_CMP = {ast.Eq: lambda a, b: a == b, ast.NotEq: lambda a, b: a != b, ast.Lt: lambda a, b: a < b, ast.LtE: lambda a, b: a <= b,
        ast.Gt: lambda a, b: a > b, ast.GtE: lambda a, b: a >= b, ast.In: lambda a, b: a in b, ast.NotIn: lambda a, b: a not in b,
        ast.Is: lambda a, b: a is b, ast.IsNot: lambda a, b: a is not b}
_BIN = {ast.Add: lambda a, b: a + b, ast.Sub: lambda a, b: a - b, ast.Mult: lambda a, b: a * b, ast.Mod: lambda a, b: a % b,
        ast.BitOr: lambda a, b: a | b, ast.BitAnd: lambda a, b: a & b, ast.LShift: lambda a, b: a << b, ast.RShift: lambda a, b: a >> b,
        ast.FloorDiv: lambda a, b: a // b}


class Folder:
    def __init__(self, P, mod, closures=None, depth=0):
        self.P, self.mod, self.depth = P, mod, depth
        self.closures = dict(closures or {})      # name -> FunctionDef (nested helpers of the function under analysis)
        self._consts = {}

    # ------------------------------------------------------------------ names
    def name(self, nm, env):
        if nm in env:
            return env[nm]
        if nm in self._consts:
            return self._consts[nm]
        r = self.P.lookup(self.mod, nm)
        if r and r[0] == 'const':
            v = self.P.const_value(r[1], r[3])
            if v is NOVALUE:
                v = Folder(self.P, r[1], depth=self.depth + 1).ev(r[3], {})
            self._consts[nm] = v
            return v
        raise CannotFold(f'name `{nm}` has no foldable value')

    # ------------------------------------------------------------------ expressions
    def ev(self, e, env):
        if self.depth > 6:
            raise CannotFold('too deep')
        if isinstance(e, ast.Constant):
            return e.value
        if isinstance(e, ast.Name):
            return self.name(e.id, env)
        if isinstance(e, ast.Attribute):
            if isinstance(e.value, ast.Name) and e.value.id == 'string' and hasattr(string, e.attr):
                return getattr(string, e.attr)
            r = self.P.resolve(self.mod, e)
            if r and r[0] in ('const', 'classattr'):
                v = self.P.const_value(self.mod, e)
                if v is not NOVALUE:
                    return v
            raise CannotFold(f'attribute `{ast.unparse(e)}`')
        if isinstance(e, ast.JoinedStr):
            out = ''
            for v in e.values:
                if isinstance(v, ast.Constant):
                    out += v.value
                else:
                    x = self.ev(v.value, env)
                    if v.conversion == ord('r'):
                        x = repr(x)
                    elif v.conversion == ord('s'):
                        x = str(x)
                    spec = self.ev(v.format_spec, env) if v.format_spec is not None else ''
                    out += format(x, spec)
            return out
        if isinstance(e, ast.BoolOp):
            v = None
            for x in e.values:
                v = self.ev(x, env)
                if isinstance(e.op, ast.And) and not v:
                    return v
                if isinstance(e.op, ast.Or) and v:
                    return v
            return v
        if isinstance(e, ast.UnaryOp):
            v = self.ev(e.operand, env)
            if isinstance(e.op, ast.Not):
                return not v
            if isinstance(e.op, ast.USub):
                return -v
            if isinstance(e.op, ast.Invert):
                return ~v
        if isinstance(e, ast.Compare):
            l = self.ev(e.left, env)
            for op, c in zip(e.ops, e.comparators):
                r = self.ev(c, env)
                if not _CMP[type(op)](l, r):
                    return False
                l = r
            return True
        if isinstance(e, ast.BinOp) and type(e.op) in _BIN:
            return _BIN[type(e.op)](self.ev(e.left, env), self.ev(e.right, env))
        if isinstance(e, ast.IfExp):
            return self.ev(e.body, env) if self.ev(e.test, env) else self.ev(e.orelse, env)
        if isinstance(e, (ast.Tuple, ast.List, ast.Set)):
            vs = [self.ev(x, env) for x in e.elts]
            return tuple(vs) if isinstance(e, ast.Tuple) else (vs if isinstance(e, ast.List) else set(vs))
        if isinstance(e, ast.Dict):
            return {self.ev(k, env): self.ev(v, env) for k, v in zip(e.keys, e.values)}
        if isinstance(e, ast.Subscript):
            v = self.ev(e.value, env)
            if isinstance(e.slice, ast.Slice):
                lo = self.ev(e.slice.lower, env) if e.slice.lower is not None else None
                hi = self.ev(e.slice.upper, env) if e.slice.upper is not None else None
                return v[lo:hi]
            return v[self.ev(e.slice, env)]
        if isinstance(e, (ast.GeneratorExp, ast.ListComp, ast.SetComp)):
            out = []
            self._comp(e.generators, 0, dict(env), lambda en: out.append(self.ev(e.elt, en)))
            return set(out) if isinstance(e, ast.SetComp) else out
        if isinstance(e, ast.DictComp):
            out = {}
            self._comp(e.generators, 0, dict(env), lambda en: out.__setitem__(self.ev(e.key, en), self.ev(e.value, en)))
            return out
        if isinstance(e, ast.Call):
            return self.call(e, env)
        raise CannotFold(f'`{ast.unparse(e)[:60]}`')

    def _comp(self, gens, i, env, emit):
        if i == len(gens):
            emit(env)
            return
        g = gens[i]
        if not isinstance(g.target, ast.Name):
            raise CannotFold('comprehension target')
        for x in self.ev(g.iter, env):
            en = dict(env)
            en[g.target.id] = x
            if all(self.ev(c, en) for c in g.ifs):
                self._comp(gens, i + 1, en, emit)

    def call(self, c, env):
        args = [self.ev(a, env) for a in c.args]
        if c.keywords:
            raise CannotFold('keyword arguments')
        f = c.func
        if isinstance(f, ast.Name):
            if f.id in self.closures:
                return self.run_function(self.closures[f.id], args, env)
            r = self.P.lookup(self.mod, f.id)
            if r and r[0] == 'func':
                q = self.P.qual_of(r)
                if q in self.P.funcs and len(list(ast.walk(self.P.funcs[q].node))) < 200:
                    return Folder(self.P, r[1], depth=self.depth + 1).run_function(self.P.funcs[q].node, args, {})
            if f.id in _BUILTINS and f.id not in env:
                return _BUILTINS[f.id](*args)
            raise CannotFold(f'call of `{f.id}`')
        if isinstance(f, ast.Attribute) and f.attr in _STR_METHODS + ('get',):
            recv = self.ev(f.value, env)
            if isinstance(recv, (str, bytes, int)) and f.attr in _STR_METHODS or isinstance(recv, dict) and f.attr == 'get':
                return getattr(recv, f.attr)(*args)
        raise CannotFold(f'call `{ast.unparse(c)[:60]}`')

    # ------------------------------------------------------------------ small function bodies: assignments, if / else, return
    def run_function(self, fn, args, outer):
        if len(fn.args.args) != len(args) or fn.args.vararg or fn.args.kwarg:
            raise CannotFold(f'call of {fn.name}')
        env = dict(outer)
        env.update({a.arg: v for a, v in zip(fn.args.args, args)})
        r = self.run_block(fn.body, env)
        return r[1] if r and r[0] == 'return' else None

    def run_block(self, stmts, env, acc=None):
        """-> ('return', v) | ('continue',) | ('break',) | None; `acc` collects what is appended to lists / added to strings named in it"""
        for s in stmts:
            if isinstance(s, ast.Expr) and isinstance(s.value, ast.Constant):
                continue
            if isinstance(s, ast.Pass):
                continue
            if isinstance(s, ast.FunctionDef):
                self.closures[s.name] = s
                continue
            if isinstance(s, (ast.Assign, ast.AnnAssign)):
                tg = s.targets if isinstance(s, ast.Assign) else [s.target]
                if s.value is None:
                    continue
                v = self.ev(s.value, env)
                for t in tg:
                    if isinstance(t, ast.Name):
                        env[t.id] = v
                    elif isinstance(t, ast.Tuple) and all(isinstance(x, ast.Name) for x in t.elts):
                        for x, y in zip(t.elts, v):
                            env[x.id] = y
                    else:
                        raise CannotFold(f'`{ast.unparse(s)[:60]}`')
                continue
            if isinstance(s, ast.AugAssign) and isinstance(s.target, ast.Name) and type(s.op) in _BIN:
                env[s.target.id] = _BIN[type(s.op)](self.name(s.target.id, env), self.ev(s.value, env))
                continue
            if isinstance(s, ast.Expr) and isinstance(s.value, ast.Call) and isinstance(s.value.func, ast.Attribute) \
                    and s.value.func.attr in ('append', 'extend') and isinstance(s.value.func.value, ast.Name) and s.value.func.value.id in env \
                    and isinstance(env[s.value.func.value.id], list):
                v = self.ev(s.value.args[0], env)
                env[s.value.func.value.id] = env[s.value.func.value.id] + ([v] if s.value.func.attr == 'append' else list(v))
                continue
            if isinstance(s, ast.If):
                r = self.run_block(s.body if self.ev(s.test, env) else s.orelse, env)
                if r:
                    return r
                continue
            if isinstance(s, ast.For) and isinstance(s.target, ast.Name) and not s.orelse:
                it = self.ev(s.iter, env)
                n_it = 0
                stop = None
                for v_ in it:
                    n_it += 1
                    if n_it > 4096:
                        raise CannotFold('loop too long')
                    env[s.target.id] = v_
                    r = self.run_block(s.body, env)
                    if r and r[0] == 'break':
                        break
                    if r and r[0] in ('return', 'raise', 'inline-exit'):
                        stop = r
                        break
                if stop:
                    return stop
                continue
            if isinstance(s, ast.Return):
                return ('return', self.ev(s.value, env) if s.value is not None else None)
            if isinstance(s, ast.Continue):
                return ('continue',)
            if isinstance(s, ast.Break):
                return ('break',)
            if isinstance(s, ast.Raise):
                return ('raise', ast.unparse(s.exc) if s.exc else None)
            if type(s).__name__ == 'InlineBlock':
                r = self.run_block(s.body, env)
                if r and r[0] not in ('inline-exit',):
                    return r
                continue
            if type(s).__name__ == 'InlineExit':
                return ('inline-exit',)
            raise CannotFold(f'statement `{ast.unparse(s)[:60]}`')
        return None
