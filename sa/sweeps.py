"""Thorough tier: the same rule families swept over the whole package beyond the anchors. A hit outside a property's API surface
is recorded as *advisory* in the evidence (never a violation, never changes the exit code)."""
import ast
import json
import os
import subprocess

from .cfg import CFG, walk_function
from .loader import FuncT


def bool_functions(R, oid):
    """every function annotated `-> bool`: may it fall off the end or return None?"""
    P = R.P
    n = 0
    for q, f in sorted(P.funcs.items()):
        r = f.node.returns
        if r is None or ast.unparse(r) != 'bool':
            continue
        if any(isinstance(d, ast.Name) and d.id == 'abstractmethod' or 'abstractmethod' in ast.unparse(d) for d in f.node.decorator_list):
            continue
        n += 1
        g = CFG(f.node)
        reach = g.reachable(follow_exc=False)
        if g.falloff.id in reach and not all(isinstance(s, (ast.Pass, ast.Expr, ast.Raise)) for s in f.node.body):
            R.advisory(oid, f'{q} is annotated -> bool but a path falls off the end (returns None)', f.loc())
        for node in g.nodes:
            if node.kind == 'return' and node.id in reach and (node.ast.value is None or (isinstance(node.ast.value, ast.Constant) and node.ast.value.value is None)):
                R.advisory(oid, f'{q} is annotated -> bool but returns None', f.loc(node.ast))
    R.extra.setdefault('sweeps', {})['bool_functions'] = n
    return n


def future_completions(R, oid):
    """every set_result / set_exception in the package: is it behind a done()/cancelled() test of the same future?"""
    P = R.P
    n = 0
    for q, f in sorted(P.funcs.items()):
        calls = [c for c in walk_function(f.node) if isinstance(c, ast.Call) and isinstance(c.func, ast.Attribute) and c.func.attr in ('set_result', 'set_exception')]
        if not calls:
            continue
        g = CFG(f.node)
        for c in calls:
            n += 1
            fut = ast.unparse(c.func.value)
            guards = [t for t in g.nodes if t.kind == 'test' and isinstance(t.ast, ast.Call) and isinstance(t.ast.func, ast.Attribute)
                      and t.ast.func.attr in ('done', 'cancelled') and ast.unparse(t.ast.func.value) == fut]
            owner = [x for x in g.nodes if any(y is c for y in x.walk())]
            if not owner:
                continue
            if not guards or owner[0].id in g.reachable(removed_edges={(t.id, False) for t in guards}):
                R.advisory(oid, f'{q}: {ast.unparse(c.func)}() is not guarded against an already finished future', f.loc(c))
    R.extra.setdefault('sweeps', {})['future_completions'] = n
    return n


def default_arguments(R, oid):
    from .rules.c14 import stateful_default
    P = R.P
    n = 0
    for q, f in sorted(P.funcs.items()):
        a = f.node.args
        ds = list(a.defaults) + [d for d in a.kw_defaults if d is not None]
        for d in ds:
            n += 1
            why = stateful_default(d)
            if why:
                R.advisory(oid, f'{q}: default argument `{ast.unparse(d)[:40]}` is a {why}', f.loc(d))
    R.extra.setdefault('sweeps', {})['default_arguments'] = n
    return n


def decoder_calls_outside_try(R, oid):
    """calls of the packet decoders whose documented decoding errors are not all caught at the call site (package-wide)"""
    P = R.P
    names = {'parse_interest', 'parse_data', 'parse_lp_packet', 'parse_lp_packet_v2', 'parse_certificate', 'parse_response'}
    need = ['IndexError', 'ValueError', 'struct.error', 'ndn.encoding.tlv_model.DecodeError']
    n = 0
    for q, f in sorted(P.funcs.items()):
        if not any(isinstance(c, ast.Call) and ast.unparse(c.func).split('.')[-1] in names for c in walk_function(f.node)):
            continue
        g = CFG(f.node)
        for node in g.nodes:
            for c in node.calls():
                if ast.unparse(c.func).split('.')[-1] in names:
                    n += 1
                    caught = []
                    for (s, l) in node.succ:
                        if l == 'exc' and s.kind == 'handler':
                            caught += P.handler_names(f.mod, s.ast)
                    missing = [e for e in need if not P.caught_by(e, caught)]
                    if missing and q.split('.')[1] not in ('encoding',):
                        R.advisory(oid, f'{q}: {ast.unparse(c.func)}() is called where {[m.rsplit(".", 1)[-1] for m in missing]} are not caught', f.loc(c))
    R.extra.setdefault('sweeps', {})['decoder_call_sites'] = n
    return n


def int_truthiness(R, oid):
    """truthiness tests on optional-integer attributes (0 taken for absent), package-wide"""
    from .rules.common import int_truthiness_uses
    from .flow import ctx_of
    P = R.P
    n = 0
    for q in sorted(P.funcs):
        if q.startswith(('ndn.bin.', 'ndn.schema.')):
            continue
        try:
            cx = ctx_of(P, q)
            uses = int_truthiness_uses(P, cx)
        except Exception:
            continue
        for (e, d) in uses:
            n += 1
            R.advisory(oid, f'{q}: {d} tested by truthiness in `{ast.unparse(e)[:60]}`', cx.f.loc(e))
    R.extra.setdefault('sweeps', {})['int_truthiness_hits'] = n
    return n


def extractor_validation(R):
    """self-validation (not a deciding step): compare the statically extracted field lists with the metaclass result obtained by
    importing the package in a subprocess (cwd /)"""
    from .models import models_of
    M = models_of(R.P)
    static = {f'{m}.{c}': [[f.name, f.kind, f.type] for f in fs] for (m, c), fs in M.all.items()}
    code = r'''
import json, sys, importlib, pkgutil
sys.path.insert(0, sys.argv[1])
import ndn
from ndn.encoding.tlv_model import TlvModel
for m in ["ndn.app_support.nfd_mgmt", "ndn.app_support.light_versec.binary", "ndn.app_support.svs.tlv", "ndn.app_support.security_v2",
          "ndn.encoding.ndnlp_v2", "ndn.encoding.ndn_format_0_3", "ndn.encoding.ndn_format_0_3_2017", "ndn.app_support.ecies", "ndn.transport.ndn_dpdk"]:
    try:
        importlib.import_module(m)
    except Exception:
        pass
def subs(c):
    for s in c.__subclasses__():
        yield s
        yield from subs(s)
out = {}
for c in set(subs(TlvModel)):
    out[c.__module__ + "." + c.__name__] = [[f.name, type(f).__name__, f.type_num] for f in c._encoded_fields]
print(json.dumps(out))
'''
    try:
        r = subprocess.run(['/venv/bin/python', '-c', code, os.path.join(R.P.repo, 'src')], capture_output=True, text=True, cwd='/', timeout=120)
        rt = json.loads(r.stdout)
        common = sorted(set(rt) & set(static))
        diff = [q for q in common if rt[q] != static[q]]
        R.extra['extractor_validation'] = {'runtime_models': len(rt), 'static_models': len(static), 'compared': len(common), 'different': diff}
    except Exception as e:
        R.extra['extractor_validation'] = {'skipped': f'{type(e).__name__}: {e}'}


THOROUGH = {
    'C01': [('extractor', None)],
    'C03': [('future_completions', 'C03.FUT.1')],
    'C04': [('bool_functions', 'C04.RET.1'), ('int_truthiness', 'C04.NUL.1')],
    'C06': [('decoder_calls_outside_try', 'C06.ESC.1'), ('future_completions', 'C06.ESC.1')],
    'C07': [('decoder_calls_outside_try', 'C07.ESC.1')],
    'C08': [('extractor', None)],
    'C13': [('int_truthiness', 'C13.GRD.2')],
    'C14': [('default_arguments', 'C14.MDA.1'), ('bool_functions', 'C14.RET.1')],
    'C17': [('decoder_calls_outside_try', 'C17.ESC.1')],
    'C18': [('decoder_calls_outside_try', 'C18.ESC.1')],
}


def run_thorough(R):
    for (name, oid) in THOROUGH.get(R.prop, []):
        if name == 'extractor':
            extractor_validation(R)
        else:
            globals()[name](R, oid)
