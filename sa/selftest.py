"""Both-ways self-test of the checker: each F-variant (one instance of a rule broken on a scratch copy of the
source; still parses) must make the property's check exit 1 naming the expected obligation; each S-twin
(behaviour-preserving rewrite) must leave it at exit 0. Variants live in sa/variants/*.py as text edits
(old -> new, `old` must occur exactly once in the current tree, otherwise the variant is reported stale).
Scratch copies are made under $TMPDIR (outside /repo and /verif) and removed immediately."""
import concurrent.futures as cf
import glob
import importlib.util
import json
import os
import shutil
import subprocess
import sys
import tempfile
import time

HERE = os.path.dirname(os.path.dirname(os.path.abspath(__file__)))


def load_variants(only=None):
    out = []
    for p in sorted(glob.glob(os.path.join(HERE, 'sa', 'variants', 'c*.py'))):
        spec = importlib.util.spec_from_file_location('v_' + os.path.basename(p)[:-3], p)
        m = importlib.util.module_from_spec(spec)
        spec.loader.exec_module(m)
        for v in m.VARIANTS:
            v = dict(v)
            v.setdefault('prop', os.path.basename(p)[:-3].upper())
            if only and v['prop'] != only.upper() and only not in v['name']:
                continue
            out.append(v)
    # the kept corpora are variants too: a seeded change must be reported by the check of its property (F), a kept refactoring must leave
    # the check of its property silent (S); the patches are applied with `git apply` instead of text edits
    for kind, expect in (('seeded', 'F'), ('refactors', 'S')):
        for d in sorted(glob.glob(os.path.join(HERE, kind, '*', 'patch.diff'))):
            ident = os.path.basename(os.path.dirname(d))
            try:
                prop = json.load(open(os.path.join(os.path.dirname(d), 'meta.json')))['property']
            except Exception:
                continue
            if only and prop != only.upper() and only not in ident:
                continue
            out.append({'name': f'{kind[:-2] if kind == "seeded" else "refactoring"} {ident}', 'prop': prop, 'expect': expect, 'patch': d})
    return out


def apply_edits(root, edits):
    """edits: list of (relpath, old, new). returns None or a 'stale' reason"""
    for (rel, old, new) in edits:
        p = os.path.join(root, rel)
        if not os.path.exists(p):
            return f'{rel} missing'
        s = open(p, encoding='utf-8').read()
        if s.count(old) != 1:
            return f'{rel}: anchor text occurs {s.count(old)} times'
        s = s.replace(old, new)
        try:
            compile(s, p, 'exec')
        except SyntaxError as e:
            return f'{rel}: variant does not compile: {e}'
        open(p, 'w', encoding='utf-8').write(s)
    return None


def run_variant(repo, v):
    tmp = tempfile.mkdtemp(prefix='ndnsa-')
    try:
        shutil.copytree(os.path.join(repo, 'src'), os.path.join(tmp, 'src'),
                        ignore=shutil.ignore_patterns('__pycache__', '*.pyc', '*.egg-info'))
        if os.path.isdir(os.path.join(repo, 'docs', 'src', 'lvs')):
            shutil.copytree(os.path.join(repo, 'docs', 'src', 'lvs'), os.path.join(tmp, 'docs', 'src', 'lvs'))
        if v.get('patch'):
            r = subprocess.run(['git', 'apply', v['patch']], cwd=tmp, capture_output=True, text=True)
            stale = None if r.returncode == 0 else 'patch does not apply: ' + r.stderr[-160:]
        else:
            stale = apply_edits(tmp, v['edits'])
        if stale:
            return {'name': v['name'], 'prop': v['prop'], 'expect': v['expect'], 'result': 'stale', 'detail': stale}
        env = dict(os.environ, VERIF_EVIDENCE_DIR=os.path.join(tmp, 'evidence'))
        r = subprocess.run([os.path.join(HERE, 'check'), v['prop'], '--repo', tmp, '--tier', 'quick'],
                           capture_output=True, text=True, env=env, timeout=300)
        out = r.stdout + r.stderr
        if v['expect'] == 'F':
            good = r.returncode == 1 and 'VIOLATION property=' + v['prop'] in out
            if good and v.get('ob'):
                good = (v['ob'] + ' ') in out or (v['ob'] + '-') in out
            res = 'detected' if good else ('analysis-error' if r.returncode == 2 else 'MISSED')
        else:
            res = 'silent' if r.returncode == 0 else ('analysis-error' if r.returncode == 2 else 'FALSE-ALARM')
        lines = [l for l in out.splitlines() if l.startswith(('  C', 'VIOLATION', 'ANALYSIS'))]
        return {'name': v['name'], 'prop': v['prop'], 'expect': v['expect'], 'result': res, 'rc': r.returncode,
                'detail': lines[:4], 'ob': v.get('ob')}
    finally:
        shutil.rmtree(tmp, ignore_errors=True)


def run_all(repo, jobs=16, only=None):
    vs = load_variants(only)
    t0 = time.time()
    with cf.ThreadPoolExecutor(max_workers=jobs) as ex:
        res = list(ex.map(lambda v: run_variant(repo, v), vs))
    return res, time.time() - t0


def summarise(res):
    s = {}
    for r in res:
        s[r['result']] = s.get(r['result'], 0) + 1
    return s


def main(repo, jobs=16, only=None):
    res, wall = run_all(repo, jobs, only)
    bad = 0
    for r in res:
        flag = '' if r['result'] in ('detected', 'silent') else '   <<<<<<'
        print(f"{r['prop']} {r['expect']} {r['name']:<58} {r['result']}{flag}")
        if flag:
            bad += 1
            det = r.get('detail') or []
            for l in ([det] if isinstance(det, str) else det):
                print('      ', l)
    print(f'{len(res)} variants, {summarise(res)}, {wall:.1f}s')
    return 1 if bad else 0


def sensitivity(prop, repo, jobs=16):
    """thorough tier: record the checker's sensitivity for this property in its evidence file (never changes exit code)"""
    evp = os.path.join(os.environ.get('VERIF_EVIDENCE_DIR') or os.path.join(HERE, 'evidence'), f'{prop}.json')
    try:
        res, wall = run_all(repo, jobs, prop)
        ev = json.load(open(evp))
        ev['coverage']['checker_sensitivity'] = {
            'variants': len(res), 'summary': summarise(res), 'wall_s': round(wall, 1),
            'cases': [{k: r[k] for k in ('name', 'expect', 'result')} for r in res]}
        ev['tier'] = 'thorough'
        json.dump(ev, open(evp, 'w'), indent=1, default=str)
        print(f'[{prop}] checker sensitivity: {summarise(res)} over {len(res)} scratch-copy variants ({wall:.1f}s)')
    except Exception as e:      # never affects the verdict
        print(f'[{prop}] sensitivity run skipped: {type(e).__name__}: {e}')
