"""Decision-table extraction (TBL, DESIGN §2.6): an if/elif/else chain on one scrutinee against constants is lifted
to an ordered list of arms with per-arm facts (returned size, struct format, marker byte, slice width, stream read
size). Used for VAR-NUMBER (C08.TBL.1, C06, C09) and NonNegativeInteger (C08.TBL.2, C07.TBL.1)."""
import ast
import struct

from .loader import AnalysisError, norm

FMT_WIDTH = {'B': 1, 'H': 2, 'I': 4, 'Q': 8}


def _const(e):
    if isinstance(e, ast.Constant) and isinstance(e.value, int) and not isinstance(e.value, bool):
        return e.value
    if isinstance(e, ast.BinOp) and isinstance(e.op, ast.Pow):
        a, b = _const(e.left), _const(e.right)
        if a is not None and b is not None and 0 <= b <= 16 and abs(a) <= 65536:
            return a ** b
    if isinstance(e, ast.BinOp) and isinstance(e.op, (ast.Add, ast.Sub, ast.Mult, ast.LShift)):
        # constant arithmetic (`1 + 2`, what a table-driven `1 + width` is once the table is read back)
        a, b = _const(e.left), _const(e.right)
        if a is not None and b is not None and not (isinstance(e.op, ast.LShift) and not 0 <= b <= 64):
            return {ast.Add: a + b, ast.Sub: a - b, ast.Mult: a * b, ast.LShift: a << b if 0 <= b <= 64 else 0}[type(e.op)]
    return None


def _cond(test):
    """(scrutinee_text, op, const) for `x <= C`, `x < C`, `x == C`, `C >= x` ...; None otherwise"""
    if isinstance(test, ast.Compare) and len(test.ops) == 1:
        l, r, op = test.left, test.comparators[0], test.ops[0]
        flip = {ast.Lt: ast.Gt, ast.LtE: ast.GtE, ast.Gt: ast.Lt, ast.GtE: ast.LtE, ast.Eq: ast.Eq}
        if _const(l) is not None and _const(r) is None and type(op) in flip:
            l, r, op = r, l, flip[type(op)]()
        c = _const(r)
        if c is None:
            return None
        s = ast.unparse(l)
        if isinstance(op, ast.LtE):
            return (s, '<=', c)
        if isinstance(op, ast.Lt):
            return (s, '<=', c - 1)
        if isinstance(op, ast.Eq):
            return (s, '==', c)
        if isinstance(op, ast.GtE):
            return (s, '>=', c)
        if isinstance(op, ast.Gt):
            return (s, '>=', c + 1)
    return None


def _leaves(s):
    """a statement that ends its arm: return / raise, or the exit of an expanded helper body"""
    return isinstance(s, (ast.Return, ast.Raise)) or type(s).__name__ == 'InlineExit'


def find_chain(fn, min_arms=3):
    """the first decision chain in fn with >= min_arms arms all testing one scrutinee against constants: either an
    if/elif/else statement, or (canonical form) consecutive `if c: ... return/raise` statements whose fall-through is the
    default arm. returns (scrutinee, [(op, const, body)], else_body)"""
    for node in ast.walk(fn):
        if not isinstance(node, ast.If):
            continue
        arms, scr = [], None
        cur = node
        while True:
            c = _cond(cur.test)
            if c is None or (scr is not None and c[0] != scr):
                arms = None
                break
            scr = c[0]
            arms.append((c[1], c[2], cur.body))
            if len(cur.orelse) == 1 and isinstance(cur.orelse[0], ast.If):
                cur = cur.orelse[0]
                continue
            else_body = cur.orelse
            break
        if arms and len(arms) + (1 if else_body else 0) >= min_arms:
            return scr, arms, else_body
    # flattened form
    for blk in _blocks(fn):
        for i, s in enumerate(blk):
            arms, scr = [], None
            j = i
            while j < len(blk) and isinstance(blk[j], ast.If) and not blk[j].orelse and _leaves(blk[j].body[-1]):
                c = _cond(blk[j].test)
                if c is None or (scr is not None and c[0] != scr):
                    break
                scr = c[0]
                arms.append((c[1], c[2], blk[j].body))
                j += 1
            else_body = blk[j:]
            # the last arm may be written as the negated guard: `if x != C: <default, leaves>` followed by the body of arm C
            if j < len(blk) and isinstance(blk[j], ast.If) and not blk[j].orelse and _leaves(blk[j].body[-1]) \
                    and isinstance(blk[j].test, ast.Compare) and len(blk[j].test.ops) == 1 and isinstance(blk[j].test.ops[0], ast.NotEq):
                eqt = ast.Compare(left=blk[j].test.left, ops=[ast.Eq()], comparators=blk[j].test.comparators)
                c = _cond(eqt)
                if c is not None and (scr is None or c[0] == scr) and blk[j + 1:]:
                    arms = arms + [(c[1], c[2], blk[j + 1:])]
                    else_body = blk[j].body
            if arms and len(arms) + (1 if else_body else 0) >= min_arms:
                return scr, arms, else_body
    return None


def _blocks(fn):
    out = [fn.body]
    for n in ast.walk(fn):
        if n is fn:
            continue
        for fld in ('body', 'orelse', 'finalbody'):
            b = getattr(n, fld, None)
            if isinstance(b, list) and b and isinstance(b[0], ast.stmt) and not isinstance(n, (ast.FunctionDef, ast.AsyncFunctionDef, ast.ClassDef)):
                out.append(b)
    return out


def arm_facts(body):
    f = {'ret': None, 'assign': {}, 'fmt': None, 'consts': [], 'slice_w': None, 'slice_off': None, 'read': None,
         'raises': False, 'ret_first': None}
    for s in body:
        for x in ast.walk(s):
            if isinstance(x, ast.Return) and x.value is not None:
                v = x.value
                if isinstance(v, ast.Tuple) and v.elts:
                    f['ret'] = _const(v.elts[-1])
                    f['ret_first'] = ast.unparse(v.elts[0])
                else:
                    f['ret'] = _const(v)
                    f['ret_first'] = ast.unparse(v)
            if isinstance(x, ast.Assign) and len(x.targets) == 1 and isinstance(x.targets[0], ast.Name) and _const(x.value) is not None:
                f['assign'][x.targets[0].id] = _const(x.value)
            if isinstance(x, ast.Assign) and len(x.targets) == 1 and isinstance(x.targets[0], ast.Name) and isinstance(x.value, ast.Constant) \
                    and isinstance(x.value.value, str) and f['fmt'] is None:
                # an arm that only *chooses* the struct format (the unpack / pack with it stands after the dispatch)
                import re as _re
                if _re.fullmatch(r'[!<>=@]?[BHIQ]{1,2}', x.value.value):
                    f['fmt'] = x.value.value
            if isinstance(x, ast.Raise):
                f['raises'] = True
            if isinstance(x, ast.Call):
                fn = ast.unparse(x.func)
                if fn in ('struct.pack_into', 'struct.pack', 'struct.unpack', 'struct.unpack_from') and x.args \
                        and isinstance(x.args[0], ast.Constant) and isinstance(x.args[0].value, str):
                    f['fmt'] = x.args[0].value
                    f['consts'] = [c for c in (_const(a) for a in x.args[1:]) if c is not None]
                    f['call'] = fn
                if fn == 'int.from_bytes':
                    f['from_bytes'] = True
                if isinstance(x.func, ast.Attribute) and x.func.attr == 'readexactly' and x.args:
                    f['read'] = _const(x.args[0])
            if isinstance(x, ast.Subscript) and isinstance(x.slice, ast.Slice) and x.slice.lower is not None and x.slice.upper is not None:
                lo, hi = _lin(x.slice.lower), _lin(x.slice.upper)
                if lo and hi and lo[0] == hi[0]:
                    f['slice_w'] = hi[1] - lo[1]
                    f['slice_off'] = lo[1]
    return f


def _lin(e):
    """e == base + k  ->  (base_text, k)   (any linear spelling: `off + 1 + 2`, `1 + off`)"""
    from .linexpr import lin, show, NotLinear
    try:
        d = lin(e)
    except NotLinear:
        return None
    k = d.pop(1, 0)
    if not d:
        return None
    return (show(d), k)


def fmt_widths(fmt):
    body = fmt.lstrip('!<>=@')
    try:
        return [FMT_WIDTH[c] for c in body]
    except KeyError:
        raise AnalysisError(f'unknown struct format {fmt!r}')


def _inline_arith_locals(fn):
    """copy of fn in which locals bound exactly once to pure arithmetic over names and constants (`start = offset + 1`) are read as
    their definition and the binding is dropped: the decision chain and its slices are then spelled as in the unhoisted form"""
    import copy
    fn = copy.deepcopy(fn)
    stores = {}
    for x in ast.walk(fn):
        if isinstance(x, ast.Name) and isinstance(x.ctx, (ast.Store, ast.Del)):
            stores[x.id] = stores.get(x.id, 0) + 1
    # a local bound in several arms to the same expression (a hoisted binding copied into each arm of a table read back as a chain)
    # counts as bound once
    same = {}
    for x in ast.walk(fn):
        if isinstance(x, ast.Assign) and len(x.targets) == 1 and isinstance(x.targets[0], ast.Name):
            same.setdefault(x.targets[0].id, []).append(ast.unparse(x.value))
    for nm, texts in same.items():
        if stores.get(nm) == len(texts) and len(set(texts)) == 1:
            stores[nm] = 1
    params = {a.arg for a in fn.args.posonlyargs + fn.args.args + fn.args.kwonlyargs}
    env = {}
    for x in ast.walk(fn):
        if isinstance(x, ast.Assign) and len(x.targets) == 1 and isinstance(x.targets[0], ast.Name) and stores.get(x.targets[0].id) == 1 \
                and x.targets[0].id not in params and isinstance(x.value, ast.BinOp) \
                and all(isinstance(y, (ast.Name, ast.Constant, ast.BinOp, ast.operator, ast.Load)) for y in ast.walk(x.value)) \
                and all(stores.get(y.id, 0) == 0 or y.id in params and stores.get(y.id, 0) == 0 for y in ast.walk(x.value) if isinstance(y, ast.Name)):
            env[x.targets[0].id] = x.value
    if not env:
        return fn

    class T(ast.NodeTransformer):
        def visit_Name(self, n):
            if isinstance(n.ctx, ast.Load) and n.id in env:
                return copy.deepcopy(env[n.id])
            return n

        def visit_Assign(self, n):
            if len(n.targets) == 1 and isinstance(n.targets[0], ast.Name) and n.targets[0].id in env:
                return None
            return self.generic_visit(n)
    fn = T().visit(fn)
    ast.fix_missing_locations(fn)
    return fn


def table_of(P, qual, min_arms=3):
    F = P.func(qual)
    ch = find_chain(_inline_arith_locals(F.node), min_arms)
    if ch is None:
        raise AnalysisError(f'{qual}: no decision chain on a single scrutinee found (TBL shape not recognised)')
    scr, arms, else_body = ch
    rows = [{'cond': (op, c), 'facts': arm_facts(body), 'line': body[0].lineno} for (op, c, body) in arms]
    if else_body:
        rows.append({'cond': ('else',), 'facts': arm_facts(else_body), 'line': else_body[0].lineno})
    return {'qual': qual, 'scrutinee': scr, 'rows': rows, 'site': F.loc()}


# ---------------------------------------------------------------------------------------------- VAR-NUMBER
VARNUM_FUNCS = ['get_tl_num_size', 'write_tl_num', 'parse_tl_num', 'read_tl_num_from_stream']
SPEC_VARNUM = [  # (max value, marker byte, payload width, total size)   NDN packet format 0.3, VAR-NUMBER
    (0xFC, None, 1, 1), (0xFFFF, 0xFD, 2, 3), (0xFFFFFFFF, 0xFE, 4, 5), (None, 0xFF, 8, 9)]


def varnum_tables(P, names=None):
    out = {}
    for f in (names or VARNUM_FUNCS):
        out[f] = table_of(P, 'ndn.encoding.tlv_var.' + f, 4)
    return out


def eval_size_fn(tab, v):
    """value of get_tl_num_size(v) according to the extracted table of the repository's own function"""
    for r in tab['rows']:
        c = r['cond']
        if c[0] == 'else' or (c[0] == '<=' and v <= c[1]) or (c[0] == '==' and v == c[1]) or (c[0] == '>=' and v >= c[1]):
            return r['facts']['ret']
    return None


def stream_read_profile(P):
    """fallback when read_tl_num_from_stream is not an if/elif chain: execute it for one representative first octet per
    VAR-NUMBER class and add up the bytes requested from the stream. -> {first_octet: total bytes read}"""
    F = P.func('ndn.encoding.tlv_var.read_tl_num_from_stream')
    size_tab = table_of(P, 'ndn.encoding.tlv_var.get_tl_num_size', 4)
    out = {}
    for first in (0x10, 0xFD, 0xFE, 0xFF):
        env = {}
        total = [0]
        nreads = [0]

        def ev(e):
            if isinstance(e, ast.Constant) and isinstance(e.value, int):
                return e.value
            if isinstance(e, ast.Name) and e.id in env:
                return env[e.id]
            if isinstance(e, ast.BinOp) and isinstance(e.op, (ast.Add, ast.Sub, ast.Mult)):
                a, b = ev(e.left), ev(e.right)
                if a is None or b is None:
                    return None
                return a + b if isinstance(e.op, ast.Add) else a - b if isinstance(e.op, ast.Sub) else a * b
            if isinstance(e, ast.Call) and ast.unparse(e.func).split('.')[-1] == 'get_tl_num_size' and e.args:
                a = ev(e.args[0])
                return None if a is None else eval_size_fn(size_tab, a)
            if isinstance(e, ast.Subscript) and isinstance(e.slice, ast.Constant) and e.slice.value == 0 and nreads[0] == 1:
                return first        # the first octet read from the stream
            if isinstance(e, ast.Constant) and isinstance(e.value, str):
                return e.value
            if isinstance(e, ast.Tuple):
                vs = [ev(x) for x in e.elts]
                return None if any(v is None for v in vs) else tuple(vs)
            if isinstance(e, ast.Subscript) and isinstance(e.value, ast.Dict) and all(k is not None for k in e.value.keys):
                # a lookup table indexed by an evaluated number (a missing key raises KeyError: no read is made)
                k = ev(e.slice)
                if k is None:
                    return None
                for kk, vv in zip(e.value.keys, e.value.values):
                    if ev(kk) == k:
                        return ev(vv)
                raise AnalysisError(f'read_tl_num_from_stream: the lookup table has no entry for first octet {first:#x}')
            if isinstance(e, ast.Subscript) and isinstance(ev(e.value), tuple) and isinstance(ev(e.slice), int):
                t_, i_ = ev(e.value), ev(e.slice)
                return t_[i_] if -len(t_) <= i_ < len(t_) else None
            if isinstance(e, ast.Compare) and len(e.ops) == 1 and isinstance(e.ops[0], (ast.In, ast.NotIn)) \
                    and isinstance(e.comparators[0], (ast.Dict, ast.Set, ast.Tuple, ast.List)):
                a = ev(e.left)
                c_ = e.comparators[0]
                ks = [ev(k) for k in (c_.keys if isinstance(c_, ast.Dict) else c_.elts)]
                if a is None or any(k is None for k in ks):
                    return None
                return (a in ks) == isinstance(e.ops[0], ast.In)
            if isinstance(e, ast.Compare) and len(e.ops) == 1:
                a, b = ev(e.left), ev(e.comparators[0])
                if a is None or b is None:
                    return None
                op = e.ops[0]
                return {ast.LtE: a <= b, ast.Lt: a < b, ast.Eq: a == b, ast.NotEq: a != b, ast.Gt: a > b, ast.GtE: a >= b}.get(type(op))
            return None

        def run(stmts):
            for s in stmts:
                for x in ast.walk(s):
                    if isinstance(x, ast.Call) and isinstance(x.func, ast.Attribute) and x.func.attr == 'readexactly' and not isinstance(s, ast.If):
                        n = ev(x.args[0]) if x.args else None
                        if n is None:
                            raise AnalysisError('read_tl_num_from_stream: cannot evaluate the size of a stream read')
                        total[0] += n
                        nreads[0] += 1
                if isinstance(s, ast.Assign) and len(s.targets) == 1 and isinstance(s.targets[0], ast.Name):
                    v = ev(s.value)
                    if v is not None:
                        env[s.targets[0].id] = v
                    else:
                        env.pop(s.targets[0].id, None)
                elif isinstance(s, ast.Assign) and len(s.targets) == 1 and isinstance(s.targets[0], ast.Tuple) and all(isinstance(t, ast.Name) for t in s.targets[0].elts):
                    v = ev(s.value)
                    for j, t in enumerate(s.targets[0].elts):
                        if isinstance(v, tuple) and len(v) == len(s.targets[0].elts) and v[j] is not None:
                            env[t.id] = v[j]
                        else:
                            env.pop(t.id, None)
                elif isinstance(s, ast.If):
                    c = ev(s.test)
                    if c is None:
                        raise AnalysisError(f'read_tl_num_from_stream: cannot evaluate `{ast.unparse(s.test)}` for first octet {first:#x}')
                    if run(s.body if c else s.orelse):
                        return True
                elif isinstance(s, ast.Return):
                    return True
                elif isinstance(s, (ast.For, ast.While, ast.Try, ast.With)):
                    raise AnalysisError('read_tl_num_from_stream: unsupported statement in the fallback executor')
            return False
        run(F.node.body)
        out[first] = total[0]
    return out


def varnum_rows(name, tab):
    """normalise a table to a list of 4 rows: dict(limit|marker_tested, marker_written, width, size)"""
    rows = []
    for r in tab['rows']:
        f = r['facts']
        d = {'cond': r['cond'], 'size': None, 'width': None, 'marker': None, 'line': r['line']}
        if name == 'get_tl_num_size':
            d['size'] = f['ret']
        elif name == 'write_tl_num':
            d['size'] = f['ret']
            if f['fmt']:
                ws = fmt_widths(f['fmt'])
                d['width'] = ws[-1]
                d['total_fmt'] = sum(ws)
                d['marker'] = f['consts'][0] if len(ws) == 2 and f['consts'] else None
                d['has_marker'] = len(ws) == 2
        elif name == 'parse_tl_num':
            d['size'] = f['ret']
            if f['fmt']:
                d['width'] = sum(fmt_widths(f['fmt']))
                d['slice_w'] = f['slice_w']
                d['slice_off'] = f['slice_off']
                d['checked'] = True      # struct.unpack raises struct.error on a short buffer
            elif f.get('from_bytes') and f['slice_w'] is not None:
                # int.from_bytes never complains about a short slice: the arm needs its own bounds test
                d['width'] = d['slice_w'] = f['slice_w']
                d['slice_off'] = f['slice_off']
                d['checked'] = f['raises']
            elif len(rows) == 0:
                d['width'] = 1
                d['checked'] = True
            else:
                raise AnalysisError(f'parse_tl_num: arm at line {r["line"]} reads the number in a way the table extractor does not know')
        elif name == 'read_tl_num_from_stream':
            if f['fmt']:
                d['width'] = sum(fmt_widths(f['fmt']))
                d['read'] = f['read']
            else:
                d['width'] = 1
        rows.append(d)
    return rows


def compare_varnum(tabs, only=None):
    """yield (what, a, b, ok, detail): each function against the spec and pairwise facts"""
    out = []
    names = [n for n in VARNUM_FUNCS if only is None or n in only]
    for n in names:
        rows = varnum_rows(n, tabs[n])
        okshape = len(rows) == 4
        out.append((f'{n}: 4 arms', n, 'VAR-NUMBER', okshape, f'{len(rows)} arms'))
        if not okshape:
            continue
        enc = n in ('get_tl_num_size', 'write_tl_num')
        for i, (r, (limit, marker, width, size)) in enumerate(zip(rows, SPEC_VARNUM)):
            # condition
            if enc:
                want = ('<=', limit) if limit is not None else ('else',)
            else:
                want = ('<=', 0xFC) if i == 0 else (('==', marker) if i < 3 else ('else',))
            alt = ('==', 0xFF) if (not enc and i == 3) else None
            okc = r['cond'] == want or (alt is not None and r['cond'] == alt)
            out.append((f'arm {i} condition', n, 'VAR-NUMBER', okc, f'{r["cond"]} vs {want}'))
            if r['size'] is not None or n in ('get_tl_num_size', 'write_tl_num', 'parse_tl_num'):
                out.append((f'arm {i} size', n, 'VAR-NUMBER', r['size'] == size, f'{r["size"]} vs {size}'))
            if n != 'get_tl_num_size':
                out.append((f'arm {i} payload width', n, 'VAR-NUMBER', r['width'] == width, f'{r["width"]} vs {width}'))
            if n == 'write_tl_num':
                if i == 0:
                    out.append((f'arm {i} no marker', n, 'VAR-NUMBER', not r.get('has_marker'), f'fmt has marker={r.get("has_marker")}'))
                else:
                    out.append((f'arm {i} marker byte', n, 'VAR-NUMBER', r['marker'] == marker, f'{r["marker"]} vs {marker}'))
            if n == 'parse_tl_num' and i > 0:
                out.append((f'arm {i} slice', n, 'VAR-NUMBER', r.get('slice_w') == width and r.get('slice_off') == 1,
                            f'slice [+{r.get("slice_off")}:+{(r.get("slice_off") or 0) + (r.get("slice_w") or 0)}] vs [+1:+{1 + width}]'))
                out.append((f'arm {i} truncated number refused', n, 'VAR-NUMBER', bool(r.get('checked')),
                            'the bytes are read without any check that the buffer holds them (a number cut off by the end of its parent decodes silently)'
                            if not r.get('checked') else 'fixed-width unpack / explicit bound'))
            if n == 'read_tl_num_from_stream' and i > 0:
                out.append((f'arm {i} stream read size', n, 'VAR-NUMBER', r.get('read') == width, f'{r.get("read")} vs {width}'))
    return out


# ---------------------------------------------------------------------------------------------- NonNegativeInteger
SPEC_UINT = [(0xFF, 1, 'B'), (0xFFFF, 2, 'H'), (0xFFFFFFFF, 4, 'I'), (None, 8, 'Q')]


def uint_tables(P):
    return {
        'pack_uint_bytes': table_of(P, 'ndn.encoding.tlv_var.pack_uint_bytes', 4),
        'UintField.encoded_length': table_of(P, 'ndn.encoding.tlv_model.UintField.encoded_length', 4),
        'UintField.encode_into': table_of(P, 'ndn.encoding.tlv_model.UintField.encode_into', 4),
        'UintField.parse_from': table_of(P, 'ndn.encoding.tlv_model.UintField.parse_from', 4),
    }


def compare_uint(tabs):
    out = []
    for n, tab in tabs.items():
        rows = tab['rows']
        if n == 'UintField.parse_from':
            ok5 = len(rows) == 5
            # (four arms without a default: the dispatch only chooses the format and the refusal of other widths stands after it - that part is
            #  decided by the exploration of C07.TBL.1 over the Lengths 0..17, whatever the shape)
            four = len(rows) == 4 and all(r_.get('cond', ('',))[0] == '==' for r_ in rows)
            out.append((f'{n}: 4 widths + refusing default', n, 'NonNegativeInteger', ok5 or four, f'{len(rows)} arms'))
            if not (ok5 or four):
                continue
            for i, (limit, width, ch) in enumerate(SPEC_UINT):
                r = rows[i]
                out.append((f'arm {i} width tested', n, 'NonNegativeInteger', r['cond'] == ('==', width), f'{r["cond"]} vs == {width}'))
                fm = r['facts']['fmt']
                out.append((f'arm {i} format', n, 'NonNegativeInteger', fm is not None and fm.lstrip('!') == ch, f'{fm} vs !{ch}'))
            if ok5:
                out.append(('other widths refused', n, 'NonNegativeInteger', rows[4]['cond'] == ('else',) and rows[4]['facts']['raises'],
                            'default arm raises' if rows[4]['facts']['raises'] else 'default arm does not raise'))
            continue
        ok4 = len(rows) == 4
        out.append((f'{n}: 4 arms', n, 'NonNegativeInteger', ok4, f'{len(rows)} arms'))
        if not ok4:
            continue
        for i, (limit, width, ch) in enumerate(SPEC_UINT):
            r = rows[i]
            f = r['facts']
            if n in ('pack_uint_bytes', 'UintField.encoded_length'):
                want = ('<=', limit) if limit is not None else ('else',)
            else:
                want = ('==', width) if i < 3 else ('else',)
            alt = ('==', 8) if n == 'UintField.encode_into' and i == 3 else None
            out.append((f'arm {i} condition', n, 'NonNegativeInteger', r['cond'] == want or r['cond'] == alt, f'{r["cond"]} vs {want}'))
            if n == 'pack_uint_bytes':
                out.append((f'arm {i} format', n, 'NonNegativeInteger', (f['fmt'] or '').lstrip('!') == ch, f'{f["fmt"]} vs !{ch}'))
            elif n == 'UintField.encoded_length':
                vals = list(f['assign'].values())
                out.append((f'arm {i} width', n, 'NonNegativeInteger', vals == [width], f'{vals} vs [{width}]'))
            elif n == 'UintField.encode_into':
                fm = (f['fmt'] or '').lstrip('!')
                out.append((f'arm {i} format', n, 'NonNegativeInteger', fm == 'B' + ch, f'{f["fmt"]} vs !B{ch}'))
                out.append((f'arm {i} length byte', n, 'NonNegativeInteger', f['consts'][:1] == [width], f'{f["consts"][:1]} vs [{width}]'))
    return out
