"""Exception-escape analysis (DESIGN §2.4a/b): for a function, the set of exception classes that may leave it,
each with a witness chain (call path -> file:line -> primitive). Handler filtering uses the real class hierarchy;
callee summaries are context-sensitive in call-site constants and Name kinds; nullable TLV fields and
unguarded future completions are primitive raisers. Unresolved internal calls are recorded (fail closed)."""
import ast

from .loader import AnalysisError, FuncT
from .models import models_of
from .tables import (EXT_RAISES, SAFE_ATTR_CALLS, USER_CALLBACKS, RECEIVER_TABLE, TRIE_VALUES, NAME_POLY,
                     NAME_LIBENCODED_PRODUCERS, NAME_FORMAL_PRODUCERS, MEASURING)


class Ctx:
    def __init__(self, consts=None, kinds=None):
        self.consts = consts or {}
        self.kinds = kinds or {}

    def key(self):
        return (tuple(sorted((k, repr(v)) for k, v in self.consts.items())), tuple(sorted(self.kinds.items())))


def terminates(body):
    return bool(body) and (isinstance(body[-1], (ast.Return, ast.Raise, ast.Continue, ast.Break)) or type(body[-1]).__name__ == 'InlineExit')


class Summary:
    def __init__(self):
        self.raises = {}      # (exc, sitekey) -> witness string
        self.unresolved = set()
        self.callees = set()
        self.ret_null = None     # None | bool | list[bool]: which returned positions may be None


class Esc:
    def __init__(self, P):
        self.P = P
        self.M = models_of(P)
        self.summ = {}
        self.inprog = set()
        self.n_calls = 0
        self.n_resolved = 0

    # ------------------------------------------------------------------ model helpers
    def field_info(self, mc, attr):
        """(kind, nullable, nested, elem) for attribute attr of class mc"""
        P = self.P
        if mc in P.classes and self.M.is_model(mc):
            f = self.M.field(mc, attr)
            if f is not None:
                nested = f.nested
                elem = f.elem.nested if f.elem is not None else None
                return (f.kind, f.nullable, nested, elem)
        r = P.find_member(mc[0], mc[1], attr) if mc in P.classes else None
        if r and r[0] == 'classann':
            ann = r[4]
            return ('ann', P.ann_nullable(ann) and not self._lifecycle_attr(mc, attr), P.ann_class(r[1], ann),
                    P.ann_elem_class(r[1], ann))
        return None

    def _lifecycle_attr(self, mc, attr):
        # nullable sources are limited to TLV model fields and to dataclasses returned by the parsers (DESIGN §2.4b)
        node = self.P.classes[mc]
        is_dc = any('dataclass' in ast.unparse(d) for d in node.decorator_list)
        return not is_dc

    # ------------------------------------------------------------------ analysis
    def analyze(self, q, ctx=None, fine=False):
        P = self.P
        ctx = ctx or Ctx()
        key = (q, ctx.key(), fine)
        if key in self.summ:
            return self.summ[key]
        if key in self.inprog:
            return Summary()
        self.inprog.add(key)
        F = P.func(q)
        if getattr(P, 'expansion_faults', {}).get(q):
            raise AnalysisError(P.expansion_faults[q])
        m, cls, fn, parent = F.mod, F.cls, F.node, F.parent
        S = Summary()
        res = S.raises
        env, elem = {}, {}
        kinds = dict(ctx.kinds)
        consts = dict(ctx.consts)
        a = fn.args
        allargs = a.posonlyargs + a.args + a.kwonlyargs
        tuple_params = set()
        dict_names = set()
        dictkinds = {}       # local dict -> name kind of its keys (from `d[k] = v` stores), copied along `d2 = d`
        if a.kwarg:
            dict_names.add(a.kwarg.arg)
        for arg in allargs:
            if arg.annotation is not None:
                t = P.ann_class(m, arg.annotation)
                if t:
                    env[arg.arg] = t
                et_ = P.ann_elem_class(m, arg.annotation)
                if et_:
                    elem[arg.arg] = et_         # `entries: list[StateVecEntry]` / `Iterable[StateVecEntry]`: the loop variable over it is typed
                txt = ast.unparse(arg.annotation)
                if txt.endswith('FormalName') and arg.arg not in kinds:
                    kinds[arg.arg] = 'FormalName'
                if self._is_tuple_ann(m, arg.annotation):
                    tuple_params.add(arg.arg)
                if txt.startswith(('dict', 'Dict')):
                    dict_names.add(arg.arg)
        if cls and allargs and allargs[0].arg in ('self', 'cls') and (m, cls) in P.classes:
            env[allargs[0].arg] = (m, cls)
        if parent:
            pf = P.func(parent)
            for arg in pf.node.args.args + pf.node.args.kwonlyargs:
                if arg.annotation is not None:
                    t = P.ann_class(pf.mod, arg.annotation)
                    if t and arg.arg not in env:
                        env[arg.arg] = t
                    if ast.unparse(arg.annotation).endswith('FormalName') and arg.arg not in kinds:
                        kinds[arg.arg] = 'FormalName'
            if pf.cls and (pf.mod, pf.cls) in P.classes:
                env.setdefault('self', (pf.mod, pf.cls))
            # closure variables with an annotation in the parent body (node: PrefixTreeNode = ...)
            for s in ast.walk(pf.node):
                if isinstance(s, ast.AnnAssign) and isinstance(s.target, ast.Name):
                    t = P.ann_class(pf.mod, s.annotation)
                    if t and s.target.id not in env:
                        env[s.target.id] = t

        path = F.path

        def add(exc, w, line):
            last = w.split(' :: ')[-1]
            k = (exc, (line, last) if fine else last)
            res.setdefault(k, w)

        def emit(exc, w, hs, line=0):
            for hnames in reversed(hs):
                if P.caught_by(exc, hnames):
                    return
            add(exc, w, line)

        # ----- typing of expressions
        def type_of(e):
            if isinstance(e, ast.Name):
                return env.get(e.id)
            if isinstance(e, ast.Await):
                return type_of(e.value)
            if isinstance(e, ast.Attribute):
                bt = type_of(e.value)
                if bt is None and isinstance(e.value, (ast.Name, ast.Attribute)):
                    # attribute read on the class itself (`Model.field` instead of `instance.field`): same descriptor object
                    rc = P.resolve(m, e.value)
                    if rc and rc[0] == 'class':
                        bt = (rc[1], rc[2])
                if bt and bt in P.classes:
                    fi = self.field_info(bt, e.attr)
                    if fi and fi[2]:
                        return fi[2]
                    for (mm, cc) in P.mro(*bt):
                        if (mm + '.' + cc, e.attr) in RECEIVER_TABLE:
                            return RECEIVER_TABLE[(mm + '.' + cc, e.attr)]
                    r = P.find_member(bt[0], bt[1], e.attr)
                    if r and r[0] == 'classann':
                        return P.ann_class(r[1], r[4])
                    if r and r[0] == 'classattr' and isinstance(r[4], ast.Call):
                        rr = P.resolve(r[1], r[4].func)
                        if rr and rr[0] == 'class':
                            return (rr[1], rr[2])
                    init = P.find_member(bt[0], bt[1], '__init__')
                    if init and init[0] == 'method':
                        anns = {a_.arg: a_.annotation for a_ in init[4].args.args + init[4].args.kwonlyargs
                                if a_.annotation is not None}
                        for s in ast.walk(init[4]):
                            if isinstance(s, ast.Assign) and isinstance(s.value, ast.Name) and s.value.id in anns:
                                for tg in s.targets:
                                    if isinstance(tg, ast.Attribute) and tg.attr == e.attr and isinstance(tg.value, ast.Name) \
                                            and tg.value.id == 'self':
                                        ann = anns[s.value.id]
                                        if isinstance(ann, ast.Subscript) and ast.unparse(ann.value) == 'type':
                                            ann = ann.slice
                                        t_ = P.ann_class(init[1], ann)
                                        if t_:
                                            return t_
                        for s in ast.walk(init[4]):
                            if isinstance(s, ast.Assign) and isinstance(s.value, ast.Call):
                                for tg in s.targets:
                                    if isinstance(tg, ast.Attribute) and tg.attr == e.attr and isinstance(tg.value, ast.Name) \
                                            and tg.value.id == 'self':
                                        rr = P.resolve(init[1], s.value.func)
                                        if rr and rr[0] == 'class':
                                            return (rr[1], rr[2])
                if e.attr == 'value' and isinstance(e.value, ast.Name) and e.value.id in step_tries:
                    return step_tries[e.value.id]
                return None
            if isinstance(e, ast.Subscript) and isinstance(e.value, ast.Attribute) and (m, e.value.attr) in TRIE_VALUES:
                return TRIE_VALUES[(m, e.value.attr)]
            if isinstance(e, ast.Subscript) and not isinstance(e.slice, ast.Slice):
                et = elem_type_of(e.value)
                if et:
                    return et
            if isinstance(e, ast.Call) and isinstance(e.func, ast.Attribute) and e.func.attr in ('setdefault', 'get') \
                    and isinstance(e.func.value, ast.Attribute) and (m, e.func.value.attr) in TRIE_VALUES:
                return TRIE_VALUES[(m, e.func.value.attr)]
            if isinstance(e, ast.Call) and isinstance(e.func, ast.Name) and e.func.id == 'cls' and cls:
                return (m, cls)
            if isinstance(e, ast.Call):
                r = P.resolve(m, e.func)
                if r and r[0] == 'class':
                    return (r[1], r[2])
                if r and r[0] in ('func', 'method'):
                    node = r[-1]
                    if node.returns is not None:
                        return P.ann_class(r[1], node.returns)
                if isinstance(e.func, ast.Attribute) and e.func.attr == 'parse':
                    rb = P.resolve(m, e.func.value)
                    if rb and rb[0] == 'class':
                        return (rb[1], rb[2])
                    if isinstance(e.func.value, ast.Name) and e.func.value.id == 'cls' and cls:
                        return (m, cls)
                    tb = type_of(e.func.value)      # self.model_type.parse(...)
                    if tb:
                        return tb
            return None

        def elem_type_of(e):
            if isinstance(e, ast.Name) and e.id in elem:
                return elem[e.id]
            if isinstance(e, ast.Subscript) and isinstance(e.slice, ast.Slice):
                return elem_type_of(e.value)        # a slice of a list has the same elements
            if isinstance(e, ast.Call) and isinstance(e.func, ast.Name) and e.func.id in ('list', 'tuple', 'reversed', 'sorted') and len(e.args) == 1:
                return elem_type_of(e.args[0])
            if isinstance(e, ast.Attribute):
                bt = type_of(e.value)
                if bt and bt in P.classes:
                    fi = self.field_info(bt, e.attr)
                    if fi and fi[3]:
                        return fi[3]
                    r = P.find_member(bt[0], bt[1], e.attr)
                    if r and r[0] == 'classann':
                        return P.ann_elem_class(r[1], r[4])
            return None

        step_tries = {}     # local var holding a trie step -> value class

        # ----- nullness
        nonnull = set()
        nullable_vars = {}

        def apath(e):
            if isinstance(e, ast.Name):
                return e.id
            if isinstance(e, ast.Attribute):
                b = apath(e.value)
                return b + '.' + e.attr if b else None
            return None

        getbind = {}      # local -> (mapping text, key text) when bound to mapping.get(key)

        def is_nullable(e):
            p = apath(e)
            if p and p in nonnull:
                return False
            if isinstance(e, ast.Name):
                return nullable_vars.get(e.id, False)
            if isinstance(e, ast.Attribute):
                bt = type_of(e.value)
                if bt and bt in P.classes:
                    fi = self.field_info(bt, e.attr)
                    if fi:
                        return fi[1]
            return False

        def facts(test, truth):
            out = set()
            if isinstance(test, ast.UnaryOp) and isinstance(test.op, ast.Not):
                return facts(test.operand, not truth)
            if isinstance(test, ast.BoolOp):
                if isinstance(test.op, ast.And) and truth:
                    for v in test.values:
                        out |= facts(v, True)
                if isinstance(test.op, ast.Or) and not truth:
                    for v in test.values:
                        out |= facts(v, False)
                return out
            if isinstance(test, ast.Compare) and len(test.ops) == 1 and isinstance(test.comparators[0], ast.Constant) \
                    and test.comparators[0].value is None:
                p = apath(test.left)
                if p:
                    if isinstance(test.ops[0], ast.IsNot) and truth:
                        out.add(p)
                    if isinstance(test.ops[0], ast.Is) and not truth:
                        out.add(p)
                return out
            if isinstance(test, ast.Compare) and len(test.ops) == 1 and isinstance(test.ops[0], ast.Is) and truth:
                # trie.get(k) is node  /  trie[k] is node   => k present
                l = test.left
                if isinstance(l, ast.Call) and isinstance(l.func, ast.Attribute) and l.func.attr == 'get' and l.args \
                        and not (isinstance(test.comparators[0], ast.Constant) and test.comparators[0].value is None):
                    out.add('in:' + ast.unparse(l.func.value) + ':' + ast.unparse(l.args[0]))
            if isinstance(test, ast.Compare) and len(test.ops) == 1 and isinstance(test.ops[0], ast.IsNot) and not truth:
                # the guard-clause form: `if trie.get(k) is not node: return` - past it, k is present
                l = test.left
                if isinstance(l, ast.Call) and isinstance(l.func, ast.Attribute) and l.func.attr == 'get' and l.args \
                        and not (isinstance(test.comparators[0], ast.Constant) and test.comparators[0].value is None):
                    out.add('in:' + ast.unparse(l.func.value) + ':' + ast.unparse(l.args[0]))
            if isinstance(test, ast.Compare) and len(test.ops) == 1 and isinstance(test.ops[0], ast.In) and truth:
                out.add('in:' + ast.unparse(test.comparators[0]) + ':' + ast.unparse(test.left))
            if isinstance(test, ast.Compare) and len(test.ops) == 1 and isinstance(test.ops[0], ast.NotIn) and not truth:
                out.add('in:' + ast.unparse(test.comparators[0]) + ':' + ast.unparse(test.left))
            if isinstance(test, ast.Call) and isinstance(test.func, ast.Attribute) and test.func.attr in ('done', 'cancelled'):
                if not truth:
                    out.add('done:' + str(apath(test.func.value)))
            p = apath(test)
            if p and truth:
                out.add(p)
                out.add('nonempty:' + p)
            # a truthy `m.get(k)` (directly, or through the local it was bound to) means k is present in m
            g = test
            if isinstance(g, ast.Compare) and len(g.ops) == 1 and isinstance(g.ops[0], ast.IsNot) and isinstance(g.comparators[0], ast.Constant) \
                    and g.comparators[0].value is None:
                g = g.left
            if truth and isinstance(g, ast.Name) and g.id in getbind:
                out.add('in:' + getbind[g.id][0] + ':' + getbind[g.id][1])
            if truth and isinstance(g, ast.Call) and isinstance(g.func, ast.Attribute) and g.func.attr == 'get' and len(g.args) == 1:
                out.add('in:' + ast.unparse(g.func.value) + ':' + ast.unparse(g.args[0]))
            return out

        def const_test(test):
            if isinstance(test, ast.UnaryOp) and isinstance(test.op, ast.Not):
                v = const_test(test.operand)
                return None if v is None else (not v)
            if isinstance(test, ast.Name) and test.id in consts:
                return bool(consts[test.id])
            if isinstance(test, ast.Compare) and len(test.ops) == 1 and isinstance(test.left, ast.Name) \
                    and test.left.id in consts and isinstance(test.comparators[0], ast.Constant) \
                    and test.comparators[0].value is None:
                isnone = consts[test.left.id] is None
                return isnone if isinstance(test.ops[0], ast.Is) else (not isnone)
            if isinstance(test, ast.Call) and isinstance(test.func, ast.Name) and test.args and isinstance(test.args[0], ast.Name):
                k = kinds.get(test.args[0].id)
                if k == 'FormalName':
                    if test.func.id == 'is_binary_str':
                        return False
                    if test.func.id == 'isinstance' and ast.unparse(test.args[1]) == 'str':
                        return False
                    if test.func.id == 'isinstance' and ast.unparse(test.args[1]) == 'Iterable':
                        return True
                if k == 'LibEncoded' and test.func.id == 'is_binary_str':
                    return True
            return None

        def kind_of_arg(e):
            if isinstance(e, ast.Name) and e.id in kinds:
                return kinds[e.id]
            if isinstance(e, ast.Call):
                qn = P.qual_of(P.resolve(m, e.func))
                if qn in NAME_LIBENCODED_PRODUCERS:
                    return 'LibEncoded'
                if qn in NAME_FORMAL_PRODUCERS:
                    return 'FormalName'
            if isinstance(e, ast.Attribute):
                bt = type_of(e.value)
                if bt and bt in P.classes:
                    fi = self.field_info(bt, e.attr)
                    if fi and fi[0] in ('NameField', 'InterestNameField'):
                        return 'FormalName'
            return None

        def call_targets(c):
            f = c.func
            if isinstance(f, (ast.IfExp, ast.BoolOp)):
                # `(a if t else b)(...)` / `(a or b)(...)`: any alternative may be the callee
                alts = [f.body, f.orelse] if isinstance(f, ast.IfExp) else list(f.values)
                qs, exts = [], []
                for a_ in alts:
                    q1, e1 = call_targets(ast.copy_location(ast.Call(func=a_, args=c.args, keywords=c.keywords), c))
                    qs += [x for x in q1 if x not in qs]
                    if e1:
                        exts.append(e1)
                bad = [e for e in exts if e.startswith('unresolved')]
                return qs, (bad[0] if bad else (exts[0] if exts else None))
            r = P.resolve(m, f)
            if r:
                if r[0] in ('func', 'method'):
                    return [P.qual_of(r)], None
                if r[0] == 'class':
                    init = P.find_member(r[1], r[2], '__init__')
                    return ([P.qual_of(init)] if init and init[0] == 'method' else []), ('ctor' if not init else None)
                if r[0] == 'ext':
                    return [], r[1]
            if isinstance(f, ast.Name):
                base = q
                while base:
                    if base + '.<' + f.id + '>' in P.funcs:
                        return [base + '.<' + f.id + '>'], None
                    base = P.funcs[base].parent
                if f.id in env and False:
                    pass
                return [], 'builtin.' + f.id
            if isinstance(f, ast.Attribute):
                if isinstance(f.value, ast.Call) and isinstance(f.value.func, ast.Name) and f.value.func.id == 'super' and cls:
                    for (bm, bc) in P.mro(m, cls)[1:]:
                        rr = P.find_member(bm, bc, f.attr)
                        if rr and rr[0] == 'method':
                            return [P.qual_of(rr)], None
                    return [], 'safe'
                if f.attr in USER_CALLBACKS:
                    return [], 'usercallback'
                if f.attr in ('set_result', 'set_exception'):
                    return [], 'asyncio.Future.' + f.attr
                if f.attr == 'decode' and isinstance(f.value, ast.Call) and getattr(f.value.func, 'id', '') == 'bytes':
                    return [], 'bytes.decode'
                if isinstance(f.value, ast.Name) and f.value.id in ('int', 'str', 'bytes', 'bytearray', 'dict', 'list') \
                        and f.attr in ('from_bytes', 'to_bytes', 'join', 'fromkeys', 'maketrans'):
                    return [], 'safe'
                if f.attr == 'readexactly':
                    return [], 'asyncio.StreamReader.readexactly'
                if f.attr in ('read', 'readline', 'readuntil') and 'reader' in ast.unparse(f.value):
                    return [], 'asyncio.StreamReader.read'
                if f.attr in ('has_node', 'has_key', 'has_subtrie') and isinstance(f.value, ast.Attribute) \
                        and (m, f.value.attr) in TRIE_VALUES:
                    return [], 'safe'      # pygtrie predicates: total
                if f.attr == 'fromhex' and isinstance(f.value, ast.Name) and f.value.id in ('bytes', 'bytearray'):
                    return [], f.value.id + '.fromhex'
                rt = type_of(f.value)
                if rt and rt in P.classes:
                    out = []
                    rr = P.find_member(rt[0], rt[1], f.attr)
                    if rr and rr[0] == 'method':
                        out.append(P.qual_of(rr))
                    for (sm, sc) in sorted(P.subclasses[rt]):
                        r2 = P.find_member(sm, sc, f.attr)
                        if r2 and r2[0] == 'method':
                            qn = P.qual_of(r2)
                            if qn not in out:
                                out.append(qn)
                    if out:
                        return out, None
                    if rr and rr[0] in ('classattr', 'classann'):
                        return [], 'usercallback' if f.attr in USER_CALLBACKS else 'safe'
                if f.attr in SAFE_ATTR_CALLS:
                    return [], 'safe'
                return [], 'unresolved.' + ast.unparse(f)
            return [], 'unresolved.' + ast.unparse(f)[:40]

        def do_call(c, hs, line):
            self.n_calls += 1
            targets, ext = call_targets(c)
            if not (ext and ext.startswith('unresolved')):
                self.n_resolved += 1
            if ext in EXT_RAISES:
                # int(x) only raises on text
                if ext == 'builtin.int' and c.args and isinstance(c.args[0], (ast.Constant, ast.BinOp, ast.Call)) and not (
                        isinstance(c.args[0], ast.Constant) and isinstance(c.args[0].value, str)):
                    pass
                else:
                    for e in sorted(EXT_RAISES[ext]):
                        emit(e, f'{path}:{line} {ext}', hs, line)
            if ext and ext.startswith('unresolved'):
                S.unresolved.add(f'{path}:{line} {ext}')
            if isinstance(c.func, ast.Attribute) and c.func.attr in ('set_result', 'set_exception'):
                p = apath(c.func.value)
                if ('done:' + str(p)) not in nonnull:
                    emit('asyncio.InvalidStateError', f'{path}:{line} {ast.unparse(c.func)}() on a possibly finished future', hs, line)
            fname = c.func.attr if isinstance(c.func, ast.Attribute) else getattr(c.func, 'id', '')
            if fname in MEASURING:
                for arg in c.args[:1]:
                    if is_nullable(arg):
                        emit('AttributeError' if fname == 'getattr' else 'TypeError',
                             f'{path}:{line} nullable {ast.unparse(arg)} passed to {fname}()', hs, line)
            for tq in targets:
                S.callees.add(tq)
                T = P.funcs[tq]
                tfn, tcls = T.node, T.cls
                cc, ck = {}, {}
                params = [x.arg for x in tfn.args.args]
                if tcls and params and params[0] in ('self', 'cls'):
                    params = params[1:]
                defaults = tfn.args.defaults
                allp = [x.arg for x in tfn.args.args]
                dmap = {}
                for i, d in enumerate(defaults):
                    dmap[allp[len(allp) - len(defaults) + i]] = d
                for kwa, kwd in zip(tfn.args.kwonlyargs, tfn.args.kw_defaults):
                    if kwd is not None:
                        dmap[kwa.arg] = kwd
                bound = {}
                for i, arg in enumerate(c.args):
                    if isinstance(arg, ast.Starred):
                        break
                    if i < len(params):
                        bound[params[i]] = arg
                for kw in c.keywords:
                    if kw.arg:
                        bound[kw.arg] = kw.value
                for pn in params + [x.arg for x in tfn.args.kwonlyargs]:
                    v = bound.get(pn, dmap.get(pn))
                    if isinstance(v, ast.Constant):
                        cc[pn] = v.value
                    if v is not None and pn in bound:
                        k = kind_of_arg(v)
                        if k:
                            ck[pn] = k
                if tq in NAME_POLY and params and params[0] in ck:
                    # kind-conditional summary: a FormalName / library-encoded name takes the total branch
                    continue
                sub = self.analyze(tq, Ctx(cc, ck))
                S.unresolved |= sub.unresolved
                for (e, site), w in sub.raises.items():
                    emit(e, f'{path}:{line} -> {tq} :: {w}', hs, line)

        def subscript(x, hs, line):
            v = x.value
            if isinstance(v, ast.Call) and isinstance(v.func, ast.Attribute) and v.func.attr in (
                    'unpack', 'unpack_from', 'split', 'fetchone', 'rsplit', 'partition'):
                return
            if isinstance(v, ast.Attribute) and v.attr == '_encoded_fields':
                return      # indices are loop-bounded by len(_encoded_fields) (DESIGN §2.4 table)
            if isinstance(v, ast.Call):
                r = P.resolve(m, v.func)
                if r and r[0] in ('func', 'method') and all(
                        isinstance(s.value, ast.Tuple) for s in ast.walk(r[-1]) if isinstance(s, ast.Return) and s.value is not None):
                    return
            vt = type_of(v)
            recv = ast.unparse(v)
            rc = P.resolve(m, v) if isinstance(v, (ast.Name, ast.Attribute)) else None
            key = ast.unparse(x.slice)
            if rc and rc[0] in ('const', 'classattr') and isinstance(rc[-1], ast.Dict):
                if ('in:' + recv + ':' + key) not in nonnull:
                    emit('KeyError', f'{path}:{line} constant dict lookup {ast.unparse(x)}', hs, line)
                return
            if (vt and vt[1] == 'NameTrie') or (isinstance(v, ast.Attribute) and (m, v.attr) in TRIE_VALUES):
                if ('in:' + recv + ':' + key) in nonnull or ('found:' + recv + ':' + key) in nonnull:
                    return
                emit('KeyError', f'{path}:{line} trie lookup {ast.unparse(x)}', hs, line)
            elif ('ensured:' + recv + ':' + key) in nonnull or ('in:' + recv + ':' + key) in nonnull:
                return
            elif (isinstance(v, ast.Name) and (v.id in dict_names or v.id in ('kwargs', 'markers', 'config'))) \
                    or recv.endswith(('__dict__', 'environ')) \
                    or (isinstance(x.slice, ast.Constant) and isinstance(x.slice.value, str)) \
                    or isinstance(x.slice, ast.JoinedStr):
                emit('KeyError', f'{path}:{line} dict lookup {ast.unparse(x)}', hs, line)
            elif isinstance(x.slice, (ast.UnaryOp, ast.Constant)) and ('nonempty:' + recv) in nonnull:
                return
            elif isinstance(v, ast.Name) and v.id in tuple_params and isinstance(x.slice, ast.Constant):
                return
            else:
                emit('IndexError', f'{path}:{line} subscript {ast.unparse(x)}', hs, line)

        def expr(node, hs, line):
            nonlocal nonnull
            if node is None:
                return
            if isinstance(node, ast.BoolOp):
                saved = set(nonnull)
                for v in node.values:
                    expr(v, hs, line)
                    nonnull = nonnull | facts(v, isinstance(node.op, ast.And))
                nonnull = saved
                return
            if isinstance(node, ast.IfExp):
                expr(node.test, hs, line)
                saved = set(nonnull)
                nonnull = saved | facts(node.test, True)
                expr(node.body, hs, line)
                nonnull = saved | facts(node.test, False)
                expr(node.orelse, hs, line)
                nonnull = saved
                return
            if isinstance(node, (ast.Lambda,) + FuncT):
                return
            if not isinstance(node, (ast.Name, ast.Constant)) and any(
                    isinstance(c, (ast.BoolOp, ast.IfExp)) for c in ast.walk(node) if c is not node):
                for c in ast.iter_child_nodes(node):
                    if isinstance(c, ast.expr):
                        expr(c, hs, line)
                    elif isinstance(c, (ast.keyword,)):
                        expr(c.value, hs, line)
                    elif isinstance(c, ast.comprehension):
                        expr(c.iter, hs, line)
                        for i_ in c.ifs:
                            expr(i_, hs, line)
                nodes = [node]
            else:
                nodes = [x for x in ast.walk(node) if not isinstance(x, ast.Lambda)]
            for x in nodes:
                if isinstance(x, ast.Subscript) and isinstance(x.ctx, ast.Load) and not isinstance(x.slice, ast.Slice):
                    subscript(x, hs, line)
                if isinstance(x, ast.Attribute) and isinstance(x.ctx, ast.Load):
                    # reading a UintField declared with an Enum base converts the stored number: Enum(value) raises ValueError for a number
                    # that is no member (IntFlag keeps unknown bits and does not)
                    bt_ = type_of(x.value)
                    if bt_ and bt_ in P.classes and self.M.is_model(bt_):
                        f_ = self.M.field(bt_, x.attr)
                        if f_ is not None and f_.base_type is not None:
                            rb = P.resolve(f_.mod, f_.base_type)
                            bases = [c_ for (_m, c_) in P.mro(rb[1], rb[2])] if rb and rb[0] == 'class' and (rb[1], rb[2]) in P.classes else []
                            ext = [ast.unparse(b_) for b_ in P.classes[(rb[1], rb[2])].bases] if rb and rb[0] == 'class' and (rb[1], rb[2]) in P.classes else []
                            if not any('IntFlag' in t_ for t_ in ext + bases):
                                emit('ValueError', f'{path}:{line} {ast.unparse(x)}: the stored number is converted with {ast.unparse(f_.base_type)}(..), which '
                                     'raises for a value that is no member', hs, line)
                if isinstance(x, ast.Attribute) and isinstance(x.ctx, ast.Load) and is_nullable(x.value):
                    emit('AttributeError', f'{path}:{line} attribute .{x.attr} of nullable {ast.unparse(x.value)}', hs, line)
                if isinstance(x, ast.Compare) and any(isinstance(o, (ast.Lt, ast.Gt, ast.LtE, ast.GtE)) for o in x.ops):
                    for side in [x.left] + x.comparators:
                        if is_nullable(side):
                            emit('TypeError', f'{path}:{line} ordering comparison with nullable {ast.unparse(side)}', hs, line)
                if isinstance(x, ast.BinOp) and isinstance(x.op, (ast.Add, ast.Sub, ast.Mult)):
                    for side in (x.left, x.right):
                        if is_nullable(side):
                            emit('TypeError', f'{path}:{line} arithmetic on nullable {ast.unparse(side)}', hs, line)
                if isinstance(x, ast.Call):
                    do_call(x, hs, line)

        def assign_types(s):
            if isinstance(s, ast.AnnAssign) and isinstance(s.target, ast.Name):
                t = P.ann_class(m, s.annotation)
                if t:
                    env[s.target.id] = t
                if s.value is not None and isinstance(s.value, (ast.Attribute, ast.Name)):
                    nullable_vars[s.target.id] = is_nullable(s.value)
                return
            if isinstance(s, ast.Assign) and len(s.targets) == 1 and isinstance(s.targets[0], ast.Name):
                v = s.targets[0].id
                t = type_of(s.value)
                if t:
                    env[v] = t
                et = elem_type_of(s.value)
                if et:
                    elem[v] = et
                k = kind_of_arg(s.value)
                if k:
                    kinds[v] = k
                else:
                    kinds.pop(v, None)
                if isinstance(s.value, (ast.Dict, ast.DictComp)):
                    dict_names.add(v)
                if isinstance(s.value, ast.Name) and s.value.id in dictkinds:
                    dictkinds[v] = dictkinds[s.value.id]
                elif isinstance(s.value, ast.Call) and isinstance(s.value.func, ast.Attribute) and s.value.func.attr == 'copy' \
                        and isinstance(s.value.func.value, ast.Name) and s.value.func.value.id in dictkinds:
                    dictkinds[v] = dictkinds[s.value.func.value.id]
                nullable_vars[v] = is_nullable(s.value) if isinstance(s.value, (ast.Attribute, ast.Name)) else False
                nonnull.discard(v)
                # trie steps
                if isinstance(s.value, ast.Call) and isinstance(s.value.func, ast.Attribute) \
                        and s.value.func.attr in ('longest_prefix', 'shortest_prefix') \
                        and isinstance(s.value.func.value, ast.Attribute) and (m, s.value.func.value.attr) in TRIE_VALUES:
                    step_tries[v] = TRIE_VALUES[(m, s.value.func.value.attr)]
            if isinstance(s, ast.Assign) and len(s.targets) == 1 and isinstance(s.targets[0], ast.Subscript) \
                    and isinstance(s.targets[0].value, ast.Name):
                k_ = kind_of_arg(s.targets[0].slice)
                if k_:
                    dictkinds[s.targets[0].value.id] = k_
            if isinstance(s, ast.Assign) and len(s.targets) == 1 and isinstance(s.targets[0], ast.Tuple) \
                    and isinstance(s.value, ast.Call):
                r = P.resolve(m, s.value.func)
                if r and r[0] == 'func' and r[2] in ('parse_interest', 'parse_data'):
                    first = s.targets[0].elts[0]
                    if isinstance(first, ast.Name):
                        kinds[first.id] = 'FormalName'
                elif isinstance(s.value.func, ast.Name) and not r:
                    # the decoder chosen beforehand into a local (`parser = parse_interest .. parser = parse_data`): every binding of the local is one
                    # of the packet decoders, whose first result is the decoded (formal) name
                    binds = [a_.value for a_ in ast.walk(fn) if isinstance(a_, ast.Assign) and len(a_.targets) == 1 and isinstance(a_.targets[0], ast.Name)
                             and a_.targets[0].id == s.value.func.id]
                    rs_ = [P.resolve(m, b_) if isinstance(b_, (ast.Name, ast.Attribute)) else None for b_ in binds]
                    if binds and all(r_ and r_[0] == 'func' and r_[2] in ('parse_interest', 'parse_data') for r_ in rs_):
                        first = s.targets[0].elts[0]
                        if isinstance(first, ast.Name):
                            kinds[first.id] = 'FormalName'
                tq = P.qual_of(r)
                if tq and tq in P.funcs and tq != q:
                    sub = self.analyze(tq)
                    if isinstance(sub.ret_null, list) and len(sub.ret_null) == len(s.targets[0].elts):
                        for tgt, nn in zip(s.targets[0].elts, sub.ret_null):
                            if isinstance(tgt, ast.Name):
                                nullable_vars[tgt.id] = nn
                                nonnull.discard(tgt.id)

        def block(body, hs):
            for s in body:
                stmt(s, hs)

        def stmt(s, hs):
            nonlocal nonnull
            if isinstance(s, FuncT + (ast.ClassDef,)):
                return
            if type(s).__name__ == 'InlineBlock':      # expanded helper body (sa/inline.py): a plain sequence for this analysis
                block(s.body, hs)
                return
            if type(s).__name__ == 'InlineExit':
                return
            if isinstance(s, ast.Raise):
                if s.exc is not None:
                    expr(s.exc, hs, s.lineno)
                    emit(P.exc_name(m, s.exc), f'{path}:{s.lineno} raise {ast.unparse(s.exc)[:60]}', hs, s.lineno)
                else:
                    for e in reraise[-1] if reraise else []:
                        emit(e, f'{path}:{s.lineno} re-raise', hs, s.lineno)
                return
            if isinstance(s, ast.Return):
                if s.value is not None:
                    expr(s.value, hs, s.lineno)
                    v = s.value

                    def nul(e):
                        return (isinstance(e, ast.Constant) and e.value is None) or \
                            (isinstance(e, (ast.Name, ast.Attribute)) and is_nullable(e))
                    cur = [nul(e) for e in v.elts] if isinstance(v, ast.Tuple) else nul(v)
                    old_ = S.ret_null
                    if old_ is None:
                        S.ret_null = cur
                    elif isinstance(old_, list) and isinstance(cur, list) and len(old_) == len(cur):
                        S.ret_null = [a_ or b_ for a_, b_ in zip(old_, cur)]
                    elif isinstance(old_, bool) and isinstance(cur, bool):
                        S.ret_null = old_ or cur
                    else:
                        S.ret_null = False
                return
            if isinstance(s, ast.Try):
                hn = []
                for h in s.handlers:
                    hn += P.handler_names(m, h)
                saved = set(nonnull)
                block(s.body, hs + [hn])
                after_body = set(nonnull)
                for h in s.handlers:
                    nonnull = set(saved)
                    reraise.append(P.handler_names(m, h))
                    block(h.body, hs)
                    reraise.pop()
                nonnull = after_body
                block(s.orelse, hs)
                block(s.finalbody, hs)
                return
            if isinstance(s, ast.If) and isinstance(s.test, ast.Compare) and len(s.test.ops) == 1 \
                    and isinstance(s.test.ops[0], ast.NotIn) and len(s.body) == 1 and isinstance(s.body[0], ast.Assign) \
                    and isinstance(s.body[0].targets[0], ast.Subscript) \
                    and ast.unparse(s.body[0].targets[0].value) == ast.unparse(s.test.comparators[0]) \
                    and ast.unparse(s.body[0].targets[0].slice) == ast.unparse(s.test.left) and not s.orelse:
                expr(s.body[0].value, hs, s.lineno)
                nonnull.add('ensured:' + ast.unparse(s.test.comparators[0]) + ':' + ast.unparse(s.test.left))
                return
            if isinstance(s, ast.If):
                expr(s.test, hs, s.lineno)
                ct = const_test(s.test)
                saved = set(nonnull)
                tfacts, ffacts = facts(s.test, True), facts(s.test, False)
                p = apath(s.test.operand) if isinstance(s.test, ast.UnaryOp) and isinstance(s.test.op, ast.Not) else apath(s.test)
                if p:
                    (ffacts if isinstance(s.test, ast.UnaryOp) else tfacts).add('nonempty:' + p)
                out_sets = []
                if ct is not False:
                    nonnull = saved | tfacts
                    block(s.body, hs)
                    if not terminates(s.body):
                        out_sets.append(set(nonnull))
                if ct is not True:
                    nonnull = saved | ffacts
                    block(s.orelse, hs)
                    if not terminates(s.orelse):
                        out_sets.append(set(nonnull))
                nonnull = set.intersection(*out_sets) if out_sets else set(saved)
                return
            if isinstance(s, (ast.For, ast.AsyncFor)):
                expr(s.iter, hs, s.lineno)
                if is_nullable(s.iter):
                    emit('TypeError', f'{path}:{s.lineno} iteration over nullable {ast.unparse(s.iter)}', hs, s.lineno)
                et = elem_type_of(s.iter)
                for tn in ast.walk(s.target):
                    if isinstance(tn, ast.Name):
                        nullable_vars.pop(tn.id, None)
                if et and isinstance(s.target, ast.Name):
                    env[s.target.id] = et
                # keys of a local dict keep the name kind they were stored with
                it_ = s.iter
                dn = None
                if isinstance(it_, ast.Name):
                    dn = it_.id
                elif isinstance(it_, ast.Call) and isinstance(it_.func, ast.Attribute) and it_.func.attr in ('items', 'keys') and isinstance(it_.func.value, ast.Name):
                    dn = it_.func.value.id
                if dn in dictkinds:
                    kt = s.target.elts[0] if isinstance(s.target, ast.Tuple) and it_ is not None and isinstance(it_, ast.Call) and it_.func.attr == 'items' else s.target
                    if isinstance(kt, ast.Name):
                        kinds[kt.id] = dictkinds[dn]
                if isinstance(s.iter, ast.Call) and isinstance(s.iter.func, ast.Attribute) \
                        and s.iter.func.attr in ('prefixes', 'itervalues', 'values') \
                        and isinstance(s.iter.func.value, ast.Attribute) and (m, s.iter.func.value.attr) in TRIE_VALUES:
                    tgt = s.target.elts[-1] if isinstance(s.target, ast.Tuple) else s.target
                    if isinstance(tgt, ast.Name):
                        env[tgt.id] = TRIE_VALUES[(m, s.iter.func.value.attr)]
                # a loop over a generator function of the repository: the kinds of the unpacked targets are those of what it yields - an element
                # read from a NameField of a TLV model is a decoded (formal) name
                if isinstance(s.iter, ast.Call) and isinstance(s.target, ast.Tuple):
                    gq = P.qual_of(P.resolve(m, s.iter.func))
                    gf = P.funcs.get(gq) if gq else None
                    if gf is not None:
                        ys = [y.value for y in ast.walk(gf.node) if isinstance(y, ast.Yield) and isinstance(y.value, ast.Tuple) and len(y.value.elts) == len(s.target.elts)]
                        if ys:
                            name_attrs = {f_.name for mc_, fl_ in self.M.all.items() for f_ in fl_ if f_.kind in ('NameField', 'InterestNameField')}
                            for i_, t_ in enumerate(s.target.elts):
                                if isinstance(t_, ast.Name) and all(isinstance(y.elts[i_], ast.Attribute) and y.elts[i_].attr in name_attrs for y in ys):
                                    kinds[t_.id] = 'FormalName'
                                    nullable_vars.pop(t_.id, None)
                                elif isinstance(t_, ast.Name) and all(isinstance(y.elts[i_], ast.Call) for y in ys):
                                    qs_ = {P.qual_of(P.resolve(gf.mod, y.elts[i_].func)) for y in ys}
                                    if qs_ <= set(NAME_LIBENCODED_PRODUCERS):
                                        kinds[t_.id] = 'LibEncoded'
                                    elif qs_ <= set(NAME_FORMAL_PRODUCERS):
                                        kinds[t_.id] = 'FormalName'
                saved = set(nonnull)
                # a suspension inside the loop invalidates done() facts established before it; handled conservatively
                block(s.body, hs)
                nonnull = saved
                block(s.orelse, hs)
                return
            if isinstance(s, ast.While):
                expr(s.test, hs, s.lineno)
                saved = set(nonnull)
                nonnull = saved | facts(s.test, True)
                block(s.body, hs)
                nonnull = saved
                block(s.orelse, hs)
                return
            if isinstance(s, (ast.With, ast.AsyncWith)):
                for it in s.items:
                    expr(it.context_expr, hs, s.lineno)
                if isinstance(s, ast.AsyncWith):
                    drop_done()
                block(s.body, hs)
                return
            if isinstance(s, ast.Delete):
                for t in s.targets:
                    if isinstance(t, ast.Subscript):
                        recv = ast.unparse(t.value)
                        key = ast.unparse(t.slice)
                        if ('iterkey:' + recv + ':' + key) in nonnull or ('found:' + recv + ':' + key) in nonnull \
                                or ('in:' + recv + ':' + key) in nonnull:
                            continue
                        emit('KeyError', f'{path}:{s.lineno} del {ast.unparse(t)}', hs, s.lineno)
                return
            if isinstance(s, ast.Assert):
                return
            for child in ast.iter_child_nodes(s):
                if isinstance(s, ast.AnnAssign) and child is s.annotation:
                    continue        # annotations of locals are never evaluated in function scope
                if isinstance(child, ast.expr):
                    expr(child, hs, s.lineno)
            if any(isinstance(x, (ast.Await, ast.Yield, ast.YieldFrom)) for x in ast.walk(s)):
                drop_done()
            assign_types(s)
            if isinstance(s, (ast.Assign, ast.AnnAssign)) and isinstance(s.value, ast.Subscript):
                nonnull.add('found:' + ast.unparse(s.value.value) + ':' + ast.unparse(s.value.slice))
            if isinstance(s, ast.Assign) and len(s.targets) == 1 and isinstance(s.targets[0], ast.Name):
                v_ = s.value
                if isinstance(v_, ast.Call) and isinstance(v_.func, ast.Attribute) and v_.func.attr == 'get' and len(v_.args) == 1:
                    getbind[s.targets[0].id] = (ast.unparse(v_.func.value), ast.unparse(v_.args[0]))
                else:
                    getbind.pop(s.targets[0].id, None)
            if isinstance(s, ast.Assign) and len(s.targets) == 1 and isinstance(s.targets[0], ast.Tuple) \
                    and isinstance(s.value, ast.Tuple) is False:
                # tuple unpack of a call result
                v = s.value.value if isinstance(s.value, ast.Await) else s.value
                if isinstance(v, ast.Call):
                    r = P.resolve(m, v.func)
                    n = len(s.targets[0].elts)
                    if r and r[0] in ('func', 'method'):
                        rets = [x for x in ast.walk(r[-1]) if isinstance(x, ast.Return) and x.value is not None]
                        if rets and not all(isinstance(x.value, ast.Tuple) and len(x.value.elts) == n for x in rets):
                            if not all(isinstance(x.value, (ast.Call, ast.Name, ast.Await)) for x in rets):
                                emit('ValueError', f'{path}:{s.lineno} tuple unpack of {ast.unparse(v.func)}()', hs, s.lineno)
                    elif isinstance(v.func, ast.Attribute) and v.func.attr == 'split':
                        if not (len(v.args) == 2 and isinstance(v.args[1], ast.Constant) and v.args[1].value == n - 1):
                            emit('ValueError', f'{path}:{s.lineno} tuple unpack of {ast.unparse(v)[:50]}', hs, s.lineno)

        def drop_done():
            nonlocal nonnull
            nonnull = {f for f in nonnull if not f.startswith('done:')}

        reraise = []
        # iteration-key facts: keys collected while iterating a trie, deleted afterwards without suspension
        for s in ast.walk(fn):
            if isinstance(s, ast.For) and isinstance(s.target, ast.Name) and isinstance(s.iter, ast.Name):
                lst = s.iter.id
                # the list must be filled only by append(<key of an iteration over the same mapping>)
                fills = [c for c in ast.walk(fn) if isinstance(c, ast.Call) and isinstance(c.func, ast.Attribute)
                         and c.func.attr == 'append' and isinstance(c.func.value, ast.Name) and c.func.value.id == lst]
                if not fills:
                    continue
                for d in ast.walk(s):
                    if isinstance(d, ast.Delete):
                        for t in d.targets:
                            if isinstance(t, ast.Subscript) and ast.unparse(t.slice) == s.target.id:
                                recv = ast.unparse(t.value)
                                okfill = False
                                for lp in ast.walk(fn):
                                    if isinstance(lp, ast.For) and isinstance(lp.iter, ast.Call) \
                                            and isinstance(lp.iter.func, ast.Attribute) \
                                            and ast.unparse(lp.iter.func.value) == recv \
                                            and lp.iter.func.attr in ('prefixes', 'items', 'iteritems', 'keys') \
                                            and not any(isinstance(x, ast.Await) for x in ast.walk(lp)):
                                        keyname = lp.target.elts[0].id if isinstance(lp.target, ast.Tuple) and isinstance(
                                            lp.target.elts[0], ast.Name) else (lp.target.id if isinstance(lp.target, ast.Name) else None)
                                        if keyname and all(len(c.args) == 1 and isinstance(c.args[0], ast.Name)
                                                           and c.args[0].id == keyname for c in fills):
                                            okfill = True
                                if okfill:
                                    nonnull.add('iterkey:' + recv + ':' + s.target.id)
        block(fn.body, [])
        self.inprog.discard(key)
        self.summ[key] = S
        return S

    def _is_tuple_ann(self, m, ann):
        txt = ast.unparse(ann)
        if txt.startswith(('tuple[', 'Tuple[')):
            return True
        r = self.P.resolve(m, ann) if isinstance(ann, (ast.Name, ast.Attribute)) else None
        if r and r[0] == 'const' and isinstance(r[3], ast.Subscript) and ast.unparse(r[3].value) in ('tuple', 'Tuple'):
            return True
        return False

    def closure(self, q):
        """all functions reachable from q through resolved calls (for the evidence)"""
        seen, todo = set(), [q]
        while todo:
            x = todo.pop()
            if x in seen:
                continue
            seen.add(x)
            for (qq, _, _), S in self.summ.items():
                if qq == x:
                    todo.extend(S.callees)
        return seen


_esc = {}


def esc_of(P):
    if id(P) not in _esc:
        _esc[id(P)] = Esc(P)
    return _esc[id(P)]


def short(exc):
    return exc.rsplit('.', 1)[-1] if exc.startswith('ndn.') else exc
