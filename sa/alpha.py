"""Local-variable names are not behaviour. For every function of the reference tree sa/baseline_funcs.json keeps
 (a) a hash of its canonical body with all local names abstracted (alpha form) together with the names in order of first
     occurrence, and
 (b) per local, a fingerprint of how it is first bound (abstracted defining statement).
When an analysed function is alpha-equivalent to its reference, its locals get the reference names back; otherwise locals
that are new are mapped to a vanished reference local with the same unique fingerprint. Rules can then go on naming
variables the way the reference code does. Never written back."""
import ast
import copy
import hashlib

FuncT = (ast.FunctionDef, ast.AsyncFunctionDef)


def scope_locals(fn):
    """names bound in fn or in functions nested in it (parameters, stores, handler names), minus declared globals"""
    names, glob = set(), set()
    for x in ast.walk(fn):
        if isinstance(x, ast.arg):
            names.add(x.arg)
        elif isinstance(x, ast.Name) and isinstance(x.ctx, (ast.Store, ast.Del)):
            names.add(x.id)
        elif isinstance(x, ast.ExceptHandler) and x.name:
            names.add(x.name)
        elif isinstance(x, ast.Global):
            glob |= set(x.names)
    names -= glob
    first = (fn.args.posonlyargs + fn.args.args)[:1]
    if first and first[0].arg in ('self', 'cls', 'mcs'):
        names.discard(first[0].arg)         # the bound receiver keeps its conventional name
    return names


def _ordered(fn):
    """(node, name) occurrences of local names in a fixed traversal order"""
    loc = scope_locals(fn)
    out = []

    def visit(n):
        if isinstance(n, ast.arg) and n.arg in loc:
            out.append((n, n.arg))
        elif isinstance(n, ast.Name) and n.id in loc:
            out.append((n, n.id))
        elif isinstance(n, ast.ExceptHandler) and n.name in loc:
            out.append((n, n.name))
        for c in ast.iter_child_nodes(n):
            visit(c)
    visit(fn)
    return out


def _strip(fn):
    f = copy.deepcopy(fn)
    f.name = '_'
    f.decorator_list = []
    f.returns = None
    for x in ast.walk(f):
        if isinstance(x, ast.arg):
            x.annotation = None
        if isinstance(x, FuncT) and x.body and isinstance(x.body[0], ast.Expr) and isinstance(x.body[0].value, ast.Constant) \
                and isinstance(x.body[0].value.value, str):
            x.body = x.body[1:] or [ast.Pass()]
        if isinstance(x, ast.AnnAssign):
            x.annotation = ast.Constant(0)
    return f


def alpha_form(fn):
    """(hash of the body with local names replaced by v0, v1, ... in order of first occurrence; the names in that order)"""
    f = _strip(fn)
    order, m = [], {}
    for (n, name) in _ordered(f):
        if name not in m:
            m[name] = f'v{len(order)}'
            order.append(name)
        if isinstance(n, ast.arg):
            n.arg = m[name]
        elif isinstance(n, ast.Name):
            n.id = m[name]
        else:
            n.name = m[name]
    for x in ast.walk(f):
        if isinstance(x, (ast.Nonlocal,)):
            x.names = [m.get(k, k) for k in x.names]
    return hashlib.sha1(ast.dump(f).encode()).hexdigest()[:16], order


def fingerprints(fn):
    """{local: hash of its first binding construct with every local abstracted to '_', plus its role}"""
    loc = scope_locals(fn)
    out = {}

    class A(ast.NodeTransformer):
        def visit_Name(self, n):
            return ast.Name(id='_', ctx=n.ctx) if n.id in loc else n

    def fp(kind, node, extra=''):
        return hashlib.sha1((kind + '|' + ast.dump(A().visit(copy.deepcopy(node))) + '|' + extra).encode()).hexdigest()[:12]
    args = fn.args.posonlyargs + fn.args.args + fn.args.kwonlyargs
    for i, a in enumerate(args):
        out.setdefault(a.arg, fp('param', ast.Constant(i)))
    for s in ast.walk(fn):
        if isinstance(s, ast.Assign):
            for t in s.targets:
                if isinstance(t, ast.Name):
                    out.setdefault(t.id, fp('assign', s.value))
                elif isinstance(t, (ast.Tuple, ast.List)):
                    for i, e in enumerate(t.elts):
                        if isinstance(e, ast.Name):
                            out.setdefault(e.id, fp('unpack', s.value, str(i)))
        elif isinstance(s, ast.AnnAssign) and isinstance(s.target, ast.Name) and s.value is not None:
            out.setdefault(s.target.id, fp('assign', s.value))
        elif isinstance(s, (ast.For, ast.AsyncFor)):
            if isinstance(s.target, ast.Name):
                out.setdefault(s.target.id, fp('for', s.iter))
            elif isinstance(s.target, (ast.Tuple, ast.List)):
                for i, e in enumerate(s.target.elts):
                    if isinstance(e, ast.Name):
                        out.setdefault(e.id, fp('forunpack', s.iter, str(i)))
        elif isinstance(s, (ast.With, ast.AsyncWith)):
            for it in s.items:
                if isinstance(it.optional_vars, ast.Name):
                    out.setdefault(it.optional_vars.id, fp('with', it.context_expr))
    return {k: v for k, v in out.items() if k in loc}


class _Ren(ast.NodeTransformer):
    def __init__(self, m):
        self.m = m

    def visit_Name(self, n):
        if n.id in self.m:
            n.id = self.m[n.id]
        return n

    def visit_arg(self, n):
        if n.arg in self.m:
            n.arg = self.m[n.arg]
        return n

    def visit_ExceptHandler(self, n):
        self.generic_visit(n)
        if n.name in self.m:
            n.name = self.m[n.name]
        return n

    def visit_Nonlocal(self, n):
        n.names = [self.m.get(k, k) for k in n.names]
        return n


def restore_names(P, ref):
    """ref: {qual: {'alpha': hash, 'names': [...], 'fp': {name: hash}}} from the baseline file. -> number of functions renamed"""
    n = 0
    done = set()
    for q, f in P.funcs.items():
        r = ref.get(q)
        if r is None or isinstance(f.node, ast.Lambda) or f.parent in done:
            continue
        h, order = alpha_form(f.node)
        m = {}
        if h == r['alpha'] and len(order) == len(r['names']):
            m = {a: b for a, b in zip(order, r['names']) if a != b}
        else:
            cur = fingerprints(f.node)
            have = set(cur)
            missing = {k: v for k, v in r['fp'].items() if k not in have}
            new = {k: v for k, v in cur.items() if k not in r['fp']}
            byfp = {}
            for k, v in missing.items():
                byfp.setdefault(v, []).append(k)
            newfp = {}
            for k, v in new.items():
                newfp.setdefault(v, []).append(k)
            pos = {}
            for (_, nm) in _ordered(f.node):
                pos.setdefault(nm, len(pos))
            refpos = {nm: i for i, nm in enumerate(r['names'])}
            for v, ks in newfp.items():
                old = byfp.get(v, [])
                if len(ks) == len(old) and ks:
                    # same number of vanished and new locals bound the same way: pair them in order of appearance
                    for a, b in zip(sorted(ks, key=lambda k: pos.get(k, 1 << 30)), sorted(old, key=lambda k: refpos.get(k, 1 << 30))):
                        m[a] = b
        if m and len(set(m.values())) == len(m) and not (set(m.values()) & (scope_locals(f.node) - set(m))):
            _Ren(m).visit(f.node)
            n += 1
            done.add(q)
    return n
