"""Static-analysis engine for python-ndn (pure stdlib, never imports the analysed package)."""
