"""Finite-domain evaluation of the tests on one verdict expression: for each value of the domain resolve
every test that mentions the verdict, prune the CFG accordingly, and ask which sinks stay reachable."""
import ast

from .loader import AnalysisError


def mentions(e, text):
    for x in ast.walk(e):
        if isinstance(x, (ast.Name, ast.Attribute, ast.Call, ast.Await, ast.Subscript)) and ast.unparse(x) == text:
            return True
    return False


def enum_members(P, qual):
    node = P.cls(qual)
    out = []
    for n in node.body:
        if isinstance(n, ast.Assign) and len(n.targets) == 1 and isinstance(n.targets[0], ast.Name) \
                and not n.targets[0].id.startswith('_'):
            out.append(n.targets[0].id)
    return out


def member_of(e, enum_name):
    """`ValidResult.PASS` / `types.ValidResult.PASS` -> 'PASS'"""
    if isinstance(e, ast.Attribute):
        base = ast.unparse(e.value)
        if base == enum_name or base.endswith('.' + enum_name):
            return e.attr
    return None


class EnumDomain:
    def __init__(self, enum_name, members):
        self.enum_name = enum_name
        self.values = list(members)

    def const(self, e):
        return member_of(e, self.enum_name)

    def truthy(self, v):
        return True          # plain Enum members are all truthy

    def eval(self, test, vartext, v):
        if ast.unparse(test) == vartext:
            return self.truthy(v)
        if isinstance(test, ast.Compare) and len(test.ops) == 1:
            l, r, op = test.left, test.comparators[0], test.ops[0]
            if ast.unparse(r) == vartext and isinstance(op, (ast.Eq, ast.NotEq, ast.Is, ast.IsNot)):
                l, r = r, l
            if ast.unparse(l) != vartext:
                return 'unknown' if mentions(test, vartext) else 'unrelated'
            if isinstance(op, (ast.Eq, ast.Is, ast.NotEq, ast.IsNot)):
                m = self.const(r)
                if m is None:
                    if isinstance(r, ast.Constant):
                        eq = False        # an enum member never equals a literal
                    else:
                        return 'unknown'
                else:
                    eq = (m == v)
                return eq if isinstance(op, (ast.Eq, ast.Is)) else (not eq)
            if isinstance(op, (ast.In, ast.NotIn)) and isinstance(r, (ast.Tuple, ast.List, ast.Set)):
                ms = [self.const(x) for x in r.elts]
                if any(m is None for m in ms):
                    return 'unknown'
                return (v in ms) if isinstance(op, ast.In) else (v not in ms)
            return 'unknown'
        return 'unknown' if mentions(test, vartext) else 'unrelated'


class BoolDomain:
    values = [True, False]

    def const(self, e):
        if isinstance(e, ast.Constant) and isinstance(e.value, bool):
            return e.value
        return None

    def eval(self, test, vartext, v):
        if ast.unparse(test) == vartext:
            return v
        if isinstance(test, ast.Compare) and len(test.ops) == 1 and ast.unparse(test.left) == vartext:
            r, op = test.comparators[0], test.ops[0]
            if isinstance(r, ast.Constant) and isinstance(r.value, bool) and isinstance(op, (ast.Eq, ast.Is, ast.NotEq, ast.IsNot)):
                eq = (r.value == v)
                return eq if isinstance(op, (ast.Eq, ast.Is)) else (not eq)
            if isinstance(r, ast.Constant) and r.value is None and isinstance(op, (ast.Is, ast.IsNot, ast.Eq, ast.NotEq)):
                return isinstance(op, (ast.IsNot, ast.NotEq))
            return 'unknown'
        return 'unknown' if mentions(test, vartext) else 'unrelated'


def pruned_edges(cx, vartext, domain, v):
    removed = set()
    for n in cx.cfg.nodes:
        if n.kind != 'test':
            continue
        r = domain.eval(n.ast, vartext, v)
        if r == 'unknown':
            raise AnalysisError(f'{cx.qual}: test `{ast.unparse(n.ast)}` on the verdict `{vartext}` has an unrecognised shape')
        if r is True:
            removed.add((n.id, False))
        elif r is False:
            removed.add((n.id, True))
    return removed


def accepting_set(cx, vartext, domain, sinks, start=None):
    """values of the verdict for which some sink stays reachable (from start, default entry)"""
    acc = []
    for v in domain.values:
        removed = pruned_edges(cx, vartext, domain, v)
        reach = cx.cfg.reachable(start, removed_edges=removed)
        if any(s.id in reach for s in sinks):
            acc.append(v)
    return acc


class StrDomain:
    """finite set of string values plus a fresh 'other' value for a scheme-like variable"""
    OTHER = '<other>'

    def __init__(self, values, probes=()):
        # probes: additional near-miss strings that are NOT legal values (expected to be refused like OTHER)
        self.values = list(values) + list(probes) + [self.OTHER]
        self.legal = list(values)

    def const(self, e):
        if isinstance(e, ast.Constant) and isinstance(e.value, str):
            return e.value
        return None

    def eval(self, test, vartext, v):
        if isinstance(test, ast.Compare) and len(test.ops) == 1:
            l, r, op = test.left, test.comparators[0], test.ops[0]
            if ast.unparse(r) == vartext and isinstance(op, (ast.Eq, ast.NotEq)):
                l, r = r, l
            if ast.unparse(l) != vartext:
                return 'unknown' if mentions(test, vartext) else 'unrelated'
            if isinstance(op, (ast.Eq, ast.NotEq)):
                c = self.const(r)
                if c is None:
                    return 'unknown'
                eq = (c == v)
                return eq if isinstance(op, ast.Eq) else (not eq)
            if isinstance(op, (ast.In, ast.NotIn)) and isinstance(r, (ast.Tuple, ast.List, ast.Set)):
                cs = [self.const(x) for x in r.elts]
                if any(c is None for c in cs):
                    return 'unknown'
                return (v in cs) if isinstance(op, ast.In) else (v not in cs)
            return 'unknown'
        if isinstance(test, ast.Call) and isinstance(test.func, ast.Attribute) and test.func.attr in ('startswith', 'endswith') \
                and ast.unparse(test.func.value) == vartext and test.args:
            a = test.args[0]
            cs = [self.const(x) for x in a.elts] if isinstance(a, ast.Tuple) else [self.const(a)]
            if any(c is None for c in cs):
                return 'unknown'
            return any(getattr(v, test.func.attr)(c) for c in cs)
        return 'unknown' if mentions(test, vartext) else 'unrelated'
