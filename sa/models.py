"""Static re-implementation of ndn.encoding.tlv_model.TlvModelMeta: the ordered field list of every TlvModel
subclass, with kinds, type numbers (constant-folded), defaults, nested models and flags."""
import ast

from .loader import AnalysisError, NOVALUE
from .tables import FIELD_KINDS

TLV = ('ndn.encoding.tlv_model', 'TlvModel')
ZERO_WIDTH = {'ProcedureArgument', 'OffsetMarker'}


class FieldRec:
    def __init__(self, name, kind, call, mod):
        self.name = name
        self.kind = kind
        self.call = call
        self.mod = mod          # module where the constructor call is written
        self.type = None
        self.default = None     # ast of default or None
        self.nested = None      # (mod, cls) for ModelField
        self.elem = None        # FieldRec for RepeatedField
        self.key = None
        self.value = None       # FieldRec for MapField
        self.ignore_critical = False
        self.is_string = False
        self.fixed_len = None
        self.base_type = None   # ast of val_base_type (UintField) when it is not int
        self.owner = None

    @property
    def wire(self):
        return self.kind not in ZERO_WIDTH

    @property
    def nullable(self):
        if self.kind in ('RepeatedField', 'MapField', 'ProcedureArgument', 'OffsetMarker'):
            return False
        d = self.default
        if d is not None and not (isinstance(d, ast.Constant) and d.value is None):
            return False
        return True

    def brief(self):
        return (self.name, self.kind, self.type)

    def __repr__(self):
        return f'<{self.kind} {self.name} type={self.type}>'


class Models:
    def __init__(self, P):
        self.P = P
        self._cache = {}
        self.all = {}
        for mc in sorted(P.classes):
            if mc != TLV and P.is_subclass(mc, TLV):
                self.all[mc] = self.extract(mc)

    def is_model(self, mc):
        return mc in self.all or mc == TLV

    def kind_of(self, call):
        if not isinstance(call, ast.Call):
            return None
        f = call.func
        name = f.attr if isinstance(f, ast.Attribute) else getattr(f, 'id', None)
        return name if name in FIELD_KINDS else None

    def const_int(self, m, e):
        v = self.P.const_value(m, e)
        return v if isinstance(v, int) and not isinstance(v, bool) else None

    def _arg(self, call, pos, kw):
        for k in call.keywords:
            if k.arg == kw:
                return k.value
        if pos is not None and len(call.args) > pos:
            return call.args[pos]
        return None

    def make(self, m, name, call):
        k = self.kind_of(call)
        r = FieldRec(name, k, call, m)
        if k in ZERO_WIDTH:
            r.type = -1
            r.default = self._arg(call, 0, 'default')
        elif k == 'NameField':
            r.default = self._arg(call, 0, 'default')
            t = self._arg(call, 1, 'type_number')
            r.type = self.const_int(m, t) if t is not None else 7
        elif k == 'InterestNameField':
            r.type = 7
            r.default = self._arg(call, 3, 'default')
        elif k == 'RepeatedField':
            inner = self._arg(call, 0, 'element_type')
            if self.kind_of(inner) is None:
                raise AnalysisError(f'{m}: RepeatedField element is not a field constructor: {ast.unparse(call)}')
            r.elem = self.make(m, name + '[]', inner)
            r.type = r.elem.type
        elif k == 'MapField':
            kt, vt = self._arg(call, 0, 'key_type'), self._arg(call, 1, 'value_type')
            if self.kind_of(kt) is None or self.kind_of(vt) is None:
                raise AnalysisError(f'{m}: MapField key/value is not a field constructor: {ast.unparse(call)}')
            r.key = self.make(m, name + '[k]', kt)
            r.value = self.make(m, name + '[v]', vt)
            r.type = r.key.type
        else:
            t = self._arg(call, 0, 'type_num')
            r.type = self.const_int(m, t) if t is not None else None
            if k in ('UintField', 'BytesField'):
                r.default = self._arg(call, 1, 'default')
            if k == 'UintField':
                fl = self._arg(call, 2, 'fixed_len')
                r.fixed_len = self.const_int(m, fl) if fl is not None else None
                bt = self._arg(call, 3, 'val_base_type')
                r.base_type = bt if bt is not None and ast.unparse(bt) != 'int' else None
            if k == 'BytesField':
                s = self._arg(call, 2, 'is_string')
                r.is_string = bool(isinstance(s, ast.Constant) and s.value)
            if k == 'ModelField':
                mt = self._arg(call, 1, 'model_type')
                r.nested = self.P.ann_class(m, mt) if mt is not None else None
                ic = self._arg(call, 4, 'ignore_critical')
                r.ignore_critical = bool(isinstance(ic, ast.Constant) and ic.value)
        if r.type is None:
            raise AnalysisError(f'{m}: cannot fold the type number of field {name}: {ast.unparse(call)[:80]}')
        return r

    def extract(self, mc):
        if mc in self._cache:
            return self._cache[mc]
        m, c = mc
        node = self.P.classes[mc]
        fields, index = [], {}

        def put(rec):
            if rec.name in index:
                fields[index[rec.name]] = rec
            else:
                index[rec.name] = len(fields)
                fields.append(rec)
        self._cache[mc] = fields
        for st in node.body:
            tgt = val = None
            if isinstance(st, ast.Assign) and len(st.targets) == 1 and isinstance(st.targets[0], ast.Name):
                tgt, val = st.targets[0].id, st.value
            elif isinstance(st, ast.AnnAssign) and isinstance(st.target, ast.Name) and st.value is not None:
                tgt, val = st.target.id, st.value
            if tgt is None or tgt.startswith('__') or not isinstance(val, ast.Call):
                continue
            fn = val.func
            fname = fn.attr if isinstance(fn, ast.Attribute) else getattr(fn, 'id', None)
            if fname == 'IncludeBase':
                b = self.P.resolve(m, val.args[0])
                if not (b and b[0] == 'class'):
                    raise AnalysisError(f'{m}.{c}: IncludeBase target unresolved')
                for rec in self.extract((b[1], b[2])):
                    put(rec)
            elif self.kind_of(val):
                rec = self.make(m, tgt, val)
                rec.owner = mc
                put(rec)
        return fields

    def fields(self, qual_or_mc):
        mc = tuple(qual_or_mc.rsplit('.', 1)) if isinstance(qual_or_mc, str) else qual_or_mc
        if mc not in self.all:
            raise AnalysisError(f'anchor vanished: TLV model {mc} not found')
        return self.all[mc]

    def field(self, mc, attr):
        """field record for attribute `attr` of model class mc (searching bases through the MRO), or None"""
        for (mm, cc) in self.P.mro(*mc):
            if (mm, cc) in self.all:
                for f in self.all[(mm, cc)]:
                    if f.name == attr:
                        return f
        return None


_models = {}


def models_of(P):
    if id(P) not in _models:
        _models[id(P)] = Models(P)
    return _models[id(P)]
