"""Tiny linear-expression normaliser (SIZ, DESIGN §2.6): an arithmetic expression over +, -, integer constants and
opaque atoms (names, attribute reads, calls - arguments normalised recursively) becomes a canonical
dict atom -> coefficient; comparison is equality of normal forms. No solver."""
import ast


class NotLinear(Exception):
    pass


def _add(a, b, k=1):
    out = dict(a)
    for t, c in b.items():
        out[t] = out.get(t, 0) + k * c
        if out[t] == 0:
            del out[t]
    return out


def lin(e, subst=None, depth=0):
    """subst: name -> ast expr (single reaching definition) to inline"""
    subst = subst or {}
    if depth > 20:
        raise NotLinear('too deep')
    if isinstance(e, ast.Constant) and isinstance(e.value, int) and not isinstance(e.value, bool):
        return {1: e.value} if e.value else {}
    if isinstance(e, ast.BinOp) and isinstance(e.op, (ast.Add, ast.Sub)):
        return _add(lin(e.left, subst, depth + 1), lin(e.right, subst, depth + 1), 1 if isinstance(e.op, ast.Add) else -1)
    if isinstance(e, ast.UnaryOp) and isinstance(e.op, ast.USub):
        return _add({}, lin(e.operand, subst, depth + 1), -1)
    if isinstance(e, ast.BinOp) and isinstance(e.op, ast.Mult):
        l, r = lin(e.left, subst, depth + 1), lin(e.right, subst, depth + 1)
        if set(l) <= {1}:
            return {t: c * l.get(1, 0) for t, c in r.items() if c * l.get(1, 0)}
        if set(r) <= {1}:
            return {t: c * r.get(1, 0) for t, c in l.items() if c * r.get(1, 0)}
        raise NotLinear(ast.unparse(e))
    if isinstance(e, ast.Name):
        if e.id in subst:
            return lin(subst[e.id], {k: v for k, v in subst.items() if k != e.id}, depth + 1)
        return {e.id: 1}
    if isinstance(e, ast.Call):
        fn = ast.unparse(e.func).split('.')[-1]
        args = []
        for a in e.args:
            try:
                args.append(show(lin(a, subst, depth + 1)))
            except NotLinear:
                args.append(ast.unparse(a))
        return {f'{fn}({", ".join(args)})': 1}
    if isinstance(e, (ast.Attribute, ast.Subscript)):
        return {ast.unparse(e): 1}
    raise NotLinear(ast.unparse(e))


def show(d):
    if not d:
        return '0'
    parts = []
    for t in sorted(d, key=str):
        c = d[t]
        if t == 1:
            parts.append(str(c))
        elif c == 1:
            parts.append(str(t))
        else:
            parts.append(f'{c}*{t}')
    return ' + '.join(parts)


def eq(a, b):
    return a == b
