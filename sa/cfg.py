"""Statement-level control flow graph for one Python function, with short-circuit tests split into
separate test nodes (labelled True/False edges), exception edges to enclosing handlers, loops, with,
try/except/else/finally, and the queries the rules need: reachability with removed nodes/edges
(must-pass-through), dominators, reaching definitions."""
import ast
import itertools

FuncT = (ast.FunctionDef, ast.AsyncFunctionDef)


class Node:
    __slots__ = ('id', 'kind', 'ast', 'label', 'succ', 'pred', 'in_handlers', 'stmt', 'negated')

    def __init__(self, nid, kind, a=None, label=''):
        self.id = nid
        self.kind = kind      # entry exit raise_exit falloff stmt test for with handler return raise def
        self.ast = a
        self.label = label
        self.succ = []        # (node, edge_label)   edge_label in (None, True, False, 'exc')
        self.pred = []
        self.in_handlers = ()  # stack of ExceptHandler lists active at this node (innermost last)
        self.stmt = None      # enclosing statement (for test nodes: the If/While; else the statement itself)
        self.negated = False

    def __repr__(self):
        return f'<{self.id}:{self.kind}:{self.label[:50]}>'

    @property
    def lineno(self):
        return getattr(self.ast, 'lineno', None) or getattr(self.stmt, 'lineno', 0)

    def exprs(self):
        """expression roots evaluated *at* this node"""
        a = self.ast
        if a is None:
            return []
        k = self.kind
        if k == 'test':
            return [a]
        if k == 'for':
            return [a.iter]
        if k == 'with':
            return [i.context_expr for i in a.items]
        if k in ('handler', 'def'):
            return []
        if k == 'return':
            return [a.value] if a.value is not None else []
        if k == 'raise':
            return [x for x in (a.exc, a.cause) if x is not None]
        if k == 'stmt':
            return [a]
        return []

    def walk(self):
        """all ast nodes evaluated at this CFG node, not descending into nested defs / lambdas"""
        for root in self.exprs():
            yield from walk_shallow(root)

    def calls(self):
        return [x for x in self.walk() if isinstance(x, ast.Call)]

    def has_await(self):
        if self.kind == 'for' and isinstance(self.stmt, ast.AsyncFor):
            return True
        if self.kind == 'with' and isinstance(self.stmt, ast.AsyncWith):
            return True
        return any(isinstance(x, (ast.Await, ast.Yield, ast.YieldFrom)) for x in self.walk())


def walk_shallow(root):
    todo = [root]
    while todo:
        n = todo.pop()
        yield n
        for c in ast.iter_child_nodes(n):
            if isinstance(c, FuncT + (ast.Lambda, ast.ClassDef)):
                continue
            if isinstance(n, ast.AnnAssign) and c is n.annotation:
                continue        # annotations of locals are never evaluated in function scope
            todo.append(c)


def walk_function(fn):
    """all ast nodes in the body of fn, not descending into nested function / class definitions"""
    for s in fn.body:
        if isinstance(s, FuncT + (ast.ClassDef,)):
            continue
        yield from walk_shallow(s)


class CFG:
    def __init__(self, fn):
        self.fn = fn
        self._ids = itertools.count()
        self.nodes = []
        self.loop_stack = []      # (head, break_list)
        self.inline_stack = []    # exits of expanded helper bodies
        self.try_stack = []       # list of handler-node lists
        self.handler_ctx = []     # ExceptHandler ast currently being built inside
        self.entry = self.new('entry', None, '<entry>')
        self.exit = self.new('exit', None, '<exit>')
        self.raise_exit = self.new('raise_exit', None, '<raise>')
        ends = self.block(fn.body, [(self.entry, None)])
        self.falloff = self.new('falloff', None, '<fall off end>')
        self.link(ends, self.falloff)
        self._edge(self.falloff, self.exit, None)
        for n in self.nodes:
            for (s, l) in n.succ:
                s.pred.append((n, l))
        self._dom = None
        self._rd = None

    # ------------------------------------------------------------------ construction
    def new(self, kind, a=None, label='', stmt=None):
        n = Node(next(self._ids), kind, a, label)
        n.stmt = stmt if stmt is not None else a
        n.in_handlers = tuple(self.handler_ctx)
        self.nodes.append(n)
        return n

    def _edge(self, a, b, l):
        if (b, l) not in a.succ:
            a.succ.append((b, l))

    def link(self, preds, node):
        for (p, l) in preds:
            self._edge(p, node, l)

    def exc_edges(self, n):
        """may-raise edges from n to every handler of every enclosing try (inner first), and out"""
        for hs in reversed(self.try_stack):
            for h in hs:
                self._edge(n, h, 'exc')
        self._edge(n, self.raise_exit, 'exc')

    def cond(self, test, preds, stmt):
        if isinstance(test, ast.BoolOp):
            if isinstance(test.op, ast.And):
                t_ex, f_all = preds, []
                for v in test.values:
                    t_ex, f_ex = self.cond(v, t_ex, stmt)
                    f_all += f_ex
                return t_ex, f_all
            f_ex, t_all = preds, []
            for v in test.values:
                t_ex, f_ex = self.cond(v, f_ex, stmt)
                t_all += t_ex
            return t_all, f_ex
        if isinstance(test, ast.UnaryOp) and isinstance(test.op, ast.Not):
            t, f = self.cond(test.operand, preds, stmt)
            return f, t
        n = self.new('test', test, ast.unparse(test), stmt)
        self.link(preds, n)
        self.exc_edges(n)
        return [(n, True)], [(n, False)]

    def block(self, body, preds):
        for s in body:
            preds = self.stmt(s, preds)
        return preds

    def stmt(self, s, preds):
        if isinstance(s, FuncT + (ast.ClassDef,)):
            n = self.new('def', s, 'def ' + s.name)
            self.link(preds, n)
            return [(n, None)]
        if isinstance(s, ast.If):
            t, f = self.cond(s.test, preds, s)
            return self.block(s.body, t) + self.block(s.orelse, f)
        if isinstance(s, ast.While):
            head = self.new('stmt', None, 'while-head', s)
            self.link(preds, head)
            if isinstance(s.test, ast.Constant) and s.test.value is True:
                t, f = [(head, None)], []
            else:
                t, f = self.cond(s.test, [(head, None)], s)
            brk = []
            self.loop_stack.append((head, brk))
            ends = self.block(s.body, t)
            self.loop_stack.pop()
            self.link(ends, head)
            return self.block(s.orelse, f) + brk
        if isinstance(s, (ast.For, ast.AsyncFor)):
            head = self.new('for', s, 'for ' + ast.unparse(s.target) + ' in ' + ast.unparse(s.iter), s)
            self.link(preds, head)
            self.exc_edges(head)
            brk = []
            self.loop_stack.append((head, brk))
            ends = self.block(s.body, [(head, True)])
            self.loop_stack.pop()
            self.link(ends, head)
            return self.block(s.orelse, [(head, False)]) + brk
        if type(s).__name__ == 'InlineBlock':
            # expanded helper body: `InlineExit` jumps to the end of the block
            ex = []
            self.inline_stack.append(ex)
            ends = self.block(s.body, preds)
            self.inline_stack.pop()
            return ends + ex
        if type(s).__name__ == 'InlineExit':
            n = self.new('stmt', None, 'inline-exit', s)
            self.link(preds, n)
            self.inline_stack[-1].append((n, None))
            return []
        if isinstance(s, ast.Break):
            n = self.new('stmt', s, 'break')
            self.link(preds, n)
            self.loop_stack[-1][1].append((n, None))
            return []
        if isinstance(s, ast.Continue):
            n = self.new('stmt', s, 'continue')
            self.link(preds, n)
            self._edge(n, self.loop_stack[-1][0], None)
            return []
        if isinstance(s, ast.Return):
            n = self.new('return', s, ast.unparse(s))
            self.link(preds, n)
            if s.value is not None and not isinstance(s.value, (ast.Constant, ast.Name)):
                self.exc_edges(n)
            self._edge(n, self.exit, None)
            return []
        if isinstance(s, ast.Raise):
            n = self.new('raise', s, ast.unparse(s))
            self.link(preds, n)
            self.exc_edges(n)
            return []
        if isinstance(s, ast.Try):
            hnodes = [self.new('handler', h, 'except ' + (ast.unparse(h.type) if h.type else ''), h) for h in s.handlers]
            self.try_stack.append(hnodes)
            ends = self.block(s.body, preds)
            self.try_stack.pop()
            ends = self.block(s.orelse, ends)
            for h, hn in zip(s.handlers, hnodes):
                self.handler_ctx.append(h)
                ends = ends + self.block(h.body, [(hn, None)])
                self.handler_ctx.pop()
            if s.finalbody:
                ends = self.block(s.finalbody, ends)
            return ends
        if isinstance(s, (ast.With, ast.AsyncWith)):
            n = self.new('with', s, 'with ' + ', '.join(ast.unparse(i.context_expr) for i in s.items), s)
            self.link(preds, n)
            self.exc_edges(n)
            return self.block(s.body, [(n, None)])
        if isinstance(s, ast.Match):
            n = self.new('stmt', s.subject, 'match ' + ast.unparse(s.subject), s)
            self.link(preds, n)
            ends = [(n, None)]
            out = []
            for c in s.cases:
                out += self.block(c.body, [(n, None)])
            return out + ends
        n = self.new('stmt', s, ast.unparse(s).split('\n')[0])
        self.link(preds, n)
        if not isinstance(s, (ast.Pass, ast.Global, ast.Nonlocal, ast.Import, ast.ImportFrom)):
            self.exc_edges(n)
        return [(n, None)]

    # ------------------------------------------------------------------ queries
    def reachable(self, start=None, removed_nodes=(), removed_edges=(), follow_exc=True):
        """set of node ids reachable from start; removed_edges holds (node_id, label) pairs"""
        start = start or self.entry
        rn = {n.id if isinstance(n, Node) else n for n in removed_nodes}
        seen, todo = set(), [start]
        while todo:
            n = todo.pop()
            if n.id in seen or n.id in rn:
                continue
            seen.add(n.id)
            for (m, l) in n.succ:
                if (n.id, l) in removed_edges:
                    continue
                if l == 'exc' and not follow_exc:
                    continue
                todo.append(m)
        return seen

    def find(self, pred):
        return [n for n in self.nodes if pred(n)]

    def path_exists(self, src, dst, removed_nodes=(), removed_edges=(), follow_exc=True):
        return dst.id in self.reachable(src, removed_nodes, removed_edges, follow_exc)

    def dominators(self):
        if self._dom is not None:
            return self._dom
        reach = self.reachable()
        nodes = [n for n in self.nodes if n.id in reach]
        allids = {n.id for n in nodes}
        dom = {n.id: set(allids) for n in nodes}
        dom[self.entry.id] = {self.entry.id}
        changed = True
        while changed:
            changed = False
            for n in nodes:
                if n is self.entry:
                    continue
                ps = [dom[p.id] for (p, _) in n.pred if p.id in reach]
                new = set.intersection(*ps) if ps else set()
                new = new | {n.id}
                if new != dom[n.id]:
                    dom[n.id] = new
                    changed = True
        self._dom = dom
        return dom

    def dominates(self, a, b):
        return a.id in self.dominators().get(b.id, ())

    # ------------------------------------------------------------------ reaching definitions
    def defs_of(self, n):
        """names (simple local names) defined at CFG node n -> list of (name, value_ast_or_None)"""
        out = []
        a = n.ast

        def targets(t, val):
            if isinstance(t, ast.Name):
                out.append((t.id, val))
            elif isinstance(t, (ast.Tuple, ast.List)):
                for i, e in enumerate(t.elts):
                    sub = None
                    if isinstance(val, (ast.Tuple, ast.List)) and len(val.elts) == len(t.elts):
                        sub = val.elts[i]
                    elif val is not None:
                        sub = ('unpack', val, i)
                    targets(e, sub)
            elif isinstance(t, ast.Starred):
                targets(t.value, None)

        if n.kind == 'entry':
            args = self.fn.args
            for x in args.posonlyargs + args.args + args.kwonlyargs:
                out.append((x.arg, ('param', x.arg)))
            if args.vararg:
                out.append((args.vararg.arg, ('param', args.vararg.arg)))
            if args.kwarg:
                out.append((args.kwarg.arg, ('param', args.kwarg.arg)))
        elif n.kind == 'stmt' and a is not None:
            if isinstance(a, ast.Assign):
                for t in a.targets:
                    targets(t, a.value)
            elif isinstance(a, ast.AnnAssign) and a.value is not None:
                targets(a.target, a.value)
            elif isinstance(a, ast.AugAssign):
                targets(a.target, ('aug', a))
        elif n.kind == 'for':
            targets(a.target, ('iter', a.iter))
        elif n.kind == 'with':
            for i in a.items:
                if i.optional_vars is not None:
                    targets(i.optional_vars, ('with', i.context_expr))
        elif n.kind == 'handler' and a.name:
            out.append((a.name, ('exc', a)))
        elif n.kind == 'def':
            out.append((a.name, ('def', a)))
        for x in n.walk():
            if isinstance(x, ast.NamedExpr) and isinstance(x.target, ast.Name):
                out.append((x.target.id, x.value))
        return out

    def reaching(self):
        """-> dict node_id -> dict name -> frozenset of (def_node_id, value)   (IN sets)"""
        if self._rd is not None:
            return self._rd
        gen = {}
        for n in self.nodes:
            g = {}
            for name, val in self.defs_of(n):
                g.setdefault(name, set()).add((n.id, _Val(val)))
            gen[n.id] = g
        IN = {n.id: {} for n in self.nodes}
        OUT = {n.id: {} for n in self.nodes}
        work = list(self.nodes)
        inwork = {n.id for n in work}
        while work:
            n = work.pop(0)
            inwork.discard(n.id)
            newin = {}
            for (p, l) in n.pred:
                # along an exception edge the definition at p may or may not have happened: use IN ∪ OUT
                srcs = [OUT[p.id]] if l != 'exc' else [OUT[p.id], IN[p.id]]
                for src in srcs:
                    for k, v in src.items():
                        newin.setdefault(k, set()).update(v)
            IN[n.id] = newin
            out = {k: set(v) for k, v in newin.items()}
            for k, v in gen[n.id].items():
                out[k] = set(v)
            if out != OUT[n.id]:
                OUT[n.id] = out
                for (s, _) in n.succ:
                    if s.id not in inwork:
                        work.append(s)
                        inwork.add(s.id)
        self._rd = IN
        return IN

    def defs_reaching(self, n, name):
        """list of (def_node, value) reaching the *entry* of node n for local `name`"""
        byid = {x.id: x for x in self.nodes}
        return [(byid[i], v.v) for (i, v) in self.reaching()[n.id].get(name, ())]


class _Val:
    """hashable wrapper for a definition's value (ast node / marker tuple)"""
    __slots__ = ('v',)

    def __init__(self, v):
        self.v = v

    def __hash__(self):
        return id(self.v) if not isinstance(self.v, tuple) else hash(tuple(id(x) if isinstance(x, ast.AST) else x for x in self.v))

    def __eq__(self, o):
        if isinstance(self.v, tuple) and isinstance(o.v, tuple):
            return len(self.v) == len(o.v) and all((a is b) if isinstance(a, ast.AST) else a == b for a, b in zip(self.v, o.v))
        return self.v is o.v


def call_name(c):
    """dotted text of a call's callee"""
    return ast.unparse(c.func)


def attr_calls(node, attr):
    return [c for c in node.calls() if isinstance(c.func, ast.Attribute) and c.func.attr == attr]


def name_calls(node, name):
    return [c for c in node.calls() if ast.unparse(c.func) == name]
