"""SQL effect extraction (DESIGN §2.4c): string constants reaching conn.execute are tokenised into
statement kind, table, WHERE columns (in placeholder order) and bound parameters; triggers of an init script are parsed."""
import ast
import re

from .loader import AnalysisError, NOVALUE


class Stmt:
    def __init__(self, text, call, node, params):
        self.text = ' '.join(text.split())
        self.call = call
        self.node = node
        self.params = params        # list of ast exprs bound to the placeholders (or None)
        t = self.text
        m = re.match(r'(?i)\s*(SELECT|INSERT|UPDATE|DELETE)\b', t)
        self.kind = m.group(1).upper() if m else '?'
        self.table = None
        if self.kind == 'SELECT' or self.kind == 'DELETE':
            m = re.search(r'(?i)\bFROM\s+(\w+)', t)
        elif self.kind == 'INSERT':
            m = re.search(r'(?i)\bINTO\s+(\w+)', t)
        elif self.kind == 'UPDATE':
            m = re.search(r'(?i)\bUPDATE\s+(\w+)', t)
        self.table = m.group(1) if m else None
        w = re.search(r'(?i)\bWHERE\b(.*)$', t)
        self.where_text = w.group(1).strip() if w else ''
        # columns compared in the top-level WHERE (col=? or col=literal)
        self.where = re.findall(r'(\w+)\s*=\s*(\?|\d+|NEW\.\w+|OLD\.\w+)', self.where_text)
        self.count = bool(re.search(r'(?i)count\s*\(', t))
        self.n_placeholders = t.count('?')

    def where_cols(self):
        return [c for c, _ in self.where]

    def param_for(self, col):
        """ast expr bound to the placeholder compared with `col` in the WHERE clause (placeholders counted over the whole text)"""
        if self.params is None:
            return None
        # index of the '?' belonging to col
        pos = None
        idx = 0
        for m in re.finditer(r'(\w+)\s*=\s*\?|\?', self.text):
            if m.group(1) == col and pos is None and m.start() >= self.text.upper().find('WHERE'):
                pos = idx
            idx += 1
        if pos is None or pos >= len(self.params):
            return None
        return self.params[pos]

    def __repr__(self):
        return f'<{self.kind} {self.table} where={self.where_cols()}>'


def string_of(cx, node, e):
    P = cx.P
    v = P.const_value(cx.f.mod, e)
    if isinstance(v, str):
        return v
    if isinstance(e, ast.Name):
        for s in cx.sources(node, e):
            if s.kind == 'expr':
                v = P.const_value(s.ctx.f.mod, s.expr)
                if isinstance(v, str):
                    return v
    return None


def statements(cx):
    """all SQL statements executed in function context cx, in CFG order"""
    out = []
    for n in cx.cfg.nodes:
        for c in n.calls():
            if isinstance(c.func, ast.Attribute) and c.func.attr in ('execute', 'executescript', 'executemany') and c.args:
                txt = string_of(cx, n, c.args[0])
                if txt is None:
                    raise AnalysisError(f'{cx.qual}: SQL text of {ast.unparse(c)[:60]} is not a constant')
                params = None
                pa = c.args[1] if len(c.args) > 1 else None
                if isinstance(pa, ast.Name):
                    # the parameter tuple held in a local: its single binding
                    ss = cx.sources(n, pa)
                    if len(ss) == 1 and ss[0].kind == 'expr' and isinstance(ss[0].expr, (ast.Tuple, ast.List)):
                        pa = ss[0].expr
                if isinstance(pa, (ast.Tuple, ast.List)):
                    params = list(pa.elts)
                out.append(Stmt(txt, c, n, params))
    return out


class Trigger:
    def __init__(self, name, timing, event, table, when, body):
        self.name, self.timing, self.event, self.table = name, timing.upper(), event.upper(), table
        self.when = ' '.join(when.split())
        self.body = ' '.join(body.split())

    def __repr__(self):
        return f'<trigger {self.name} {self.timing} {self.event} ON {self.table}>'


def triggers(script):
    out = []
    for m in re.finditer(r'(?is)CREATE\s+TRIGGER\s+(?:IF\s+NOT\s+EXISTS\s+)?(\w+)\s+(BEFORE|AFTER)\s+(INSERT|UPDATE|DELETE)\s+ON\s+(\w+)'
                         r'\s+(?:FOR\s+EACH\s+ROW\s+)?(?:WHEN\s+(.*?))?\s*BEGIN\s+(.*?)\s*END\s*;', script):
        out.append(Trigger(m.group(1), m.group(2), m.group(3), m.group(4), m.group(5) or '', m.group(6)))
    return out


def tables(script):
    out = {}
    for m in re.finditer(r'(?is)CREATE\s+TABLE\s+(?:IF\s+NOT\s+EXISTS\s+)?(\w+)\s*\((.*?)\)\s*;', script):
        cols = [c.strip().split()[0] for c in re.split(r',\s*\n', m.group(2)) if c.strip() and not c.strip().upper().startswith(('FOREIGN', 'REFERENCES', 'ON '))]
        out[m.group(1)] = cols
    return out
