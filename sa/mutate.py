"""Systematic mutation of the functions a property's rules analysed (thorough tier / rule development aid).
Mutants are ast-computed single-node edits spliced into the source text of a scratch copy. The result is a *sensitivity
measurement* of the checker (how many single-point edits of the analysed code it notices); survivors are either
behaviour-preserving / irrelevant to the property or blind spots to review. It never changes a check's exit code."""
import ast
import concurrent.futures as cf
import json
import os
import shutil
import subprocess
import tempfile

HERE = os.path.dirname(os.path.dirname(os.path.abspath(__file__)))

FLIP = {ast.Lt: [ast.LtE, ast.GtE], ast.LtE: [ast.Lt, ast.Gt], ast.Gt: [ast.GtE, ast.LtE], ast.GtE: [ast.Gt, ast.Lt],
        ast.Eq: [ast.NotEq], ast.NotEq: [ast.Eq], ast.Is: [ast.IsNot], ast.IsNot: [ast.Is], ast.In: [ast.NotIn], ast.NotIn: [ast.In]}


def _seg(src_lines, node):
    """(start_index, end_index) of node in the joined source"""
    def off(line, col):
        return sum(len(l) for l in src_lines[:line - 1]) + len(src_lines[line - 1].encode()[:col].decode(errors='ignore'))
    return off(node.lineno, node.col_offset), off(node.end_lineno, node.end_col_offset)


def mutants_of_function(src, fn, qual):
    """yield (description, new_source) for single-node edits inside function node fn"""
    lines = src.splitlines(keepends=True)
    out = []

    def splice(node, text, desc):
        a, b = _seg(lines, node)
        new = src[:a] + text + src[b:]
        try:
            compile(new, 'm', 'exec')
        except SyntaxError:
            return
        out.append((f'{qual}:{node.lineno} {desc}', new))

    nested = set()
    for n in ast.walk(fn):
        if n is not fn and isinstance(n, (ast.FunctionDef, ast.AsyncFunctionDef, ast.Lambda, ast.ClassDef)):
            for x in ast.walk(n):
                nested.add(id(x))
    for n in ast.walk(fn):
        if id(n) in nested and n is not fn:
            continue
        if isinstance(n, ast.Compare) and len(n.ops) == 1 and type(n.ops[0]) in FLIP:
            for op in FLIP[type(n.ops[0])]:
                m = ast.Compare(left=n.left, ops=[op()], comparators=n.comparators)
                splice(n, '(' + ast.unparse(m) + ')', f'ROR {ast.unparse(n)[:50]} -> {ast.unparse(m)[:50]}')
        elif isinstance(n, ast.If):
            t = n.test
            splice(t, '(not (' + ast.unparse(t) + '))', f'NEG if {ast.unparse(t)[:50]}')
            if not n.orelse and len(n.body) <= 3 and isinstance(n.body[-1], (ast.Return, ast.Raise, ast.Continue, ast.Break)):
                splice(t, 'False', f'GRD guard disabled: if {ast.unparse(t)[:50]}')
        elif isinstance(n, ast.BoolOp) and len(n.values) >= 2:
            for i in range(len(n.values)):
                rest = [v for j, v in enumerate(n.values) if j != i]
                m = rest[0] if len(rest) == 1 else ast.BoolOp(op=n.op, values=rest)
                splice(n, '(' + ast.unparse(m) + ')', f'COD drop operand {ast.unparse(n.values[i])[:40]} of {type(n.op).__name__}')
        elif isinstance(n, ast.ExceptHandler) and isinstance(n.type, ast.Tuple) and len(n.type.elts) >= 2:
            for i, e in enumerate(n.type.elts):
                rest = [x for j, x in enumerate(n.type.elts) if j != i]
                splice(n.type, '(' + ', '.join(ast.unparse(x) for x in rest) + (',)' if len(rest) == 1 else ')'), f'EXC drop {ast.unparse(e)} from handler')
        elif isinstance(n, ast.Constant) and isinstance(n.value, int) and not isinstance(n.value, bool) and 0 <= n.value <= 0xFFFFFFFF:
            splice(n, str(n.value + 1), f'CRP {n.value} -> {n.value + 1}')
        elif isinstance(n, ast.Expr) and isinstance(n.value, (ast.Call, ast.Await)) and 'logger' not in ast.unparse(n) and 'logging' not in ast.unparse(n):
            splice(n, 'pass', f'SDL delete `{ast.unparse(n)[:60]}`')
        elif isinstance(n, (ast.Assign, ast.AugAssign)) and not isinstance(getattr(n, 'value', None), (ast.Dict, ast.List)):
            if isinstance(n, ast.AugAssign) or any(isinstance(t, (ast.Attribute, ast.Subscript)) for t in n.targets):
                splice(n, 'pass', f'SDL delete `{ast.unparse(n)[:60]}`')
        elif isinstance(n, ast.Return) and isinstance(n.value, ast.Constant) and isinstance(n.value.value, bool):
            splice(n.value, str(not n.value.value), f'RET {n.value.value} -> {not n.value.value}')
    return out


def generate(P, quals, limit=None):
    """mutants for the given function qualnames: list of (desc, relpath, new_source)"""
    out = []
    for q in sorted(quals):
        f = P.funcs.get(q)
        if f is None:
            continue
        src = P.mods[f.mod][2]
        for (desc, new) in mutants_of_function(src, f.node, q):
            out.append((desc, f.path, new))
    if limit and len(out) > limit:
        step = len(out) / limit
        out = [out[int(i * step)] for i in range(limit)]
    return out


def run_mutant(repo, prop, m):
    desc, rel, new = m
    tmp = tempfile.mkdtemp(prefix='ndnmut-')
    try:
        shutil.copytree(os.path.join(repo, 'src'), os.path.join(tmp, 'src'), ignore=shutil.ignore_patterns('__pycache__', '*.pyc', '*.egg-info'))
        if os.path.isdir(os.path.join(repo, 'docs', 'src', 'lvs')):
            shutil.copytree(os.path.join(repo, 'docs', 'src', 'lvs'), os.path.join(tmp, 'docs', 'src', 'lvs'))
        open(os.path.join(tmp, rel), 'w', encoding='utf-8').write(new)
        env = dict(os.environ, VERIF_EVIDENCE_DIR=os.path.join(tmp, 'evidence'))
        r = subprocess.run([os.path.join(HERE, 'check'), prop, '--repo', tmp, '--tier', 'quick'], capture_output=True, text=True, env=env, timeout=300)
        obs = sorted({l.split()[0] for l in r.stdout.splitlines() if l.startswith('  C') and '[' in l.split(' inst')[0]})
        return {'mutant': desc, 'rc': r.returncode, 'obligations': obs}
    finally:
        shutil.rmtree(tmp, ignore_errors=True)


def campaign(repo, prop, quals, jobs=16, limit=None):
    from .loader import Program
    P = Program(repo, canonical=False)
    ms = generate(P, quals, limit)
    with cf.ThreadPoolExecutor(max_workers=jobs) as ex:
        res = list(ex.map(lambda m: run_mutant(repo, prop, m), ms))
    killed = [r for r in res if r['rc'] == 1]
    errs = [r for r in res if r['rc'] == 2]
    surv = [r for r in res if r['rc'] == 0]
    return {'generated': len(res), 'detected': len(killed), 'analysis_error': len(errs), 'undetected': len(surv),
            'undetected_list': [r['mutant'] for r in surv], 'analysis_error_list': [r['mutant'] for r in errs][:40]}


if __name__ == '__main__':
    import sys
    prop = sys.argv[1]
    repo = sys.argv[2] if len(sys.argv) > 2 else '/repo'
    ev = json.load(open(os.path.join(HERE, 'evidence', f'{prop}.json')))
    quals = ev['coverage']['functions_analysed']
    r = campaign(repo, prop, quals)
    print(json.dumps({k: v for k, v in r.items() if not k.endswith('_list')}))
    for m in r['undetected_list']:
        print('  survived:', m)
    for m in r['analysis_error_list']:
        print('  analysis-error:', m)
