"""Behaviour-preserving single-site rewrites of the functions a property's rules analysed (robustness aid, the mirror image
of mutate.py). Every rewrite keeps the meaning of the function by construction (operand swap of a comparison with pure
operands, branch inversion, `x += e` on integers, consistent local renaming, returning through a temporary, else-after-return,
hoisting the first call argument, shifting line numbers). A check must stay silent (exit 0) on all of them: exit 1 is a
false alarm to be fixed in the rule, exit 2 (analysis error) is a shape the rule cannot read - tolerated but counted.
Never changes a check's exit code."""
import ast
import concurrent.futures as cf
import os
import shutil
import subprocess
import tempfile

HERE = os.path.dirname(os.path.dirname(os.path.abspath(__file__)))
SWAP = {ast.Lt: ast.Gt, ast.LtE: ast.GtE, ast.Gt: ast.Lt, ast.GtE: ast.LtE, ast.Eq: ast.Eq, ast.NotEq: ast.NotEq}
PURE_CALLS = {'len', 'isinstance', 'type', 'int', 'bytes', 'str', 'min', 'max', 'abs', 'timestamp', 'get_tl_num_size'}
NUMERIC_NAMES = {'offset', 'length', 'i', 'j', 'pos', 'field_pos', 'deadline', 'wire_l', 'lp_l', 'cnt', 'count', 'total', 'size', 'tl_size'}


def _pure(e):
    for x in ast.walk(e):
        if isinstance(x, (ast.Await, ast.Yield, ast.YieldFrom, ast.NamedExpr, ast.Lambda)):
            return False
        if isinstance(x, ast.Call):
            fn = x.func.id if isinstance(x.func, ast.Name) else (x.func.attr if isinstance(x.func, ast.Attribute) else None)
            if fn not in PURE_CALLS:
                return False
    return True


def _line_offsets(src):
    lines = src.splitlines(keepends=True)
    offs, t = [], 0
    for l in lines:
        offs.append(t)
        t += len(l)
    return lines, offs


def _seg(lines, offs, node):
    def off(line, col):
        return offs[line - 1] + len(lines[line - 1].encode()[:col].decode(errors='ignore'))
    return off(node.lineno, node.col_offset), off(node.end_lineno, node.end_col_offset)


def _indent(text, col):
    pad = ' ' * col
    ls = text.splitlines()
    return ls[0] + ''.join('\n' + pad + l for l in ls[1:])


def _nested_ids(fn):
    nested = set()
    for n in ast.walk(fn):
        if n is not fn and isinstance(n, (ast.FunctionDef, ast.AsyncFunctionDef, ast.Lambda, ast.ClassDef)):
            for x in ast.walk(n):
                nested.add(id(x))
    return nested


def equivalents_of_function(src, fn, qual, max_renames=4):
    lines, offs = _line_offsets(src)
    out = []

    def splice(node, text, desc, stmt=False):
        a, b = _seg(lines, offs, node)
        if stmt:
            text = _indent(text, node.col_offset)
        new = src[:a] + text + src[b:]
        try:
            compile(new, 'm', 'exec')
        except SyntaxError:
            return
        out.append((f'{qual}:{node.lineno} {desc}', new))

    nested = _nested_ids(fn)
    blocks = []
    for n in ast.walk(fn):
        if id(n) in nested:
            continue
        for fld in ('body', 'orelse', 'finalbody'):
            b = getattr(n, fld, None)
            if isinstance(b, list) and b and isinstance(b[0], ast.stmt):
                blocks.append(b)
        if isinstance(n, ast.Compare) and len(n.ops) == 1 and type(n.ops[0]) in SWAP and _pure(n.left) and _pure(n.comparators[0]):
            m = ast.Compare(left=n.comparators[0], ops=[SWAP[type(n.ops[0])]()], comparators=[n.left])
            splice(n, '(' + ast.unparse(m) + ')', f'CSW `{ast.unparse(n)[:50]}` -> `{ast.unparse(m)[:50]}`')
        elif isinstance(n, ast.If) and n.orelse and _pure(n.test):
            m = ast.If(test=ast.UnaryOp(op=ast.Not(), operand=n.test), body=n.orelse, orelse=n.body)
            # an `elif` shares its `if` keyword column with the chain: only rewrite real `if` statements
            a, _ = _seg(lines, offs, n)
            if src[a:a + 3] == 'if ':
                splice(n, ast.unparse(ast.fix_missing_locations(m)), f'NIF branches of `if {ast.unparse(n.test)[:50]}` swapped', stmt=True)
        elif isinstance(n, ast.AugAssign) and isinstance(n.target, ast.Name) and n.target.id in NUMERIC_NAMES and isinstance(n.op, (ast.Add, ast.Sub)):
            m = ast.Assign(targets=[ast.Name(id=n.target.id, ctx=ast.Store())], value=ast.BinOp(left=ast.Name(id=n.target.id, ctx=ast.Load()), op=n.op, right=n.value))
            splice(n, ast.unparse(ast.fix_missing_locations(m)), f'AUG `{ast.unparse(n)[:50]}` spelled out', stmt=True)
        elif isinstance(n, ast.Return) and n.value is not None and not isinstance(n.value, (ast.Constant, ast.Name)) and not isinstance(fn, ast.Lambda):
            txt = f'result_ = {ast.unparse(n.value)}\nreturn result_'
            splice(n, txt, f'RET `{ast.unparse(n)[:50]}` through a temporary', stmt=True)
        elif isinstance(n, ast.Expr) and isinstance(n.value, ast.Call) and n.value.args and isinstance(n.value.args[0], (ast.BinOp, ast.Subscript)) \
                and _pure(n.value.args[0]) and isinstance(n.value.func, (ast.Name, ast.Attribute)) and _pure(n.value.func):
            c = n.value
            m = ast.Call(func=c.func, args=[ast.Name(id='arg0_', ctx=ast.Load())] + c.args[1:], keywords=c.keywords)
            splice(n, f'arg0_ = {ast.unparse(c.args[0])}\n{ast.unparse(m)}', f'TMP first argument of `{ast.unparse(c)[:50]}` hoisted', stmt=True)
    # else-after-return
    for b in blocks:
        for i, s in enumerate(b[:-1]):
            if isinstance(s, ast.If) and not s.orelse and isinstance(s.body[-1], (ast.Return, ast.Raise)) and id(s) not in nested:
                a0, _ = _seg(lines, offs, s)
                if src[a0:a0 + 3] != 'if ':
                    continue
                rest = b[i + 1:]
                if any(isinstance(x, (ast.FunctionDef, ast.AsyncFunctionDef, ast.ClassDef, ast.Global, ast.Nonlocal)) for x in rest):
                    continue
                m = ast.If(test=s.test, body=s.body, orelse=rest)
                a, _ = _seg(lines, offs, s)
                _, e = _seg(lines, offs, rest[-1])
                text = _indent(ast.unparse(ast.fix_missing_locations(m)), s.col_offset)
                new = src[:a] + text + src[e:]
                try:
                    compile(new, 'm', 'exec')
                except SyntaxError:
                    continue
                out.append((f'{qual}:{s.lineno} ELS statements after `if {ast.unparse(s.test)[:40]}: ...return/raise` moved into else', new))
    # consistent renaming of plain locals
    if not isinstance(fn, ast.Lambda):
        params = {a.arg for a in fn.args.args + fn.args.kwonlyargs + fn.args.posonlyargs}
        if fn.args.vararg:
            params.add(fn.args.vararg.arg)
        if fn.args.kwarg:
            params.add(fn.args.kwarg.arg)
        banned = set(params)
        for n in ast.walk(fn):
            if isinstance(n, (ast.Global, ast.Nonlocal)):
                banned |= set(n.names)
            if n is not fn and isinstance(n, (ast.FunctionDef, ast.AsyncFunctionDef, ast.Lambda)):
                banned |= {a.arg for a in n.args.args + n.args.kwonlyargs}
                if not isinstance(n, ast.Lambda):
                    banned.add(n.name)
            if isinstance(n, ast.ExceptHandler) and n.name:
                banned.add(n.name)
            if isinstance(n, (ast.Import, ast.ImportFrom)):
                banned |= {(a.asname or a.name).split('.')[0] for a in n.names}
        stored = []
        for n in ast.walk(fn):
            if isinstance(n, ast.Name) and isinstance(n.ctx, ast.Store) and n.id not in banned and n.id not in stored and id(n) not in nested and n.id != '_':
                stored.append(n.id)
        allnames = {n.id for n in ast.walk(fn) if isinstance(n, ast.Name)}
        for v in stored[:max_renames]:
            new_name = v + '_r'
            if new_name in allnames:
                continue
            occ = [n for n in ast.walk(fn) if isinstance(n, ast.Name) and n.id == v]
            new = src
            for n in sorted(occ, key=lambda n: (n.lineno, n.col_offset), reverse=True):
                a, b = _seg(lines, offs, n)
                new = new[:a] + new_name + new[b:]
            try:
                compile(new, 'm', 'exec')
            except SyntaxError:
                continue
            out.append((f'{qual}:{fn.lineno} REN local `{v}` -> `{new_name}`', new))
    return out


def generate(P, quals, limit=None):
    out = []
    seen_mod = set()
    for q in sorted(quals):
        f = P.funcs.get(q)
        if f is None:
            continue
        src = P.mods[f.mod][2]
        if f.mod not in seen_mod:
            seen_mod.add(f.mod)
            out.append((f'{f.mod}:1 LSH three comment lines inserted at the top of the module', f.path, '# reviewed\n#\n#\n' + src))
        for (desc, new) in equivalents_of_function(src, f.node, q):
            out.append((desc, f.path, new))
    if limit and len(out) > limit:
        step = len(out) / limit
        out = [out[int(i * step)] for i in range(limit)]
    return out


def run_one(repo, prop, m):
    desc, rel, new = m
    tmp = tempfile.mkdtemp(prefix='ndnref-')
    try:
        shutil.copytree(os.path.join(repo, 'src'), os.path.join(tmp, 'src'), ignore=shutil.ignore_patterns('__pycache__', '*.pyc', '*.egg-info'))
        if os.path.isdir(os.path.join(repo, 'docs', 'src', 'lvs')):
            shutil.copytree(os.path.join(repo, 'docs', 'src', 'lvs'), os.path.join(tmp, 'docs', 'src', 'lvs'))
        open(os.path.join(tmp, rel), 'w', encoding='utf-8').write(new)
        env = dict(os.environ, VERIF_EVIDENCE_DIR=os.path.join(tmp, 'evidence'))
        r = subprocess.run([os.path.join(HERE, 'check'), prop, '--repo', tmp, '--tier', 'quick'], capture_output=True, text=True, env=env, timeout=300)
        rep = [l.strip()[:260] for l in r.stdout.splitlines() if (l.startswith('  C') and '[' in l.split(' inst')[0]) or l.startswith('ANALYSIS-ERROR')]
        return {'variant': desc, 'rc': r.returncode, 'reports': rep[:3]}
    finally:
        shutil.rmtree(tmp, ignore_errors=True)


def campaign(repo, prop, quals, jobs=16, limit=None):
    from .loader import Program
    P = Program(repo, canonical=False)
    ms = generate(P, quals, limit)
    with cf.ThreadPoolExecutor(max_workers=jobs) as ex:
        res = list(ex.map(lambda m: run_one(repo, prop, m), ms))
    return {'generated': len(res), 'silent': sum(1 for r in res if r['rc'] == 0),
            'false_alarms': [r for r in res if r['rc'] == 1], 'analysis_errors': [r for r in res if r['rc'] == 2]}


if __name__ == '__main__':
    import json
    import sys
    prop = sys.argv[1]
    repo = sys.argv[2] if len(sys.argv) > 2 else '/repo'
    ev = json.load(open(os.path.join(HERE, 'evidence', f'{prop}.json')))
    r = campaign(repo, prop, ev['coverage']['functions_analysed'])
    print(json.dumps({'generated': r['generated'], 'silent': r['silent'], 'false_alarms': len(r['false_alarms']), 'analysis_errors': len(r['analysis_errors'])}))
    for x in r['false_alarms']:
        print('  FALSE-ALARM:', x['variant'], '|', x['reports'][:1])
    for x in r['analysis_errors']:
        print('  analysis-error:', x['variant'], '|', x['reports'][:1])
