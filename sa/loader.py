"""Loader and resolver: parses every module of the analysed package, builds symbol tables,
class hierarchy (MRO), a function registry (incl. nested closures) and a small constant folder.
Nothing of the analysed package is imported or executed."""
import ast
import collections
import os


class AnalysisError(Exception):
    """The analyser cannot decide (vanished anchor, unrecognised shape). Exit code 2, never a verdict."""


EXCLUDED_PREFIXES = ('ndn.contrib', 'ndn.platform.osx', 'ndn.platform.windows',
                     'ndn.security.tpm.tpm_cng', 'ndn.security.tpm.tpm_osx_keychain')

BUILTIN_EXC = {
    'IndexError': 'LookupError', 'KeyError': 'LookupError', 'LookupError': 'Exception', 'ValueError': 'Exception',
    'UnicodeDecodeError': 'UnicodeError', 'UnicodeEncodeError': 'UnicodeError', 'UnicodeError': 'ValueError',
    'TypeError': 'Exception', 'AttributeError': 'Exception', 'NameError': 'Exception',
    'struct.error': 'Exception', 'asyncio.InvalidStateError': 'Exception', 'TimeoutError': 'OSError',
    'asyncio.TimeoutError': 'OSError',
    'OSError': 'Exception', 'RuntimeError': 'Exception', 'NotImplementedError': 'RuntimeError',
    'RecursionError': 'RuntimeError', 'ArithmeticError': 'Exception', 'OverflowError': 'ArithmeticError',
    'ZeroDivisionError': 'ArithmeticError',
    'AssertionError': 'Exception', 'StopIteration': 'Exception', 'StopAsyncIteration': 'Exception',
    'Exception': 'BaseException',
    'asyncio.CancelledError': 'BaseException', 'KeyboardInterrupt': 'BaseException', 'SystemExit': 'BaseException',
    'GeneratorExit': 'BaseException',
    'FileNotFoundError': 'OSError', 'FileExistsError': 'OSError', 'ConnectionError': 'OSError',
    'ConnectionResetError': 'ConnectionError', 'ConnectionRefusedError': 'ConnectionError',
    'BrokenPipeError': 'ConnectionError', 'ConnectionAbortedError': 'ConnectionError',
    'asyncio.IncompleteReadError': 'EOFError', 'EOFError': 'Exception', 'PermissionError': 'OSError',
    'BaseException': None, 'sqlite3.Error': 'Exception', 'sqlite3.IntegrityError': 'sqlite3.Error',
    'sqlite3.OperationalError': 'sqlite3.Error', 'ImportError': 'Exception', 'ModuleNotFoundError': 'ImportError',
    'MemoryError': 'Exception', 'BufferError': 'Exception', 'IOError': 'Exception',
}
EXC_ALIASES = {'asyncio.exceptions.CancelledError': 'asyncio.CancelledError',
               'asyncio.exceptions.InvalidStateError': 'asyncio.InvalidStateError',
               'asyncio.exceptions.IncompleteReadError': 'asyncio.IncompleteReadError',
               'asyncio.exceptions.TimeoutError': 'TimeoutError', 'asyncio.TimeoutError': 'TimeoutError',
               'IOError': 'OSError', 'EnvironmentError': 'OSError'}

NOVALUE = object()
FuncT = (ast.FunctionDef, ast.AsyncFunctionDef)


class Func:
    __slots__ = ('qual', 'mod', 'cls', 'node', 'parent', 'path')

    def __init__(self, qual, mod, cls, node, parent, path):
        self.qual, self.mod, self.cls, self.node, self.parent, self.path = qual, mod, cls, node, parent, path

    @property
    def is_async(self):
        return isinstance(self.node, ast.AsyncFunctionDef)

    def loc(self, node=None):
        n = node if node is not None else self.node
        return f'{self.path}:{getattr(n, "lineno", self.node.lineno)}'

    def __repr__(self):
        return f'<Func {self.qual}>'


class Program:
    def __init__(self, repo, canonical=True, restore=True):
        self.repo = repo
        self.canonical = canonical
        self.root = os.path.join(repo, 'src')
        self.mods = {}       # modname -> (relpath, tree, source)
        self.excluded = []
        pkg = os.path.join(self.root, 'ndn')
        if not os.path.isdir(pkg):
            raise AnalysisError(f'package directory {pkg} not found')
        for dp, dn, fn in os.walk(pkg):
            dn.sort()
            for f in sorted(fn):
                if not f.endswith('.py'):
                    continue
                p = os.path.join(dp, f)
                name = self._modname(p)
                if name.startswith(EXCLUDED_PREFIXES):
                    self.excluded.append(name)
                    continue
                src = open(p, encoding='utf-8').read()
                try:
                    tree = ast.parse(src, filename=p)
                except SyntaxError as e:
                    raise AnalysisError(f'{p} does not parse: {e}')
                if canonical:
                    from .canon import canonicalise
                    tree = canonicalise(tree)
                self.mods[name] = (os.path.relpath(p, repo), tree, src)
        self.ispkg = {m for m, (p, _, _) in self.mods.items() if p.endswith('__init__.py')}
        self.defs = {}
        self.stars = collections.defaultdict(list)
        for m, (p, t, _) in self.mods.items():
            d = self.defs.setdefault(m, {})
            for n in t.body:
                self._top(m, d, n)
        self.classes = {}
        self.class_mod_path = {}
        for m, (p, t, _) in self.mods.items():
            for n in ast.walk(t):
                if isinstance(n, ast.ClassDef):
                    # top-level and nested classes; nested ones keyed by bare name unless it clashes
                    if (m, n.name) not in self.classes or n in t.body:
                        self.classes[(m, n.name)] = n
        self._mro_cache = {}
        self.subclasses = collections.defaultdict(set)
        for (m, c) in list(self.classes):
            for b in self.mro(m, c)[1:]:
                self.subclasses[b].add((m, c))
        self.funcs = {}
        for m, (p, t, _) in self.mods.items():
            self._collect(m, None, t.body, m, None, p)
        self.n_callsites = 0
        self.call_stats = None
        self.renamed_anchors = self._restore_renamed_nested() if canonical else {}
        if canonical:
            from .inline import normalise_calls
            self.call_stats = normalise_calls(self)
            if restore:
                import json as _json
                from .alpha import restore_names
                bp = os.path.join(os.path.dirname(os.path.abspath(__file__)), 'baseline_funcs.json')
                if os.path.exists(bp):
                    ref = _json.load(open(bp)).get('locals')
                    if ref:
                        self.call_stats['functions_renamed'] = restore_names(self, ref)

    def _restore_renamed_nested(self):
        """a nested function of the reference tree that is gone while exactly one new nested function appeared in the same parent is that
        function under a new name: it gets its reference name back (definition, uses in the parent, registry keys) so that the rules
        that name it still find it. -> {new qual: reference qual}"""
        import json as _json
        bp = os.path.join(os.path.dirname(os.path.abspath(__file__)), 'baseline_funcs.json')
        if not os.path.exists(bp):
            return {}
        base = set(_json.load(open(bp)).get('functions', []))
        out = {}
        for pq in sorted(self.funcs, key=lambda k: k.count('.<')):
            if pq not in self.funcs:
                continue
            F = self.funcs[pq]
            if isinstance(F.node, ast.Lambda):
                continue
            pre = pq + '.<'
            cur = {q for q, f in self.funcs.items() if f.parent == pq and q.startswith(pre) and '#' not in q}
            ref = {q for q in base if q.startswith(pre) and '.<' not in q[len(pre):] and '#' not in q}
            gone, new = sorted(ref - cur), sorted(cur - ref)
            if gone and not new:
                # moved out: the parent now calls a new module-level function (called from nowhere else) where it used to call the nested one
                mod_tree = self.mods[F.mod][1]
                cands = []
                for q2, f2 in self.funcs.items():
                    if q2 in base or f2.mod != F.mod or f2.parent is not None or f2.cls is not None or isinstance(f2.node, ast.Lambda) or '#' in q2:
                        continue
                    nm = f2.node.name
                    from .cfg import walk_function
                    inside = any(isinstance(x, ast.Name) and x.id == nm for x in walk_function(F.node))      # in the parent's own statements
                    outside = any(isinstance(x, ast.Name) and x.id == nm for top in mod_tree.body if top is not F.node and not self._contains(top, F.node)
                                  for x in ast.walk(top) if x is not f2.node)
                    if inside and not outside:
                        cands.append((q2, f2))
                # pair by name (`_resolve_location` is `resolve_location`), then a single leftover on each side
                pairs = []
                left_g, left_c = list(gone), list(cands)
                for g in list(left_g):
                    bare = g[len(pre):-1].strip('_')
                    hit = [c for c in left_c if c[1].node.name.strip('_') == bare]
                    if len(hit) == 1:
                        pairs.append((g, hit[0]))
                        left_g.remove(g)
                        left_c.remove(hit[0])
                if len(left_g) == 1 and len(left_c) == 1:
                    pairs.append((left_g[0], left_c[0]))
                for g, (q2, f2) in pairs:
                    self.funcs[g] = Func(g, f2.mod, None, f2.node, None, f2.path)
                    out[q2] = g
                continue
            if len(gone) != 1 or len(new) != 1:
                continue
            old_name, new_name = gone[0][len(pre):-1], new[0][len(pre):-1]
            bound = {x.id for x in ast.walk(F.node) if isinstance(x, ast.Name)} | {a.arg for a in ast.walk(F.node) if isinstance(a, ast.arg)}
            if old_name in bound or isinstance(self.funcs[new[0]].node, ast.Lambda):
                continue
            self.funcs[new[0]].node.name = old_name
            for x in ast.walk(F.node):
                if isinstance(x, ast.Name) and x.id == new_name:
                    x.id = old_name
                elif isinstance(x, (ast.Nonlocal, ast.Global)):
                    x.names = [old_name if k == new_name else k for k in x.names]
            # registry keys of the function and of everything nested in it
            for q in [k for k in self.funcs if k == new[0] or k.startswith(new[0] + '.')]:
                f = self.funcs.pop(q)
                f.qual = gone[0] + q[len(new[0]):]
                if f.parent and (f.parent == new[0] or f.parent.startswith(new[0] + '.')):
                    f.parent = gone[0] + f.parent[len(new[0]):]
                self.funcs[f.qual] = f
            out[new[0]] = gone[0]
        return out

    @staticmethod
    def _contains(top, node):
        return any(x is node for x in ast.walk(top))

    # ------------------------------------------------------------------ registry
    def _collect(self, m, cls, body, prefix, parent, path):
        for n in body:
            if isinstance(n, FuncT):
                q = prefix + '.' + n.name if parent is None else prefix + '.<' + n.name + '>'
                if q in self.funcs:     # property setter / overloads: keep the first, suffix the rest
                    k = 2
                    while f'{q}#{k}' in self.funcs:
                        k += 1
                    q = f'{q}#{k}'
                self.funcs[q] = Func(q, m, cls, n, parent, path)
                self._collect_nested(m, cls, n, q, path)
            elif isinstance(n, ast.ClassDef):
                if parent is None:
                    self._collect(m, n.name, n.body, prefix + '.' + n.name, None, path)
            elif isinstance(n, (ast.If, ast.Try)):
                for sub in ast.iter_child_nodes(n):
                    if isinstance(sub, (ast.stmt,)):
                        self._collect(m, cls, [sub], prefix, parent, path)

    def _collect_nested(self, m, cls, fn, qual, path):
        """register direct nested functions / methods of nested classes of fn (recursively)"""
        stack = list(fn.body)
        while stack:
            s = stack.pop(0)
            if isinstance(s, FuncT):
                q = qual + '.<' + s.name + '>'
                if q not in self.funcs:
                    self.funcs[q] = Func(q, m, cls, s, qual, path)
                    self._collect_nested(m, cls, s, q, path)
            elif isinstance(s, ast.ClassDef):
                for b in s.body:
                    if isinstance(b, FuncT):
                        q = qual + '.<' + s.name + '>.' + b.name
                        self.funcs[q] = Func(q, m, s.name, b, qual, path)
                        self._collect_nested(m, s.name, b, q, path)
            else:
                for c in ast.iter_child_nodes(s):
                    if isinstance(c, ast.stmt) or isinstance(c, ast.ExceptHandler):
                        stack.append(c)
                    elif isinstance(c, list):
                        pass
                if isinstance(s, ast.ExceptHandler):
                    stack.extend(s.body)

    def func(self, qual):
        f = self.funcs.get(qual)
        if f is None:
            raise AnalysisError(f'anchor vanished: function {qual} not found')
        return f

    def cls(self, qual):
        m, c = qual.rsplit('.', 1)
        if (m, c) not in self.classes:
            raise AnalysisError(f'anchor vanished: class {qual} not found')
        return self.classes[(m, c)]

    def path_of(self, mod):
        return self.mods[mod][0]

    def methods_of(self, m, c):
        return {n.name: n for n in self.classes[(m, c)].body if isinstance(n, FuncT)}

    # ------------------------------------------------------------------ symbols
    def _modname(self, path):
        rel = os.path.relpath(path, self.root)[:-3].replace(os.sep, '.')
        return rel[:-9] if rel.endswith('.__init__') else rel

    def _absmod(self, cur, level, module):
        if level == 0:
            return module
        base = cur.split('.') if cur in self.ispkg else cur.split('.')[:-1]
        base = base[:len(base) - (level - 1)]
        return '.'.join(base + ([module] if module else []))

    def _top(self, m, d, n):
        if isinstance(n, FuncT):
            d[n.name] = ('func', n)
        elif isinstance(n, ast.ClassDef):
            d[n.name] = ('class', n)
        elif isinstance(n, ast.Assign):
            for tg in n.targets:
                if isinstance(tg, ast.Name):
                    d[tg.id] = ('const', n.value)
        elif isinstance(n, ast.AnnAssign) and isinstance(n.target, ast.Name) and n.value is not None:
            d[n.target.id] = ('const', n.value)
        elif isinstance(n, ast.Import):
            for a in n.names:
                d[a.asname or a.name.split('.')[0]] = ('mod', a.name if a.asname else a.name.split('.')[0])
        elif isinstance(n, ast.ImportFrom):
            src = self._absmod(m, n.level, n.module)
            for a in n.names:
                if a.name == '*':
                    self.stars[m].append(src)
                else:
                    d[a.asname or a.name] = ('alias', src, a.name)
        elif isinstance(n, (ast.If, ast.Try)):
            for x in ast.iter_child_nodes(n):
                if isinstance(x, ast.stmt):
                    self._top(m, d, x)
                elif isinstance(x, ast.ExceptHandler):
                    for y in x.body:
                        self._top(m, d, y)

    def lookup(self, m, name, seen=()):
        if (m, name) in seen:
            return None
        if m not in self.defs:
            return ('ext', m + '.' + name)
        seen = seen + ((m, name),)
        d = self.defs[m]
        if name in d:
            k = d[name]
            if k[0] == 'alias':
                full = k[1] + '.' + k[2]
                if k[1] in self.defs:
                    r = self.lookup(k[1], k[2], seen)
                    if r:
                        return r
                if full in self.mods:
                    return ('mod', full)
                return ('ext', full)
            if k[0] == 'mod':
                return ('mod', k[1]) if k[1] in self.mods else ('ext', k[1])
            return (k[0], m, name, k[1])
        sub = m + '.' + name
        if sub in self.mods:
            return ('mod', sub)
        for s in self.stars[m]:
            r = self.lookup(s, name, seen) if s in self.defs else None
            if r:
                return r
        return None

    def resolve(self, m, e):
        """-> ('func', mod, name, node) | ('class', mod, name, node) | ('const', mod, name, valuenode) |
        ('mod', name) | ('ext', dotted) | ('method', mod, cls, name, node) | ('classattr', mod, cls, name, value) |
        ('classann', mod, cls, name, ann, value) | None"""
        if isinstance(e, ast.Name):
            return self.lookup(m, e.id)
        if isinstance(e, ast.Attribute):
            b = self.resolve(m, e.value)
            if not b:
                return None
            if b[0] == 'mod':
                return self.lookup(b[1], e.attr) or ('ext', b[1] + '.' + e.attr)
            if b[0] == 'ext':
                return ('ext', b[1] + '.' + e.attr)
            if b[0] == 'class':
                return self.find_member(b[1], b[2], e.attr)
        return None

    def qual_of(self, r):
        """qualified function name for a resolve() result, or None"""
        if not r:
            return None
        if r[0] == 'func':
            return r[1] + '.' + r[2]
        if r[0] == 'method':
            q = r[1] + '.' + r[2] + '.' + r[3]
            if q not in self.funcs and len(r) > 4:
                # a class nested in a class: the registry keys carry the full nesting
                for k, f in self.funcs.items():
                    if f.node is r[4]:
                        return k
            return q
        return None

    def bases(self, m, c):
        out = []
        for b in self.classes[(m, c)].bases:
            r = self.resolve(m, b)
            if r and r[0] == 'class':
                out.append((r[1], r[2]))
        return out

    def ext_bases(self, m, c):
        out = []
        for b in self.classes[(m, c)].bases:
            r = self.resolve(m, b)
            if r and r[0] == 'ext':
                out.append(r[1])
            elif r is None:
                out.append(ast.unparse(b))
        return out

    def mro(self, m, c):
        if (m, c) in self._mro_cache:
            return self._mro_cache[(m, c)]
        out = [(m, c)]
        self._mro_cache[(m, c)] = out
        for b in self.bases(m, c):
            for x in self.mro(*b):
                if x not in out:
                    out.append(x)
        return out

    def is_subclass(self, mc, base):
        return mc in self.classes and base in self.mro(*mc)

    def find_member(self, m, c, name):
        for (mm, cc) in self.mro(m, c):
            for n in self.classes[(mm, cc)].body:
                if isinstance(n, FuncT) and n.name == name:
                    return ('method', mm, cc, name, n)
                if isinstance(n, ast.Assign) and any(isinstance(t, ast.Name) and t.id == name for t in n.targets):
                    return ('classattr', mm, cc, name, n.value)
                if isinstance(n, ast.AnnAssign) and isinstance(n.target, ast.Name) and n.target.id == name:
                    return ('classann', mm, cc, name, n.annotation, n.value)
        return None

    # ------------------------------------------------------------------ exceptions
    def exc_name(self, m, e):
        if isinstance(e, ast.Call):
            e = e.func
        r = self.resolve(m, e)
        if r:
            if r[0] == 'class':
                return r[1] + '.' + r[2]
            if r[0] == 'ext':
                return EXC_ALIASES.get(r[1], r[1])
        if isinstance(e, ast.Name):
            return EXC_ALIASES.get(e.id, e.id)
        return ast.unparse(e)

    def supers(self, x):
        out = [x]
        seen = {x}
        while True:
            if x in BUILTIN_EXC:
                x = BUILTIN_EXC[x]
            elif '.' in x and tuple(x.rsplit('.', 1)) in self.classes:
                m, c = x.rsplit('.', 1)
                bs = self.classes[(m, c)].bases
                x = self.exc_name(m, bs[0]) if bs else None
            else:
                x = None
            if not x or x in seen:
                return out
            seen.add(x)
            out.append(x)

    def handler_names(self, m, h):
        if h.type is None:
            return ['BaseException']
        if isinstance(h.type, ast.Tuple):
            return [self.exc_name(m, e) for e in h.type.elts]
        return [self.exc_name(m, h.type)]

    def caught_by(self, exc, names):
        sup = self.supers(exc)
        return any(h in sup for h in names)

    # ------------------------------------------------------------------ annotations
    def _unstr(self, ann):
        if isinstance(ann, ast.Constant) and isinstance(ann.value, str):
            try:
                return ast.parse(ann.value, mode='eval').body
            except SyntaxError:
                return None
        return ann

    def ann_class(self, m, ann):
        """(mod, cls) for an annotation, looking through `X | None`, Optional[X], type[X] is NOT unwrapped"""
        ann = self._unstr(ann)
        if ann is None:
            return None
        if isinstance(ann, ast.BinOp) and isinstance(ann.op, ast.BitOr):
            return self.ann_class(m, ann.left) or self.ann_class(m, ann.right)
        if isinstance(ann, ast.Subscript) and ast.unparse(ann.value) in ('Optional', 'typing.Optional'):
            return self.ann_class(m, ann.slice)
        r = self.resolve(m, ann) if isinstance(ann, (ast.Name, ast.Attribute)) else None
        if r and r[0] == 'class':
            return (r[1], r[2])
        return None

    def ann_elem_class(self, m, ann):
        ann = self._unstr(ann)
        if isinstance(ann, ast.Subscript) and ast.unparse(ann.value).split('.')[-1] in ('list', 'List', 'Iterable', 'Iterator', 'Sequence', 'Collection', 'tuple_of'):
            return self.ann_class(m, ann.slice)
        return None

    def ann_nullable(self, ann):
        ann = self._unstr(ann)
        if ann is None:
            return False
        txt = ast.unparse(ann)
        return 'None' in txt or 'Optional' in txt

    # ------------------------------------------------------------------ constants
    def const_value(self, m, e, depth=0):
        """fold an expression to a Python value (ints, strs, bytes, tuples, sets, dicts, class constants) or NOVALUE"""
        if depth > 12 or e is None:
            return NOVALUE
        if isinstance(e, ast.Constant):
            return e.value
        if isinstance(e, (ast.Name, ast.Attribute)):
            r = self.resolve(m, e)
            if r and r[0] == 'const':
                return self.const_value(r[1], r[3], depth + 1)
            if r and r[0] == 'classattr':
                return self.const_value(r[1], r[4], depth + 1)
            if r and r[0] == 'classann' and r[5] is not None:
                return self.const_value(r[1], r[5], depth + 1)
            return NOVALUE
        if isinstance(e, ast.UnaryOp) and isinstance(e.op, ast.USub):
            v = self.const_value(m, e.operand, depth + 1)
            return -v if isinstance(v, (int, float)) else NOVALUE
        if isinstance(e, ast.BinOp):
            a, b = self.const_value(m, e.left, depth + 1), self.const_value(m, e.right, depth + 1)
            if a is NOVALUE or b is NOVALUE:
                return NOVALUE
            try:
                if isinstance(e.op, ast.Add):
                    return a + b
                if isinstance(e.op, ast.Sub):
                    return a - b
                if isinstance(e.op, ast.Mult):
                    return a * b
                if isinstance(e.op, ast.BitOr):
                    return a | b
                if isinstance(e.op, ast.LShift):
                    return a << b
            except Exception:
                return NOVALUE
            return NOVALUE
        if isinstance(e, (ast.Tuple, ast.List, ast.Set)):
            vs = [self.const_value(m, x, depth + 1) for x in e.elts]
            if any(v is NOVALUE for v in vs):
                return NOVALUE
            return tuple(vs) if isinstance(e, ast.Tuple) else (list(vs) if isinstance(e, ast.List) else set(vs))
        if isinstance(e, ast.Dict):
            ks = [self.const_value(m, x, depth + 1) for x in e.keys]
            vs = [self.const_value(m, x, depth + 1) for x in e.values]
            if any(v is NOVALUE for v in ks + vs):
                return NOVALUE
            try:
                return dict(zip(ks, vs))
            except TypeError:
                return NOVALUE
        if isinstance(e, ast.Call) and isinstance(e.func, ast.Name) and e.func.id in ('set', 'frozenset', 'tuple', 'list') \
                and len(e.args) == 1:
            v = self.const_value(m, e.args[0], depth + 1)
            if v is NOVALUE:
                return NOVALUE
            try:
                return {'set': set, 'frozenset': frozenset, 'tuple': tuple, 'list': list}[e.func.id](v)
            except TypeError:
                return NOVALUE
        if isinstance(e, ast.JoinedStr):
            out = ''
            for v in e.values:
                if isinstance(v, ast.Constant):
                    out += str(v.value)
                else:
                    return NOVALUE
            return out
        return NOVALUE

    def stats(self):
        return {'modules': len(self.mods), 'classes': len(self.classes), 'functions': len(self.funcs),
                'excluded_modules': sorted(self.excluded)}


def norm(node):
    """normalised text of a construct (used as finding key; independent of line numbers, formatting and of the suffixes given
    to the locals of expanded helpers)"""
    import re as _re
    return _re.sub(r'__h\d+\b', '', _norm(node))


def _norm(node):
    if isinstance(node, str):
        return ' '.join(node.split())
    if isinstance(node, (ast.If, ast.While)):
        return ('if ' if isinstance(node, ast.If) else 'while ') + ast.unparse(node.test)
    if isinstance(node, (ast.For, ast.AsyncFor)):
        return 'for ' + ast.unparse(node.target) + ' in ' + ast.unparse(node.iter)
    if isinstance(node, (ast.With, ast.AsyncWith)):
        return 'with ' + ', '.join(ast.unparse(i.context_expr) for i in node.items)
    if isinstance(node, ast.ExceptHandler):
        return 'except ' + (ast.unparse(node.type) if node.type else '')
    if isinstance(node, FuncT):
        return 'def ' + node.name
    if isinstance(node, ast.Try):
        return 'try'
    return ' '.join(ast.unparse(node).split())
