"""C16 — issued certificates (new_cert and wrappers). DESIGN §4 C16."""
import ast

from .common import memo_rule, ctx, returns, calls_in_ctx, site, srcs_text, full_text, bound_args, call_arg, explore, inline_ast
from ..flow import callee_attr
from ..linexpr import lin, show, NotLinear
from ..loader import AnalysisError, norm, NOVALUE
from ..models import models_of

SV = 'ndn.app_support.security_v2'
FMT = '%Y%m%dT%H%M%S'


def single_defs(cx):
    """local names with exactly one definition whose value is an expression -> that expression"""
    d = {}
    for n in cx.cfg.nodes:
        for nm, v in cx.cfg.defs_of(n):
            d.setdefault(nm, []).append(v)
    return {k: v[0] for k, v in d.items() if len(v) == 1 and isinstance(v[0], ast.AST)}


def _killed(cx, call, atom):
    """under the valuation `atom`, the parameter binding of the issuer id cannot reach `call`: a re-binding of the variable passed
    (the parameter itself, or the local that carries it) lies on every path"""
    cn = cx.node_of(call)
    if isinstance(call.args[1], ast.Name):
        var = call.args[1].id
        redefs = {n.id for n in cx.cfg.nodes if n.kind != 'entry' and any(nm == var for (nm, v) in cx.cfg.defs_of(n))
                  and not (var != 'issuer_id' and n.kind == 'stmt' and isinstance(n.ast, ast.Assign) and ast.unparse(n.ast.value) == 'issuer_id')}
        return cn.id not in explore(cx, atom, stop=redefs)
    return False


def run(R):
    memo_rule(R, 'C16.MEM.1', ('ndn.app_support.security_v2',), 'the certificate name is built by extending the key name; a shared key-name list grows '
              'with every certificate issued for the same key')
    P = R.P
    nc = ctx(R, SV + '.new_cert')
    params = [a.arg for a in nc.f.node.args.args]
    R.need(params == ['key_name', 'issuer_id_component', 'pub_key', 'signer', 'start_time', 'end_time'], f'new_cert parameters changed: {params}')
    sub = single_defs(nc)
    R.ob('C16.PRV.1', 'new_cert: name = normalize(key_name) + [issuer, version]; content = pub_key; content type KEY; not_before from '
                      'start_time and not_after from end_time with the certificate time format; the signer argument signs')
    # object paths: a local that holds a freshly constructed object which is stored into `<path>.attr` *is* `<path>.attr`
    # (`v = ValidityPeriod(); info.validity_period = v; v.not_before = ..` writes `cert_val.signature_info.validity_period.not_before`)
    root = [nm for n in nc.cfg.nodes for (nm, v) in nc.cfg.defs_of(n) if isinstance(v, ast.Call) and ast.unparse(v.func) == 'CertificateV2Value']
    R.need(len(set(root)) == 1, 'new_cert: the certificate value object is not bound to one local')
    root = root[0]
    path = {root: 'cert_val'}
    changed = True
    while changed:
        changed = False
        for n in nc.cfg.nodes:
            if n.kind == 'stmt' and isinstance(n.ast, ast.Assign) and isinstance(n.ast.targets[0], ast.Attribute):
                t = n.ast.targets[0]
                base = t.value
                while isinstance(base, ast.Attribute):
                    base = base.value
                if isinstance(base, ast.Name) and base.id in path:
                    for s_ in nc.sources(n, n.ast.value):
                        if s_.kind == 'expr' and isinstance(s_.expr, ast.Call):
                            holders = [nm for m_ in nc.cfg.nodes for (nm, v) in nc.cfg.defs_of(m_) if v is s_.expr]
                            full = path[base.id] + ast.unparse(t)[len(base.id):]
                            for h in holders:
                                if h not in path:
                                    path[h] = full
                                    changed = True

    def canon_path(t):
        base = t
        while isinstance(base, ast.Attribute):
            base = base.value
        if isinstance(base, ast.Name) and base.id in path:
            return path[base.id] + ast.unparse(t)[len(base.id):]
        return ast.unparse(t)
    attr_stores = {}
    for n in nc.cfg.nodes:
        if n.kind == 'stmt' and isinstance(n.ast, ast.Assign):
            for t in n.ast.targets:
                if isinstance(t, ast.Attribute):
                    attr_stores.setdefault(canon_path(t), []).append((n, n.ast.value))

    def chk(oid, inst, cond, construct, what):
        if cond:
            R.ok(oid, f'{nc.qual} :: {inst}', site(nc, construct))
        else:
            R.fail(oid, f'{nc.qual} :: {inst}', nc.qual, construct, what, site(nc, construct))

    # name
    st = attr_stores.get('cert_val.name', [])
    okn = False
    if len(st) == 1:
        srcs = nc.sources(st[0][0], st[0][1])
        for s in srcs:
            if s.kind == 'expr' and isinstance(s.expr, ast.BinOp) and isinstance(s.expr.op, ast.Add):
                l, r = s.expr.left, s.expr.right
                okn = ast.unparse(l) == 'Name.normalize(key_name)' and isinstance(r, ast.List) and len(r.elts) == 2 \
                    and ast.unparse(r.elts[0]) == 'issuer_id_component' and ast.unparse(r.elts[1]).startswith('Component.from_version(')
    chk('C16.PRV.1', 'certificate name', okn, st[0][0].ast if st else nc.f.node, 'the certificate is not named <key name>/<issuer id>/<version>')
    rets = returns(nc)
    okr = bool(rets) and all(isinstance(r.ast.value, ast.Tuple) and len(r.ast.value.elts) == 2 for r in rets)
    if okr and st:
        namevar = ast.unparse(st[0][1])
        okr = all(ast.unparse(r.ast.value.elts[0]) == namevar for r in rets)
    chk('C16.PRV.1', 'returned name is the certificate name', okr, rets[0].ast if rets else nc.f.node, 'new_cert does not return the name it put into the certificate')
    st = attr_stores.get('cert_val.content', [])
    chk('C16.PRV.1', 'content = public key', len(st) == 1 and ast.unparse(st[0][1]) == 'pub_key', st[0][0].ast if st else nc.f.node,
        'the certificate content is not exactly the given public key')
    st = attr_stores.get('cert_val.meta_info', [])
    okm = False
    if len(st) == 1 and isinstance(st[0][1], ast.Call):
        kw = bound_args(P, nc, st[0][1])
        okm = 'content_type' in kw and ast.unparse(kw['content_type']) == 'ContentType.KEY'
    chk('C16.PRV.1', 'content type KEY', okm, st[0][0].ast if st else nc.f.node, 'the certificate content type is not KEY')
    for field, param in (('not_before', 'start_time'), ('not_after', 'end_time')):
        st = attr_stores.get(f'cert_val.signature_info.validity_period.{field}', [])
        okf = False
        why = 'not set'
        if len(st) == 1:
            for s in nc.sources(st[0][0], st[0][1]):
                if s.kind == 'expr':
                    e = s.expr
                    # <x>.strftime(FMT).encode()
                    if isinstance(e, ast.Call) and callee_attr(e) == 'encode' and isinstance(e.func.value, ast.Call) \
                            and callee_attr(e.func.value) == 'strftime':
                        sf = e.func.value
                        fa = inline_ast(s.ctx, sf.args[0]) if sf.args else None      # (the format may be held in a local)
                        fmt = fa.value if isinstance(fa, ast.Constant) else None
                        base = sf.func.value
                        bs = nc.sources(s.node, base)
                        if fmt != FMT:
                            why = f'time format {fmt!r} instead of {FMT!r}'
                        elif not (bs and all(b.kind == 'param' and b.expr == param for b in bs)):
                            why = f'derived from {srcs_text(bs)} instead of {param}'
                        else:
                            okf = True
                    else:
                        why = f'value is {ast.unparse(e)[:60]}'
        if not st and any(isinstance(x, ast.Attribute) and x.attr == field and isinstance(x.ctx, ast.Store) for x in ast.walk(nc.f.node)):
            # the field *is* stored, in a form the store table does not read (tuple / starred target, through a list built in a loop)
            R.defer(f'new_cert: the store to .{field} is in a form that cannot be read (C16.PRV.1 undecided for {field})')
            continue
        chk('C16.PRV.1', f'{field} <- {param}', okf, st[0][0].ast if st else nc.f.node, f'validity period {field}: {why}')
    sets = [c for (n, c) in calls_in_ctx(nc, attr='set_arg') if ast.unparse(c.func.value) == f'{root}._signer']
    chk('C16.PRV.1', 'signer argument signs', len(sets) == 1 and [ast.unparse(a) for a in sets[0].args] == ['markers', 'signer'],
        sets[0] if sets else nc.f.node, 'the certificate is not signed with the signer argument')
    encs = [c for (n, c) in calls_in_ctx(nc, attr='encode') if ast.unparse(c.func.value) == root]
    chk('C16.PRV.1', 'encode with the same markers', len(encs) == 1 and ast.unparse(call_arg(P, nc, encs[0], 'markers', ast.Constant(None))) == 'markers',
        encs[0] if encs else nc.f.node, 'the certificate value is not encoded with the markers that carry the signer')
    # ------------------------------------------------------------------ SIZ.1
    R.ob('C16.SIZ.1', 'new_cert: outer TLV assembled exactly: buffer = TL(DATA) + TL(n) + n, type at 0, length at TL(DATA), value after, '
                      'n = len(value) - signature shrink')
    try:
        shr_calls = [c for (n, c) in calls_in_ctx(nc, attr='get_arg') if ast.unparse(c.func.value) == f'{root}._shrink_len' and [ast.unparse(a) for a in c.args] == ['markers']]
        valv = [nm for n in nc.cfg.nodes for (nm, v) in nc.cfg.defs_of(n) if isinstance(v, ast.Call) and v in encs]
        R.need(len(valv) == 1, 'new_cert: the encoded certificate value is not bound to one local')
        valv = valv[0]
        chk('C16.SIZ.1', 'shrink amount from the signing markers', len(shr_calls) >= 1, shr_calls[0] if shr_calls else nc.f.node,
            'the shrink amount is not read from the markers of this encode')
        # the straight-line assembly is executed in the linear-size domain (write_tl_num(X, ..) yields TL(X) = get_tl_num_size(X), the
        # identity the VAR-NUMBER tables establish): sizes and offsets may be hoisted into locals or kept as a running offset
        from ..sizeexec import expr as sx
        from ..linexpr import _add
        env = {}
        writes, stores, bufdefs = [], [], []
        bnames = {ast.unparse(r.ast.value.elts[1]) for r in rets if isinstance(r.ast.value, ast.Tuple) and len(r.ast.value.elts) == 2}
        R.need(len(bnames) == 1 and all(isinstance(r.ast.value.elts[1], ast.Name) for r in rets if isinstance(r.ast.value, ast.Tuple)),
               f'new_cert: the assembled packet is not one local returned as second element ({sorted(bnames)})')
        B = bnames.pop()

        def note_writes(e):
            for c in ast.walk(e):
                if isinstance(c, ast.Call) and ast.unparse(c.func).endswith('write_tl_num') and c.args:
                    ba = bound_args(P, nc, c)
                    off = ba.get('offset', c.args[2] if len(c.args) > 2 else ast.Constant(0))
                    writes.append((c, sx(c.args[0], env, {}), ast.unparse(ba.get('buf', c.args[1] if len(c.args) > 1 else ast.Constant(None))), sx(off, env, {})))

        def walk_block(stmts):
            for st_ in stmts:
                if type(st_).__name__ == 'InlineBlock':
                    walk_block(st_.body)
                    continue
                if isinstance(st_, (ast.If, ast.For, ast.While, ast.Try, ast.With)):
                    if any(isinstance(x, ast.Name) and x.id == B for x in ast.walk(st_)):
                        raise AnalysisError(f'new_cert: the packet buffer is assembled under control flow (`{norm(st_)[:60]}`), not in straight line')
                    continue
                if isinstance(st_, ast.Assign) and len(st_.targets) == 1:
                    t_, v_ = st_.targets[0], st_.value
                    note_writes(v_)
                    if isinstance(t_, ast.Name):
                        if t_.id == B and isinstance(v_, ast.Call) and ast.unparse(v_.func) == 'bytearray' and v_.args:
                            bufdefs.append((v_, sx(v_.args[0], env, {})))
                        try:
                            env[t_.id] = sx(v_, env, {})
                        except NotLinear:
                            env.pop(t_.id, None)
                    elif isinstance(t_, ast.Subscript) and ast.unparse(t_.value) == B and isinstance(t_.slice, ast.Slice):
                        lo = sx(t_.slice.lower, env, {}) if t_.slice.lower is not None else {}
                        src_ok = isinstance(v_, ast.Subscript) and isinstance(v_.slice, ast.Slice) and ast.unparse(v_.value) in (valv, f'memoryview({valv})')
                        vlo = (sx(v_.slice.lower, env, {}) if v_.slice.lower is not None else {}) if src_ok else None
                        vhi = (sx(v_.slice.upper, env, {}) if v_.slice.upper is not None else None) if src_ok else None
                        stores.append((st_, lo, t_.slice.upper, vlo, vhi, src_ok))
                elif isinstance(st_, ast.AugAssign) and isinstance(st_.target, ast.Name) and isinstance(st_.op, (ast.Add, ast.Sub)):
                    note_writes(st_.value)
                    try:
                        env[st_.target.id] = _add(env.get(st_.target.id, {st_.target.id: 1}), sx(st_.value, env, {}), 1 if isinstance(st_.op, ast.Add) else -1)
                    except NotLinear:
                        env.pop(st_.target.id, None)
                elif isinstance(st_, ast.Expr):
                    note_writes(st_.value)
        walk_block(nc.f.node.body)
        N = sx(ast.parse(f'len({valv}) - {root}._shrink_len.get_arg(markers)', mode='eval').body, {valv: env[valv]} if valv in env else {}, {})
        TLD = {'get_tl_num_size(TypeNumber.DATA)': 1}
        TLN = {f'get_tl_num_size({show(N)})': 1}
        want_len = _add(_add(TLD, TLN), N)
        okb = len(bufdefs) == 1 and bufdefs[0][1] == want_len
        chk('C16.SIZ.1', 'buffer size', okb, bufdefs[0][0] if bufdefs else nc.f.node,
            f'buffer length is {show(bufdefs[0][1]) if bufdefs else "?"}, expected {show(want_len)}')
        ws = [w_ for w_ in writes if w_[2] == B]
        okw = len(ws) == 2 and ws[0][1] == {'TypeNumber.DATA': 1} and ws[0][3] == {} and ws[1][1] == N and ws[1][3] == TLD
        chk('C16.SIZ.1', 'type at 0, length at TL(type)', okw, ws[1][0] if len(ws) > 1 else nc.f.node,
            'the outer Type/Length are not written as (DATA at 0, len(value) - shrink at TL(DATA))')
        oks = len(stores) == 1 and stores[0][5] and stores[0][1] == _add(TLD, TLN) and stores[0][2] is None and stores[0][3] == {} and stores[0][4] == N
        chk('C16.SIZ.1', 'value placed after the header, truncated by the shrink', oks, stores[0][0] if stores else nc.f.node,
            'the value is not copied to offset TL(DATA)+TL(n) as value[0:n]')
        chk('C16.SIZ.1', 'the assembled buffer is returned', bool(rets) and bool(bufdefs), rets[0].ast if rets else nc.f.node, 'new_cert does not return the assembled packet')
    except NotLinear as e:
        raise AnalysisError(f'new_cert: size expression not linear: {e}')
    # ------------------------------------------------------------------ PRV.2 wrappers
    R.ob('C16.PRV.2', 'self_sign / sign_req / derive_cert pass their arguments through to new_cert with the right issuer component and period')
    for fn, issuer in (('self_sign', 'SELF_COMPONENT'), ('sign_req', 'SIGN_REQ_COMPONENT'), ('derive_cert', None)):
        cx = ctx(R, f'{SV}.{fn}')
        calls = [c for (n, c) in calls_in_ctx(cx) if isinstance(c.func, ast.Name) and c.func.id == 'new_cert']
        inst = f'{cx.qual} :: arguments of new_cert'
        probs = []
        if not calls or not all(isinstance(r.ast.value, ast.Call) and any(r.ast.value is c for c in calls) for r in returns(cx)):
            probs.append('does not return new_cert(...)')
        elif len(calls) != 1 and fn != 'derive_cert':
            raise AnalysisError(f'{fn}: {len(calls)} calls of new_cert (one expected)')
        else:
            for c_ in calls:
                a = [ast.unparse(x) for x in c_.args]
                if [a[0], a[2], a[3]] != ['key_name', 'pub_key', 'signer']:
                    probs.append(f'key name / public key / signer are passed as {[a[0], a[2], a[3]]}')
                if issuer and a[1] != issuer:
                    probs.append(f'issuer component is {a[1]}, expected {issuer}')
            a = [ast.unparse(x) for x in calls[0].args]
            if fn == 'derive_cert':
                # valuation "the issuer id is text": exactly then it is converted with Component.from_str, otherwise passed as given
                for text in (True, False):
                    def atom(e, text=text):
                        return text if ast.unparse(e) == 'isinstance(issuer_id, str)' else None
                    reach = explore(cx, atom)
                    live = [c_ for c_ in calls if cx.node_of(c_).id in reach]
                    if not live:
                        probs.append(f'no certificate is issued when the issuer id is {"text" if text else "a component"}')
                    for c_ in live:
                        # only the bindings that are live under this valuation count
                        srcs = cx.sources(cx.node_of(c_), c_.args[1], live=reach)
                        conv = [s_ for s_ in srcs if s_.kind == 'expr' and ast.unparse(s_.expr) == 'Component.from_str(issuer_id)']
                        raw = [s_ for s_ in srcs if s_.kind == 'param' and s_.expr == 'issuer_id']
                        other = [s_ for s_ in srcs if s_ not in conv and s_ not in raw]
                        if other:
                            probs.append(f'issuer component is {srcs_text(other)}')
                        if text and raw and not _killed(cx, c_, atom):
                            probs.append('a textual issuer id is not converted with Component.from_str (only when it is text)')
                        if not text and conv:
                            probs.append('a textual issuer id is not converted with Component.from_str (only when it is text)')
                for c_ in calls:
                    if full_text(cx, c_.args[5]) != 'start_time + timedelta(seconds=expire_sec)':
                        probs.append('end of validity is not start_time + expire_sec seconds')
                    if ast.unparse(c_.args[4]) != 'start_time':
                        probs.append(f'validity start passed as {ast.unparse(c_.args[4])}')
                    # ... and it is the caller's instant itself: every binding of the name that reaches the call (and the end computation) is the parameter
                    for what, e_ in (('start', c_.args[4]), ('end', c_.args[5])):
                        for nm in sorted({x.id for x in ast.walk(inline_ast(cx, e_)) if isinstance(x, ast.Name) and x.id == 'start_time'}):
                            srcs = cx.sources(cx.node_of(c_), ast.Name(id=nm, ctx=ast.Load()))
                            notp = [s_ for s_ in srcs if not (s_.kind == 'param' and s_.expr == 'start_time')]
                            if notp:
                                probs.append(f'the validity {what} is computed from {srcs_text(notp)}, not from the start_time argument as given: the requested '
                                             'instant is converted on the way (a naive datetime is wall-clock UTC by the convention of new_cert / self_sign)')
            else:
                end = calls[0].args[5]
                cn = cx.node_of(calls[0])
                ends = {full_text(cx, end)}
                if isinstance(end, ast.Name) and full_text(cx, end) == end.id:
                    ends = {ast.unparse(v) for (d, v) in cx.cfg.defs_reaching(cn, end.id) if isinstance(v, ast.AST)} or ends
                want = 'timedelta(days=10)' if fn == 'sign_req' else '.replace(year='
                if not all(want in e for e in ends):
                    probs.append(f'validity end passed as {sorted(ends)} (expected an expression with {want})')
        if probs:
            R.fail('C16.PRV.2', inst, cx.qual, calls[0] if calls else 'def ' + fn, '; '.join(probs), site(cx, cx.f.node))
        else:
            R.ok('C16.PRV.2', inst, site(cx, calls[0]))
    for cname, text in (('KEY_COMPONENT', 'KEY'), ('SELF_COMPONENT', 'self'), ('SIGN_REQ_COMPONENT', 'cert-request')):
        r = P.lookup(SV, cname)
        inst = f'{SV}.{cname}'
        okc = r and r[0] == 'const' and isinstance(r[3], ast.Call) and ast.unparse(r[3].func) == 'Component.from_str' \
            and r[3].args and isinstance(r[3].args[0], ast.Constant) and r[3].args[0].value == text
        if okc:
            R.ok('C16.PRV.2', inst, P.path_of(SV), text)
        else:
            R.fail('C16.PRV.2', inst, SV, cname, f'well-known component {cname} is not Component.from_str({text!r})', P.path_of(SV))
    # ------------------------------------------------------------------ PRV.3 key locator of the issuing signer
    R.ob('C16.PRV.3', 'every key-based signer writes a fresh KeyLocator naming its currently configured key_locator_name')
    nsig = 0
    for q, f in sorted(P.funcs.items()):
        if not (q.startswith('ndn.security.signer.') and q.endswith('.write_signature_info')):
            continue
        cx = ctx(R, q)
        stores = {}
        for n in cx.cfg.nodes:
            if n.kind == 'stmt' and isinstance(n.ast, ast.Assign):
                for t in n.ast.targets:
                    stores.setdefault(ast.unparse(t), []).append(ast.unparse(n.ast.value))
        st = stores.get('signature_info.signature_type', [''])[0]
        if st.endswith(('DIGEST_SHA256', 'NULL')):
            continue
        nsig += 1
        inst = f'{q} :: key locator'
        if stores.get('signature_info.key_locator') == ['KeyLocator()'] and stores.get('signature_info.key_locator.name') == ['self.key_locator_name']:
            R.ok('C16.PRV.3', inst, site(cx, cx.f.node))
        else:
            R.fail('C16.PRV.3', inst, q, 'def write_signature_info', 'the signature does not name the key locator currently configured in the signer: '
                   f'key_locator={stores.get("signature_info.key_locator")}, name={stores.get("signature_info.key_locator.name")}', site(cx, cx.f.node))
    R.need(nsig >= 4, f'only {nsig} key-based signers found')
    # ------------------------------------------------------------------ FLD.1
    R.ob('C16.FLD.1', 'certificate models: SignatureInfo at 0x16 in the Data position, ValidityPeriod 0xFD{0xFE,0xFF}, extension after; '
                      'parse_certificate checks the outer type')
    M = models_of(P)
    cv = [(f.name, f.type) for f in M.fields(SV + '.CertificateV2Value') if f.wire]
    inst = 'CertificateV2Value :: Data field order'
    if [t for (_, t) in cv] == [0x07, 0x14, 0x15, 0x16, 0x17]:
        R.ok('C16.FLD.1', inst, P.path_of(SV), str(cv))
    else:
        R.fail('C16.FLD.1', inst, SV + '.CertificateV2Value', 'class CertificateV2Value', f'wire fields are {cv}', P.path_of(SV))
    si = next(f for f in M.fields(SV + '.CertificateV2Value') if f.name == 'signature_info')
    inst = 'CertificateV2Value.signature_info :: certificate SignatureInfo model'
    if si.nested == (SV, 'CertificateV2SignatureInfo') and si.type == 0x16:
        R.ok('C16.FLD.1', inst, P.path_of(SV))
    else:
        R.fail('C16.FLD.1', inst, SV + '.CertificateV2Value', 'signature_info', f'signature_info is {si.kind} type {si.type} model {si.nested}', P.path_of(SV))
    csi = [(f.name, f.type) for f in M.fields(SV + '.CertificateV2SignatureInfo') if f.wire]
    types = [t for (_, t) in csi]
    inst = 'CertificateV2SignatureInfo :: field order'
    if types[:2] == [0x1b, 0x1c] and 0xFD in types and 0x0102 in types and types.index(0xFD) < types.index(0x0102) and types.index(0x1c) < types.index(0xFD):
        R.ok('C16.FLD.1', inst, P.path_of(SV), str(csi))
    else:
        R.fail('C16.FLD.1', inst, SV + '.CertificateV2SignatureInfo', 'class CertificateV2SignatureInfo', f'wire fields are {csi}', P.path_of(SV))
    vp = [(f.name, f.type) for f in M.fields(SV + '.ValidityPeriod')]
    inst = 'ValidityPeriod :: NotBefore 0xFE, NotAfter 0xFF'
    if vp == [('not_before', 0xFE), ('not_after', 0xFF)]:
        R.ok('C16.FLD.1', inst, P.path_of(SV))
    else:
        R.fail('C16.FLD.1', inst, SV + '.ValidityPeriod', 'class ValidityPeriod', f'fields are {vp}', P.path_of(SV))
    pc = ctx(R, SV + '.parse_certificate')
    chkc = [c for (n, c) in calls_in_ctx(pc) if ast.unparse(c.func).endswith('parse_and_check_tl')]
    inst = pc.qual + ' :: outer type checked, parsed as CertificateV2Value'
    okp = len(chkc) == 1 and len(chkc[0].args) > 1 and P.const_value(pc.f.mod, chkc[0].args[1]) == 0x06 and \
        bool(returns(pc)) and all(full_text(pc, r.ast.value).startswith('CertificateV2Value.parse(') for r in returns(pc))      # (directly, or through the local it was bound to)
    if okp:
        R.ok('C16.FLD.1', inst, site(pc, chkc[0]))
    else:
        R.fail('C16.FLD.1', inst, pc.qual, 'def parse_certificate', 'parse_certificate does not check for a Data TLV / parse CertificateV2Value', site(pc, pc.f.node))
    # a certificate verifies under its issuer's key only if the issuing signer and the verifier agree on scheme and hash: the C02 table
    from .common import shared_obligations
    R.ob('C16.SHR.1', 'shared with C02: every key-based signer and its verifier agree on signature type, scheme parameters and hash')
    shared_obligations(R, 'C16.SHR.1', 'C02', {'C02.SIB.1': None})
    R.assumptions += ['signature verification and time-zone correctness of the formatted instants are not decided',
                      'NDN certificate format v2 field numbers as transcribed']
