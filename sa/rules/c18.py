"""C18 — state-vector sync (DESIGN §4 C18)."""
import ast

from .common import ctx, returns, calls_in_ctx, reach_from_succ, site, srcs_text, escape_check, self_attr, bound_args, explore, explore_sym, alias_text, call_arg
from ..flow import callee_attr
from ..loader import AnalysisError, norm

SV = 'ndn.app_support.svs.sync.SvsInst'
STATE_ATTRS = ('local_sv', 'agg_sv', 'state')


def state_writes(cx):
    """CFG nodes that modify self.local_sv / self.agg_sv / self.state (stores, subscript stores, mutating calls, aggregate())"""
    out = []
    for n in cx.cfg.nodes:
        hit = False
        if n.kind == 'stmt' and isinstance(n.ast, (ast.Assign, ast.AugAssign)):
            tgts = n.ast.targets if isinstance(n.ast, ast.Assign) else [n.ast.target]
            for t in tgts:
                base = t.value if isinstance(t, ast.Subscript) else t
                if any(self_attr(base, a) for a in STATE_ATTRS):
                    hit = True
        for c in n.calls():
            if isinstance(c.func, ast.Attribute) and c.func.attr in ('update', 'pop', 'clear', 'setdefault', '__setitem__') \
                    and any(self_attr(c.func.value, a) for a in STATE_ATTRS):
                hit = True
            if callee_attr(c) in ('aggregate', 'on_missing_data') and isinstance(c.func.value, ast.Name) and c.func.value.id == 'self':
                hit = True
        if hit:
            out.append(n)
    return out


def lt_edge(test, small_pred, big_pred):
    """for a comparison test return the label under which  small < big  holds strictly, else None"""
    if not (isinstance(test, ast.Compare) and len(test.ops) == 1):
        return None
    l, r, op = test.left, test.comparators[0], test.ops[0]
    if small_pred(l) and big_pred(r):
        return {ast.Lt: True, ast.GtE: False}.get(type(op))
    if big_pred(l) and small_pred(r):
        return {ast.Gt: True, ast.LtE: False}.get(type(op))
    return None


def run(R):
    P = R.P
    sh = ctx(R, SV + '.sync_handler')
    R.ob('C18.ESC.1', 'escape set of sync_handler is empty (any received vector, well-formed or not, is handled or dropped)')
    escape_check(R, 'C18.ESC.1', SV + '.sync_handler', set(), 'the sync Interest handler')

    # ------------------------------------------------------------------ ORD.1
    R.ob('C18.ORD.1', 'a vector claiming more data for this node than it produced is ignored entirely: the early return is '
                      'taken before any write to local_sv / agg_sv / state and the test is `remote > own`')
    tests = [t for t in sh.cfg.nodes if t.kind == 'test' and isinstance(t.ast, ast.Compare) and 'self.self_seq' in ast.unparse(t.ast)]
    inst = sh.qual + ' :: remote claims more for me'
    if len(tests) != 1:
        R.fail('C18.ORD.1', inst, sh.qual, 'def sync_handler', f'{len(tests)} comparisons with the own sequence number; the guard is missing or duplicated',
               site(sh, sh.f.node))
    else:
        t = tests[0]
        lab = lt_edge(t.ast, lambda e: ast.unparse(e) == 'self.self_seq', lambda e: isinstance(e, ast.Name) or (isinstance(e, ast.Attribute) and e.attr == 'seq_no'))
        idt = [x for x in sh.cfg.nodes if x.kind == 'test' and 'self.self_node_id' in ast.unparse(x.ast)]
        probs = []
        if lab is None:
            probs.append((f'guard is `{norm(t.ast)}`, expected remote sequence > own sequence', t.ast))
        else:
            r = reach_from_succ(sh.cfg, t, lab, follow_exc=False)
            rets = [x for x in returns(sh) if x.id in r]
            writes = state_writes(sh)
            # the guarded edge must lead straight to a return without touching state
            # followed path-sensitively (a helper may hand the verdict back as None, tested by the caller right after)
            before_ret = set()
            for (s0, l0) in t.succ:
                if l0 == lab:
                    before_ret |= explore(sh, lambda e: None, start=s0, stop={x.id for x in rets})
            before_ret -= {x.id for x in rets}
            if not rets or sh.cfg.falloff.id in before_ret or any(w.id in before_ret for w in writes):
                probs.append(('the over-claiming vector is not dropped (no immediate return)', t.ast))
            # no state write can precede the guard
            for w in writes:
                if sh.cfg.path_exists(w, t):
                    probs.append((f'state is modified ({norm(w.ast)}) before the over-claim guard has seen every entry', w.ast))
            if not idt or not sh.cfg.dominates(idt[0], t):
                probs.append(('the guard is not restricted to the entry of this node (self_node_id)', t.ast))
        if probs:
            for (what, construct) in probs:
                R.fail('C18.ORD.1', inst, sh.qual, construct, what, site(sh, construct))
        else:
            R.ok('C18.ORD.1', inst, site(sh, t.ast), f'`{norm(t.ast)}` -> return, {len(state_writes(sh))} state writes all later')
    # ------------------------------------------------------------------ MPT.1 / MPT.2
    R.ob('C18.MPT.1', 'local_sv[k] = v only under old < v with old = local_sv.get(k, 0): the local vector never decreases')
    R.ob('C18.MPT.2', 'need_fetch becomes true exactly where an entry is raised; on_missing_data fires iff need_fetch')
    stores = [n for n in sh.cfg.nodes if n.kind == 'stmt' and isinstance(n.ast, ast.Assign)
              and any(isinstance(t, ast.Subscript) and self_attr(t.value, 'local_sv') for t in n.ast.targets)]
    R.need(stores, 'sync_handler: no store into local_sv (merge missing)')
    raise_edges = []
    for st in stores:
        tgt = [t for t in st.ast.targets if isinstance(t, ast.Subscript)][0]
        key, val = ast.unparse(tgt.slice), ast.unparse(st.ast.value)
        inst = f'{sh.qual} :: {norm(st.ast)}'

        def is_old(e):
            for s in sh.sources(st, e):
                if s.kind == 'expr' and isinstance(s.expr, ast.Call) and callee_attr(s.expr) == 'get' and self_attr(s.expr.func.value, 'local_sv') \
                        and s.expr.args and ast.unparse(s.expr.args[0]) == key:
                    d = s.expr.args[1] if len(s.expr.args) > 1 else None
                    if d is None or (isinstance(d, ast.Constant) and d.value in (0, -1)):
                        return True
            return False
        edges = []
        for t in sh.cfg.nodes:
            if t.kind == 'test':
                lab = lt_edge(t.ast, is_old, lambda e: ast.unparse(e) == val)
                if lab is not None:
                    edges.append((t.id, lab))
        if not edges or st.id in sh.cfg.reachable(removed_edges=set(edges)):
            R.fail('C18.MPT.1', inst, sh.qual, st.ast, 'the local vector entry can be overwritten without the received value being strictly '
                   'greater than the stored one (it may decrease, or equal values count as news)', site(sh, st.ast))
        else:
            R.ok('C18.MPT.1', inst, site(sh, st.ast), 'guarded by old < new')
            raise_edges += edges
    # every entry of the received vector is merged: loop over the accumulated dict without early exit
    loops = [n for n in sh.cfg.nodes if n.kind == 'for' and any(x is stores[0].ast for x in ast.walk(n.ast))]
    inst = sh.qual + ' :: merge loop completeness'
    if len(loops) != 1 or any(isinstance(x, (ast.Break, ast.Return)) for x in ast.walk(loops[0].ast)):
        R.fail('C18.MPT.1', inst, sh.qual, loops[0].ast if loops else 'def sync_handler', 'not every received entry is merged', site(sh, sh.f.node))
    else:
        R.ok('C18.MPT.1', inst, site(sh, loops[0].ast))
    nf_true = [n for n in sh.cfg.nodes if n.kind == 'stmt' and isinstance(n.ast, ast.Assign) and ast.unparse(n.ast.targets[0]) == 'need_fetch'
               and isinstance(n.ast.value, ast.Constant) and n.ast.value.value is True]
    nf_all = [n for n in sh.cfg.nodes if n.kind == 'stmt' and isinstance(n.ast, ast.Assign) and ast.unparse(n.ast.targets[0]) == 'need_fetch']
    inst = sh.qual + ' :: need_fetch'
    probs = []
    no_flag = not nf_all and not any(isinstance(x, ast.Name) and x.id == 'need_fetch' for x in ast.walk(sh.f.node))
    if no_flag:
        R.defer('sync_handler: "some entry was raised" is not kept in a flag named `need_fetch` (restructured; C18.MPT.2 cannot be read)')
    if no_flag:
        pass
    elif not nf_true:
        probs.append(('need_fetch is never set', sh.f.node))
    for n in nf_true:
        if n.id in sh.cfg.reachable(removed_edges=set(raise_edges)):
            probs.append(('need_fetch is set on a path where no entry was raised', n.ast))
    for st in stores:
        # raising an entry always sets need_fetch: from the store (or to it) a True-def is unavoidable in the same branch
        if not any(sh.cfg.dominates(n, st) or sh.cfg.dominates(st, n) for n in nf_true):
            probs.append(('an entry can be raised without need_fetch being set', st.ast))
    for n in nf_all:
        if n not in nf_true and not (isinstance(n.ast.value, ast.Constant) and n.ast.value.value is False):
            probs.append((f'need_fetch gets a non-constant value {norm(n.ast)}', n.ast))
        if n not in nf_true and any(sh.cfg.path_exists(t_, n) for t_ in nf_true):
            probs.append(('need_fetch can be reset after an entry was raised', n.ast))
    cbs = calls_in_ctx(sh, attr='on_missing_data')
    nft = [t for t in sh.cfg.nodes if t.kind == 'test' and ast.unparse(t.ast) == 'need_fetch']
    if len(cbs) != 1 or len(nft) != 1:
        probs.append((f'{len(cbs)} on_missing_data call(s) / {len(nft)} need_fetch test(s)', sh.f.node))
    else:
        (cn, cc) = cbs[0]
        if cn.id in sh.cfg.reachable(removed_edges={(nft[0].id, True)}):
            probs.append(('on_missing_data can fire although no entry was raised', cc))
        rT = reach_from_succ(sh.cfg, nft[0], True, removed_nodes={cn.id}, follow_exc=False)
        if sh.cfg.exit.id in rT:
            probs.append(('a raised entry does not always lead to on_missing_data', cc))
        # the test is reached on every normal path after the merge loop (no early return between merge and notification)
        if loops:
            after = reach_from_succ(sh.cfg, loops[0], False, removed_nodes={nft[0].id}, follow_exc=False)
            if sh.cfg.exit.id in after:
                probs.append(('the handler can return after merging without reaching the missing-data notification', nft[0].ast))
        if not (cc.args and ast.unparse(cc.args[0]) == 'self'):
            probs.append(('on_missing_data is not called with the instance', cc))
    if no_flag:
        pass
    elif probs:
        for (what, construct) in probs:
            R.fail('C18.MPT.2', inst, sh.qual, construct if not isinstance(construct, ast.FunctionDef) else 'def sync_handler', what, site(sh, construct))
    else:
        R.ok('C18.MPT.2', inst, site(sh, nf_true[0].ast))
    # ------------------------------------------------------------------ ORD.3 a pending emission is not postponed by a whole period
    R.ob('C18.ORD.3', 'sync_handler restarts the periodic timer only when no emission is already due: new_data() arms the timer for an immediate '
                      'sync Interest, and a vector handled before the timer task wakes must not push that out by a sync period')
    inst = sh.qual + ' :: periodic timer reset is conditional on nothing being due'
    resets = [n for n in sh.cfg.nodes if n.kind == 'stmt' and isinstance(n.ast, ast.Assign) and any(
        isinstance(t, ast.Attribute) and isinstance(t.value, ast.Name) and t.value.id == 'self' and t.attr == 'next_sync_timing' for t in n.ast.targets)
        and 'sample_sync_timer' in ast.unparse(n.ast.value)]
    if resets:
        # edges taken when an emission is due (next_sync_timing <= now, or the 0 that new_data() stores)
        notdue = set()
        for t in sh.cfg.nodes:
            if t.kind != 'test':
                continue
            e = t.ast
            txt = ast.unparse(e)
            if txt == 'self.next_sync_timing':
                notdue.add((t.id, True))
            elif isinstance(e, ast.Compare) and len(e.ops) == 1 and 'self.next_sync_timing' in (ast.unparse(e.left), ast.unparse(e.comparators[0])):
                left_is = ast.unparse(e.left) == 'self.next_sync_timing'
                other = ast.unparse(e.comparators[0] if left_is else e.left)
                op = type(e.ops[0])
                if not left_is:
                    op = {ast.Lt: ast.Gt, ast.Gt: ast.Lt, ast.LtE: ast.GtE, ast.GtE: ast.LtE}.get(op, op)
                if 'time' in other or other == '0':
                    if op in (ast.Gt,):
                        notdue.add((t.id, True))
                    elif op in (ast.LtE,):
                        notdue.add((t.id, False))
                    elif op is ast.NotEq and other == '0':
                        notdue.add((t.id, True))
                    elif op is ast.Eq and other == '0':
                        notdue.add((t.id, False))
        r_due = sh.cfg.reachable(removed_edges=notdue, follow_exc=False)
        late = [n for n in resets if n.id in r_due]
        if late:
            R.fail('C18.ORD.3', inst, sh.qual, late[0].ast, f'`{norm(late[0].ast)}` runs whatever the pending timer value is: a publish made just before (new_data() sets '
                   'next_sync_timing = 0 and wakes the timer task) is announced a whole sync period later when a sync Interest that calls for no '
                   'notification is handled before the timer task runs (repro notes/repro/e15.py)', site(sh, late[0].ast))
        else:
            R.ok('C18.ORD.3', inst, site(sh, resets[0].ast))
    else:
        R.ok('C18.ORD.3', inst, site(sh, sh.f.node), 'the handler never restarts the periodic timer')
    # ------------------------------------------------------------------ PRV.1 aggregate
    R.ob('C18.PRV.1', 'aggregate: agg_sv[k] = max(agg_sv.get(k, 0), v) - the accumulator reads the container it writes')
    ag = ctx(R, SV + '.aggregate')
    def _is_agg(e):
        if self_attr(e, 'agg_sv'):
            return True
        return isinstance(e, ast.Name) and alias_text(ag, e) == 'self.agg_sv'

    def _as_max(v):
        """the two operands when v is max(a, b) or the conditional expression that picks the larger of a and b; else None"""
        if isinstance(v, ast.Call) and isinstance(v.func, ast.Name) and v.func.id == 'max' and len(v.args) == 2:
            return list(v.args)
        if isinstance(v, ast.IfExp) and isinstance(v.test, ast.Compare) and len(v.test.ops) == 1:
            a, b, op = v.test.left, v.test.comparators[0], v.test.ops[0]
            ta, tb, tbody, telse = ast.unparse(a), ast.unparse(b), ast.unparse(v.body), ast.unparse(v.orelse)
            if isinstance(op, (ast.Lt, ast.LtE)) and (tbody, telse) == (tb, ta):
                return [a, b]
            if isinstance(op, (ast.Gt, ast.GtE)) and (tbody, telse) == (ta, tb):
                return [a, b]
        return None
    ast_stores = [n for n in ag.cfg.nodes if n.kind == 'stmt' and isinstance(n.ast, ast.Assign)
                  and any(isinstance(t, ast.Subscript) and _is_agg(t.value) for t in n.ast.targets)]
    if not ast_stores:
        R.fail('C18.PRV.1', ag.qual + ' :: entry-wise maximum', ag.qual, 'def aggregate', 'aggregate() does not merge entry by entry with max(): a vector heard later '
               'can lower the aggregate of the suppression period', site(ag, ag.f.node))
    for st in ast_stores:
        tgt = [t for t in st.ast.targets if isinstance(t, ast.Subscript)][0]
        key = ast.unparse(tgt.slice)
        v = st.ast.value
        inst = f'{ag.qual} :: {norm(st.ast)}'
        ops_ = _as_max(v)
        if ops_ is None:
            R.fail('C18.PRV.1', inst, ag.qual, st.ast, 'the merged value is not the maximum of the stored and the heard value', site(ag, st.ast))
            continue
        reads = []
        for a in ops_:
            for s in ag.sources(st, a):
                if s.kind == 'expr' and isinstance(s.expr, ast.Call) and callee_attr(s.expr) == 'get':
                    base_ = s.expr.func.value
                    reads.append(('self.agg_sv' if _is_agg(base_) else ast.unparse(base_), ast.unparse(s.expr.args[0]) if s.expr.args else None))
        loopv = [n for n in ag.cfg.nodes if n.kind == 'for']
        if reads == [('self.agg_sv', key)]:
            R.ok('C18.PRV.1', inst, site(ag, st.ast), 'max(agg_sv.get(k), v)')
        else:
            R.fail('C18.PRV.1', inst, ag.qual, st.ast, f'the accumulator reads {reads} instead of self.agg_sv[{key}]: vectors heard earlier in the '
                   'suppression period are forgotten or mixed with the local vector', site(ag, st.ast))
    # first vector of a suppression period: agg_sv = copy of that vector
    firsts = [n for n in sh.cfg.nodes if n.kind == 'stmt' and isinstance(n.ast, ast.Assign) and any(self_attr(t, 'agg_sv') for t in n.ast.targets)]
    inst = sh.qual + ' :: suppression period starts from the triggering vector'
    if len(firsts) == 1 and ast.unparse(firsts[0].ast.value) in ('rsv_dict.copy()', 'dict(rsv_dict)'):
        R.ok('C18.PRV.1', inst, site(sh, firsts[0].ast))
    else:
        R.fail('C18.PRV.1', inst, sh.qual, firsts[0].ast if firsts else 'def sync_handler', 'the aggregate of a new suppression period is not '
               'initialised from the vector that started it', site(sh, sh.f.node))
    # ------------------------------------------------------------------ MPT.3 on_timer
    R.ob('C18.MPT.3', 'on_timer: after suppression a sync Interest is sent iff some agg_sv.get(id, 0) < local; in steady state always')
    ot = ctx(R, SV + '.on_timer')
    sends = calls_in_ctx(ot, attr='express_sync_interest')
    ntests = [t for t in ot.cfg.nodes if t.kind == 'test' and ast.unparse(t.ast) == 'necessary']
    inst = ot.qual + ' :: suppression decision'
    probs = []
    if len(sends) == 1 and not ntests and not any(nm == 'necessary' for n_ in ot.cfg.nodes for (nm, _v) in ot.cfg.defs_of(n_)):
        R.defer('on_timer: the suppression decision is not kept in a flag named `necessary` (restructured; C18.MPT.3 cannot be read)')
    elif len(sends) != 1 or len(ntests) != 1:
        probs.append((f'{len(sends)} send(s) / {len(ntests)} tests of `necessary`', ot.f.node))
    else:
        (sn, sc) = sends[0]
        if sn.id in ot.cfg.reachable(removed_edges={(ntests[0].id, True)}):
            probs.append(('a sync Interest can be sent although it was found unnecessary', sc))
        defs = [(n, n.ast.value.value) for n in ot.cfg.nodes if n.kind == 'stmt' and isinstance(n.ast, ast.Assign)
                and ast.unparse(n.ast.targets[0]) == 'necessary' and isinstance(n.ast.value, ast.Constant)]
        supp = [t for t in ot.cfg.nodes if t.kind == 'test' and 'SyncSuppression' in ast.unparse(t.ast) and isinstance(t.ast, ast.Compare)
                and isinstance(t.ast.ops[0], ast.Eq)]
        falses = [n for (n, v) in defs if v is False]
        trues = [n for (n, v) in defs if v is True]
        if len(supp) != 1 or len(falses) != 1 or len(trues) != 2:
            raise AnalysisError(f'on_timer: the end-of-suppression decision is not in the recognised flag-and-scan form ({len(supp)} state tests, '
                                f'flag=False x{len(falses)}, =True x{len(trues)}); an any()/all() over the vector is not read')
        else:
            if falses[0].id in ot.cfg.reachable(removed_edges={(supp[0].id, True)}):
                probs.append(('in steady state the periodic sync Interest can be suppressed', falses[0].ast))
            forstmts = [x for x in ast.walk(ot.f.node) if isinstance(x, ast.For)]
            inner = [n for n in trues if any(any(y is n.ast for y in ast.walk(fs)) for fs in forstmts)]
            if len(inner) != 1:
                probs.append(('cannot find where suppression is overridden', ot.f.node))
            else:
                loop = [n for n in ot.cfg.nodes if n.kind == 'for' and any(x is inner[0].ast for x in ast.walk(n.ast))]
                okloop = len(loop) == 1 and ast.unparse(loop[0].ast.iter) == 'self.local_sv.items()'
                if not okloop:
                    probs.append(('the comparison after suppression does not range over every entry of the local vector', inner[0].ast))
                else:
                    k, v = [ast.unparse(e) for e in loop[0].ast.target.elts]
                    cmp_edges = []
                    for t in ot.cfg.nodes:
                        if t.kind == 'test':
                            lab = lt_edge(t.ast, lambda e: isinstance(e, ast.Call) and callee_attr(e) == 'get' and self_attr(e.func.value, 'agg_sv')
                                          and e.args and ast.unparse(e.args[0]) == k and (len(e.args) < 2 or (isinstance(e.args[1], ast.Constant) and e.args[1].value in (0, -1))),
                                          lambda e: ast.unparse(e) == v)
                            if lab is not None:
                                cmp_edges.append((t.id, lab))
                    if not cmp_edges or inner[0].id in ot.cfg.reachable(falses[0], removed_edges=set(cmp_edges)):
                        probs.append(('after suppression the Interest is (re-)enabled without agg_sv.get(id, 0) < local for some id', inner[0].ast))
            # leaving suppression: state reset to steady
            resets = [n for n in ot.cfg.nodes if n.kind == 'stmt' and isinstance(n.ast, ast.Assign) and any(self_attr(t, 'state') for t in n.ast.targets)
                      and 'SyncSteady' in ast.unparse(n.ast.value)]
            if not resets:
                probs.append(('the suppression state is never left', supp[0].ast))
    if probs:
        for (what, construct) in probs:
            R.fail('C18.MPT.3', inst, ot.qual, construct if not isinstance(construct, ast.AsyncFunctionDef) else 'def on_timer', what, site(ot, construct))
    elif ntests:
        R.ok('C18.MPT.3', inst, site(ot, ntests[0].ast))
    # ------------------------------------------------------------------ PRV.2 new_data / express_sync_interest
    R.ob('C18.PRV.2', 'new_data adds exactly 1, stores it under the own id and arms the timer; express_sync_interest encodes every local entry')
    nd = ctx(R, SV + '.new_data')
    inst = nd.qual + ' :: publish'
    probs = []
    # linear execution of every path: locals and self.self_seq as (symbol -> coefficient) over the sequence number on entry, S
    SEQ = 'self.self_seq'

    def lval(e, env):
        if isinstance(e, ast.Constant) and isinstance(e.value, int) and not isinstance(e.value, bool):
            return ((1, e.value),) if e.value else ()
        t = ast.unparse(e)
        if isinstance(e, (ast.Name, ast.Attribute)):
            return env[t] if t in env else ((t, 1),)
        if isinstance(e, ast.BinOp) and isinstance(e.op, (ast.Add, ast.Sub)):
            a, b = lval(e.left, env), lval(e.right, env)
            if a is None or b is None:
                return None
            d = dict(a)
            for k, v in b:
                d[k] = d.get(k, 0) + (v if isinstance(e.op, ast.Add) else -v)
            return tuple(sorted(((k, v) for k, v in d.items() if v), key=str))
        return None

    def transfer(n, st):
        if n.kind != 'stmt' or not isinstance(n.ast, (ast.Assign, ast.AugAssign)):
            return st
        env = dict(st)
        if isinstance(n.ast, ast.AugAssign):
            tg, val = [n.ast.target], ast.BinOp(left=n.ast.target, op=n.ast.op, right=n.ast.value)
        else:
            tg, val = n.ast.targets, n.ast.value
        v = lval(val, env)
        for t in tg:
            if isinstance(t, ast.Name) or ast.unparse(t) == SEQ:
                env[ast.unparse(t)] = v if v is not None else (('?' + ast.unparse(val), 1),)
            elif isinstance(t, ast.Tuple):
                for x in t.elts:
                    env[ast.unparse(x)] = (('?' + ast.unparse(x), 1),)
        return tuple(sorted(env.items()))
    WANT = tuple(sorted(((SEQ, 1), (1, 1)), key=str))
    reached = explore_sym(nd, lambda e, st_: None, transfer)
    by_node = {}
    for (nid, st_) in reached:
        by_node.setdefault(nid, []).append(dict(st_))
    st = [n for n in nd.cfg.nodes if n.kind == 'stmt' and isinstance(n.ast, ast.Assign)
          and any(isinstance(t, ast.Subscript) and self_attr(t.value, 'local_sv') and ast.unparse(t.slice) == 'self.self_node_id' for t in n.ast.targets)]
    rets = returns(nd)
    seq_stores = [n for n in nd.cfg.nodes if n.kind == 'stmt' and isinstance(n.ast, (ast.Assign, ast.AugAssign))
                  and any(ast.unparse(t) == SEQ for t in (n.ast.targets if isinstance(n.ast, ast.Assign) else [n.ast.target]))]
    R.paths_examined += len(reached)
    if not seq_stores or not rets or any(lval(ast.parse(SEQ, mode='eval').body, env) != WANT for r in rets for env in by_node.get(r.id, [])):
        probs.append(('the own sequence number is not increased by exactly one', nd.f.node))
    if len(st) != 1 or any(lval(st[0].ast.value, env) != WANT for env in by_node.get(st[0].id, [])) \
            or any(r.id in nd.cfg.reachable(removed_nodes=[st[0]]) for r in rets):
        probs.append(('the new sequence number is not stored under the own node id in local_sv', nd.f.node))
    augs = seq_stores
    timing = [n for n in nd.cfg.nodes if n.kind == 'stmt' and isinstance(n.ast, ast.Assign) and any(self_attr(t, 'next_sync_timing') for t in n.ast.targets)]
    sets = calls_in_ctx(nd, attr='set')
    if not timing or not (isinstance(timing[0].ast.value, ast.Constant) and timing[0].ast.value.value == 0) or not sets:
        probs.append(('the sync timer is not armed for an immediate sync Interest', nd.f.node))
    steady = [n for n in nd.cfg.nodes if n.kind == 'stmt' and isinstance(n.ast, ast.Assign) and any(self_attr(t, 'state') for t in n.ast.targets)]
    if not steady or 'SyncSteady' not in ast.unparse(steady[0].ast.value):
        probs.append(('publishing does not leave the suppression state (the announcement could be suppressed)', nd.f.node))
    if not rets or any(r.ast.value is None or lval(r.ast.value, env) != WANT for r in rets for env in by_node.get(r.id, [])):
        probs.append(('new_data does not return the new sequence number', nd.f.node))
    if probs:
        for (what, construct) in probs:
            R.fail('C18.PRV.2', inst, nd.qual, 'def new_data', what, site(nd, nd.f.node))
    else:
        R.ok('C18.PRV.2', inst, site(nd, augs[0].ast))
    es = ctx(R, SV + '.express_sync_interest')
    inst = es.qual + ' :: full vector'
    loops = [n for n in es.cfg.nodes if n.kind == 'for']
    probs = []
    if len(loops) != 1 or ast.unparse(loops[0].ast.iter) != 'self.local_sv.items()' or any(
            isinstance(x, (ast.Break, ast.Continue, ast.Return, ast.If)) for x in ast.walk(loops[0].ast)):
        probs.append('not every entry of local_sv is encoded')
    else:
        k, v = [ast.unparse(e) for e in loops[0].ast.target.elts]
        body = ast.unparse(loops[0].ast)
        import re as _re
        if f'node_id = enc.Name.from_bytes({k})' not in body or f'seq_no = {v}' not in body or not _re.search(r'\.append\(\w+\)', body):
            probs.append('entries are not built from (node id, sequence number) of local_sv')
        else:
            # the list the entries are appended to is the one stored as the vector's entries
            apps_ = [c for c in ast.walk(loops[0].ast) if isinstance(c, ast.Call) and callee_attr(c) == 'append']
            recv = apps_[0].func.value
            if not (alias_text(es, recv).endswith('.entries') or any(
                    n.kind == 'stmt' and isinstance(n.ast, ast.Assign) and ast.unparse(n.ast.targets[0]).endswith('.entries') and ast.unparse(n.ast.value) == ast.unparse(recv)
                    for n in es.cfg.nodes)):
                probs.append('the entries built are not stored into the state vector that is sent')
    sends = calls_in_ctx(es, attr='express')
    if len(sends) != 1:
        probs.append(f'{len(sends)} sync Interests per call')
    else:
        c = sends[0][1]
        kw = {k_: ast.unparse(v_) for k_, v_ in bound_args(P, es, c).items()}
        namearg = c.args[0] if c.args else call_arg(P, es, c, 'name')
        srcs = es.sources(sends[0][0], namearg) if namearg is not None else []
        if not any('self.base_prefix + [' in t and '.encode()' in t for t in srcs_text(srcs)):
            probs.append(f'the Interest name is {srcs_text(srcs)}, expected base_prefix + [encoded vector]')
        if kw.get('signer') != 'self.int_signer' or kw.get('no_response') != 'True':
            probs.append('the sync Interest is not signed with the configured signer / expects a response')
    if probs:
        R.fail('C18.PRV.2', inst, es.qual, 'def express_sync_interest', '; '.join(probs), site(es, es.f.node))
    else:
        R.ok('C18.PRV.2', inst, site(es, loops[0].ast))
    R.assumptions += ['on_missing_data is a user callback (does not raise)', 'timer behaviour and suppression timing are not decided']
