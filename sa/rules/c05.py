"""C05 — nothing that requires validation reaches the application unvalidated (DESIGN §4 C05)."""
import ast
import itertools

from .common import (ctx, family, returns, calls_in_ctx, reach_from_succ, site, srcs_text, truthy_label, resolve_call, test_awaited_call, full_text, inline_ast, spliced_args)
from ..flow import callee_attr
from ..loader import AnalysisError, norm
from ..verdict import EnumDomain, BoolDomain, enum_members, accepting_set, pruned_edges, member_of

ACCEPT = ['PASS', 'ALLOW_BYPASS']     # docstring of ndn.types.ValidResult: "only PASS and ALLOW_BYPASS are considered as True"


def awaited_call(e):
    """the Call inside `await f(...)`, else None"""
    if isinstance(e, ast.Await) and isinstance(e.value, ast.Call):
        return e.value
    return None


def verdict_defs(cx, sink_nodes, var):
    """all definitions of local `var` reaching any of the given nodes: list of (defnode, value)"""
    out = {}
    for n in sink_nodes:
        for (d, v) in cx.cfg.defs_reaching(n, var):
            out[d.id] = (d, v)
    return list(out.values())


def presence_table(expr, atoms):
    """truth table of a boolean expression over `X is None` / `X is not None` atoms.
    atoms: list of expression texts. returns dict combo(tuple of bool 'is present') -> bool, or None if unrecognised"""
    def ev(e, env):
        if isinstance(e, ast.BoolOp):
            vs = [ev(v, env) for v in e.values]
            if any(v is None for v in vs):
                return None
            return all(vs) if isinstance(e.op, ast.And) else any(vs)
        if isinstance(e, ast.UnaryOp) and isinstance(e.op, ast.Not):
            v = ev(e.operand, env)
            return None if v is None else (not v)
        if isinstance(e, ast.Compare) and len(e.ops) == 1 and isinstance(e.comparators[0], ast.Constant) \
                and e.comparators[0].value is None:
            t = ast.unparse(e.left)
            if t in env:
                if isinstance(e.ops[0], (ast.IsNot, ast.NotEq)):
                    return env[t]
                if isinstance(e.ops[0], (ast.Is, ast.Eq)):
                    return not env[t]
        return None
    table = {}
    for combo in itertools.product([False, True], repeat=len(atoms)):
        env = dict(zip(atoms, combo))
        r = ev(expr, env)
        if r is None:
            return None
        table[combo] = r
    return table


def run(R):
    P = R.P
    members = enum_members(P, 'ndn.types.ValidResult')
    R.need(set(ACCEPT) <= set(members), f'ValidResult members {members} do not contain {ACCEPT}')
    dom = EnumDomain('ValidResult', members)
    R.extra['verdict_domain'] = members

    # ================================================================= C05.MPT.1  v2 PendingIntEntry.satisfy
    R.ob('C05.MPT.1', 'v2 PendingIntEntry.satisfy: result delivered exactly for verdicts {PASS, ALLOW_BYPASS}; no accepting '
                      'constant is ever assigned; every other verdict ends in ValidationFailure carrying packet and verdict')
    cx = ctx(R, 'ndn.appv2.PendingIntEntry.satisfy')
    set_res = [n for (n, c) in calls_in_ctx(cx, attr='set_result')]
    set_exc = [n for (n, c) in calls_in_ctx(cx, attr='set_exception')]
    R.need(set_res, 'PendingIntEntry.satisfy: set_result not found')
    if not set_exc:
        R.fail('C05.MPT.1', cx.qual + ' :: rejection path', cx.qual, 'def satisfy',
               'a rejected Data packet never completes the Interest with ValidationFailure', site(cx, cx.f.node))
    # the verdict variable: the local tested against ValidResult members
    var = _verdict_var(cx, dom)
    acc = accepting_set(cx, var, dom, set_res)
    R.paths_examined += len(members)
    inst = cx.qual + ' :: accepting set of ' + var
    if sorted(acc) != sorted(ACCEPT):
        R.fail('C05.MPT.1', inst, cx.qual, set_res[0].ast,
               f'Data is delivered for verdicts {sorted(acc)}; only {sorted(ACCEPT)} may deliver', site(cx, set_res[0].ast))
    else:
        R.ok('C05.MPT.1', inst, site(cx, set_res[0].ast), f'accepting set {sorted(acc)} over domain {members}')
    # definitions of the verdict
    defs = verdict_defs(cx, set_res + set_exc, var)
    R.need(defs, f'{cx.qual}: no definition of {var} reaches the completion')
    have_validator = False
    for (d, v) in defs:
        inst = f'{cx.qual} :: {norm(d.ast)}' if d.ast is not None else f'{cx.qual} :: def of {var}'
        call = awaited_call(v) if isinstance(v, ast.AST) else None
        m = dom.const(v) if isinstance(v, ast.AST) else None
        if call is not None and ast.unparse(call.func) == 'self.validator':
            have_validator = True
            R.ok('C05.MPT.1', inst, site(cx, d.ast), 'verdict <- await self.validator(...)')
        elif m is not None:
            if m in ACCEPT:
                R.fail('C05.MPT.1', inst, cx.qual, d.ast, f'the accepting verdict {m} is assigned without running the validator',
                       site(cx, d.ast))
            else:
                R.ok('C05.MPT.1', inst, site(cx, d.ast), f'constant non-accepting verdict {m}')
        else:
            R.fail('C05.MPT.1', inst, cx.qual, d.ast if d.ast is not None else var,
                   f'verdict is neither the awaited validator of this Interest nor a rejecting constant', site(cx, d.ast))
    if not have_validator:
        R.fail('C05.MPT.1', cx.qual + ' :: validator call', cx.qual, 'def satisfy', 'the supplied validator is never consulted',
               site(cx, cx.f.node))
    # a validator that is cancelled / times out maps to a rejecting verdict (TIMEOUT), checked above as constant def
    # every non-accepting verdict reaches set_exception(ValidationFailure(name, meta_info, content, sig, valid))
    for v_ in members:
        if v_ in ACCEPT:
            continue
        removed = pruned_edges(cx, var, dom, v_)
        # from the first test on the verdict, without set_exception nodes, normal exit must be unreachable
        first_tests = [n for n in cx.cfg.nodes if n.kind == 'test' and dom.eval(n.ast, var, v_) in (True, False)]
        R.need(first_tests, f'{cx.qual}: no test on {var}')
        bad = False
        for t in first_tests:
            if cx.cfg.exit.id in cx.cfg.reachable(t, removed_nodes={n.id for n in set_exc}, removed_edges=removed, follow_exc=False):
                bad = True
        inst = f'{cx.qual} :: verdict {v_} -> ValidationFailure'
        if bad and set_exc:
            R.fail('C05.MPT.1', inst, cx.qual, first_tests[0].ast, f'verdict {v_} can end without completing the Interest with '
                   'ValidationFailure', site(cx, first_tests[0].ast))
        elif set_exc:
            R.ok('C05.MPT.1', inst, site(cx, set_exc[0].ast))
    # payloads
    unpack = _unpack_positions(cx, 'data')
    for (n, c) in calls_in_ctx(cx, attr='set_exception'):
        inst = f'{cx.qual} :: {norm(c)[:90]}'
        a = c.args[0] if c.args else None
        if not (isinstance(a, ast.Call) and P.exc_name(cx.f.mod, a) == 'ndn.types.ValidationFailure'):
            R.fail('C05.MPT.1', inst, cx.qual, c, 'rejected Data does not complete with ValidationFailure', site(cx, c))
            continue
        got = [unpack.get(ast.unparse(x)) for x in a.args[:4]]
        last = ast.unparse(a.args[4]) if len(a.args) >= 5 else next((ast.unparse(k.value) for k in a.keywords if k.arg == 'result'), None)
        if got != [0, 1, 2, 3]:
            R.fail('C05.MPT.1', inst, cx.qual, c, f'ValidationFailure does not carry (name, meta_info, content, sig) of the packet '
                   f'(tuple positions {got})', site(cx, c))
        elif last != var:
            R.fail('C05.MPT.1', inst, cx.qual, c, f'ValidationFailure does not carry the verdict ({last})', site(cx, c))
        else:
            R.ok('C05.MPT.1', inst, site(cx, c), 'carries packet fields 0..3 and the verdict')
    for (n, c) in calls_in_ctx(cx, attr='set_result'):
        inst = f'{cx.qual} :: {norm(c)[:90]}'
        a = c.args[0] if c.args else None
        if isinstance(a, ast.Tuple) and len(a.elts) == 3:
            got = [unpack.get(ast.unparse(x)) for x in a.elts[:2]]
            if got == [0, 2]:
                R.ok('C05.MPT.1', inst, site(cx, c), 'result = (name, content, context)')
            else:
                R.fail('C05.MPT.1', inst, cx.qual, c, f'result tuple is not (name, content, context) of the validated packet {got}',
                       site(cx, c))
        else:
            raise AnalysisError(f'{cx.qual}: unrecognised set_result payload {norm(c)}')

    # ================================================================= C05.MPT.5  done-guard after the await
    R.ob('C05.MPT.5', 'v2 PendingIntEntry.satisfy: every completion is guarded by a done()/cancelled() test of the same '
                      'future located after the last suspension (a validator outliving the deadline cannot deliver)')
    for (n, c) in calls_in_ctx(cx, pred=lambda c: callee_attr(c) in ('set_result', 'set_exception')):
        fut = ast.unparse(c.func.value)
        inst = f'{cx.qual} :: {ast.unparse(c.func)}'
        guards = [t for t in cx.cfg.nodes if t.kind == 'test' and isinstance(t.ast, ast.Call)
                  and callee_attr(t.ast) in ('done', 'cancelled') and ast.unparse(t.ast.func.value) == fut]
        # the completion must be unreachable when every "finished" (True) edge… i.e. reachable only via False edges of the guards
        # and no await may sit between the guard and the completion
        if not guards:
            R.fail('C05.MPT.5', inst, cx.qual, c, 'completion of a possibly finished future is not guarded', site(cx, c))
            continue
        awaits = [a for a in cx.cfg.nodes if a.has_await()]
        # paths from any await (after it) to the completion that avoid passing a guard's False edge
        bad = False
        for a in awaits:
            r = reach_from_succ(cx.cfg, a, removed_nodes={g.id for g in guards}, follow_exc=True)
            if n.id in r:
                bad = True
        # and the True (finished) edge must not lead to the completion
        for g in guards:
            pass
        fin_removed = {(g.id, False) for g in guards}
        if n.id in cx.cfg.reachable(removed_edges=fin_removed):
            bad = True
        if bad:
            R.fail('C05.MPT.5', inst, cx.qual, c, 'completion reachable after a suspension without re-checking that the future '
                   'is still pending', site(cx, c))
        else:
            R.ok('C05.MPT.5', inst, site(cx, c), f'{len(guards)} guard test(s), no suspension in between')

    # ================================================================= C05.MPT.2  v2 _on_interest / submit_interest
    R.ob('C05.MPT.2', 'v2 _on_interest: handler reachable only if no validation is required or (digest ok and verdict accepted); '
                      'sig_required <=> ApplicationParameters or SignatureInfo present; missing validator => FAIL')
    top = ctx(R, 'ndn.appv2.NDNApp._on_interest')
    sub = ctx(R, 'ndn.appv2.NDNApp._on_interest.<submit_interest>')
    cbs = [n for (n, c) in calls_in_ctx(sub, attr='callback')]
    R.need(cbs, 'submit_interest: no handler invocation')
    var = _verdict_var(sub, dom)
    acc = accepting_set(sub, var, dom, cbs)
    inst = sub.qual + ' :: accepting set of ' + var
    if sorted(acc) != sorted(ACCEPT):
        R.fail('C05.MPT.2', inst, sub.qual, cbs[0].ast, f'handler is invoked for verdicts {sorted(acc)}; only {sorted(ACCEPT)} may',
               site(sub, cbs[0].ast))
    else:
        R.ok('C05.MPT.2', inst, site(sub, cbs[0].ast), f'accepting set {sorted(acc)}')
    # the validation-required condition
    req_tests_sub = _required_tests(sub, ['app_param', 'sig.signature_info'], R, 'C05.MPT.2', want='or')
    req_tests_top = _required_tests(top, ['app_param', 'sig.signature_info'], R, 'C05.MPT.2', want='or')
    # verdict definitions in submit_interest
    defs = verdict_defs(sub, cbs, var)
    seen_validator = False
    for (d, v) in defs:
        inst = f'{sub.qual} :: {norm(d.ast)}'
        call = awaited_call(v) if isinstance(v, ast.AST) else None
        m = dom.const(v) if isinstance(v, ast.AST) else None
        if call is not None and ast.unparse(call.func) == 'node.validator':
            seen_validator = True
            # must be the validator of the node the handler belongs to
            R.ok('C05.MPT.2', inst, site(sub, d.ast), 'verdict <- await node.validator(name, sig, context)')
        elif m is not None and m in ACCEPT:
            # allowed only where validation is not required
            removed = {(t.id, lab) for (t, lab) in req_tests_sub}     # remove the "not required" edges
            if not req_tests_sub or d.id in sub.cfg.reachable(removed_edges=removed):
                R.fail('C05.MPT.2', inst, sub.qual, d.ast, f'accepting verdict {m} assigned on a path where validation is required',
                       site(sub, d.ast))
            else:
                R.ok('C05.MPT.2', inst, site(sub, d.ast), f'{m} only on the not-required path')
        elif m is not None:
            R.ok('C05.MPT.2', inst, site(sub, d.ast), f'rejecting constant {m}')
        else:
            R.fail('C05.MPT.2', inst, sub.qual, d.ast, 'verdict does not come from the validator attached with the handler',
                   site(sub, d.ast))
    if not seen_validator:
        R.fail('C05.MPT.2', sub.qual + ' :: validator call', sub.qual, 'def submit_interest', 'the attached validator is never consulted',
               site(sub, sub.f.node))
    # digest check in _on_interest dominates task creation when validation is required
    _digest_gate(R, 'C05.MPT.2', top, req_tests_top, 'submit_interest')

    # ================================================================= C05.MPT.3  v1 _on_interest
    R.ob('C05.MPT.3', 'v1 _on_interest: digest check for parameterised/signed Interests; validator consulted iff signed; '
                      'handler only on a truthy verdict')
    top1 = ctx(R, 'ndn.app.NDNApp._on_interest')
    sub1 = ctx(R, 'ndn.app.NDNApp._on_interest.<submit_interest>')
    cbs1 = [n for (n, c) in calls_in_ctx(sub1, attr='callback')]
    R.need(cbs1, 'v1 submit_interest: no handler invocation')
    bd = BoolDomain()
    var1 = _verdict_var_bool(sub1)
    # verdict values under which the handler is reached *after the validator was consulted* (paths of unsigned Interests, which never
    # consult it, are judged by the signed-test rule below)
    vstarts = [d for (d, v) in verdict_defs(sub1, cbs1, var1) if isinstance(v, ast.AST) and awaited_call(v) is not None]
    acc = sorted({x for d in vstarts for x in accepting_set(sub1, var1, bd, cbs1, start=d)}, key=lambda b: not b) if vstarts \
        else accepting_set(sub1, var1, bd, cbs1)
    inst = sub1.qual + ' :: accepting set of ' + var1
    if acc != [True]:
        R.fail('C05.MPT.3', inst, sub1.qual, cbs1[0].ast, f'handler is invoked for verdict values {acc}; only a truthy verdict may',
               site(sub1, cbs1[0].ast))
    else:
        R.ok('C05.MPT.3', inst, site(sub1, cbs1[0].ast))
    signed_tests = _required_tests(sub1, ['sig.signature_info'], R, 'C05.MPT.3', want='or')
    defs = verdict_defs(sub1, cbs1, var1)
    seen_validator = False
    for (d, v) in defs:
        inst = f'{sub1.qual} :: {norm(d.ast)}'
        call = awaited_call(v) if isinstance(v, ast.AST) else None
        cv = bd.const(v) if isinstance(v, ast.AST) else None
        if call is not None:
            # callee must derive from node.validator / self.int_validator
            srcs = sub1.sources(d, call.func)
            txts = set()
            for s in srcs:
                if s.kind == 'expr':
                    for x in ast.walk(s.expr):
                        if isinstance(x, ast.Attribute) and x.attr in ('validator', 'int_validator'):
                            txts.add(ast.unparse(x))
            if {'node.validator', 'self.int_validator'} <= txts or txts == {'node.validator'}:
                seen_validator = True
                R.ok('C05.MPT.3', inst, site(sub1, d.ast), f'verdict <- await {sorted(txts)}')
            else:
                R.fail('C05.MPT.3', inst, sub1.qual, d.ast, f'validator in force is not the route validator / int_validator ({sorted(txts)})',
                       site(sub1, d.ast))
        elif cv is True:
            removed = {(t.id, lab) for (t, lab) in signed_tests}
            if not signed_tests or d.id in sub1.cfg.reachable(removed_edges=removed):
                R.fail('C05.MPT.3', inst, sub1.qual, d.ast, 'verdict True assigned for a signed Interest without validation', site(sub1, d.ast))
            else:
                R.ok('C05.MPT.3', inst, site(sub1, d.ast), 'True only for unsigned Interests')
        elif cv is False:
            R.ok('C05.MPT.3', inst, site(sub1, d.ast), 'rejecting constant')
        else:
            R.fail('C05.MPT.3', inst, sub1.qual, d.ast, 'verdict does not come from a validator', site(sub1, d.ast))
    if not seen_validator:
        R.fail('C05.MPT.3', sub1.qual + ' :: validator call', sub1.qual, 'def submit_interest', 'no validator is consulted for signed Interests',
               site(sub1, sub1.f.node))
    req1 = _required_tests(top1, ['app_param', 'sig.signature_info'], R, 'C05.MPT.3', want='or')
    _digest_gate(R, 'C05.MPT.3', top1, req1, 'submit_interest')

    # ================================================================= C05.MPT.4  v1 _wait_for_data
    R.ob('C05.MPT.4', 'v1 _wait_for_data: Data is returned only through the truthy edge of the awaited validator '
                      '(default data_validator); the falsy edge raises ValidationFailure carrying the packet')
    w = ctx(R, 'ndn.app.NDNApp._wait_for_data')
    vtests = []
    for n in w.cfg.nodes:
        if n.kind == 'test':
            c = test_awaited_call(w, n)
            if c is not None and ('validator' in ast.unparse(c.func) or any(
                    (s_.kind == 'param' and s_.expr == 'validator') or (s_.kind == 'expr' and 'validator' in ast.unparse(s_.expr)) for s_ in w.sources(n, c.func))):
                vtests.append((n, c))
    rets = [r for r in returns(w) if r.ast.value is not None]
    R.need(rets, 'v1 _wait_for_data: no data-bearing return')
    inst = w.qual + ' :: data-bearing returns'
    if not vtests:
        # maybe verdict stored in a variable
        try:
            var = _verdict_var_bool(w)
        except AnalysisError:
            var = None
        if var is None:
            R.fail('C05.MPT.4', inst, w.qual, rets[0].ast, 'Data returned without consulting a validator', site(w, rets[0].ast))
        else:
            acc = accepting_set(w, var, BoolDomain(), rets)
            if acc != [True]:
                R.fail('C05.MPT.4', inst, w.qual, rets[0].ast, f'Data returned for verdicts {acc}', site(w, rets[0].ast))
            else:
                R.ok('C05.MPT.4', inst, site(w, rets[0].ast))
    else:
        removed = {(t.id, True) for (t, c) in vtests}
        reach = w.cfg.reachable(removed_edges=removed)
        bad = [r for r in rets if r.id in reach]
        if bad:
            R.fail('C05.MPT.4', inst, w.qual, bad[0].ast, 'Data is returned on a path that does not pass the accepting edge of the validator',
                   site(w, bad[0].ast))
        else:
            R.ok('C05.MPT.4', inst, site(w, vtests[0][0].ast), f'{len(rets)} return(s) behind `{norm(vtests[0][0].ast)}`')
        for (t, c) in vtests:
            # validator provenance: parameter `validator` or self.data_validator
            srcs = w.sources(t, c.func)
            oks = all((s.kind == 'param' and s.expr == 'validator') or
                      (s.kind == 'expr' and ast.unparse(s.expr) == 'self.data_validator') for s in srcs) and srcs
            inst2 = w.qual + ' :: validator provenance'
            if oks:
                R.ok('C05.MPT.4', inst2, site(w, t.ast), f'{srcs_text(srcs)}')
            else:
                R.fail('C05.MPT.4', inst2, w.qual, t.ast, f'validator used is not the caller-supplied one / data_validator: {srcs_text(srcs)}',
                       site(w, t.ast))
            # args: the received data name and signature pointers (positions 0 and 3 of the awaited tuple)
            # falsy edge raises ValidationFailure(data_name, meta_info, content, sig)
            r = reach_from_succ(w.cfg, t, False, follow_exc=False)
            inst3 = w.qual + ' :: rejected Data raises ValidationFailure'
            raises = [n for n in w.cfg.nodes if n.kind == 'raise' and n.id in r]
            if w.cfg.exit.id in r or not raises:
                R.fail('C05.MPT.4', inst3, w.qual, t.ast, 'a rejected Data packet does not raise ValidationFailure', site(w, t.ast))
            else:
                good = True
                for rn in raises:
                    e = rn.ast.exc
                    if not (isinstance(e, ast.Call) and P.exc_name(w.f.mod, e) == 'ndn.types.ValidationFailure' and len(e.args) >= 4):
                        good = False
                if good:
                    R.ok('C05.MPT.4', inst3, site(w, raises[0].ast))
                else:
                    R.fail('C05.MPT.4', inst3, w.qual, raises[0].ast, 'rejection does not raise ValidationFailure with the packet fields',
                           site(w, raises[0].ast))
    # ================================================================= C05.PRV.1 the validator stored with a handler
    R.ob('C05.PRV.1', 'the validator stored with a handler is exactly the one supplied when attaching (defaults are resolved '
                      'when an Interest arrives, so the validator in force is the current one)')
    for fq in ('ndn.appv2.NDNApp.attach_handler', 'ndn.app.NDNApp.set_interest_filter'):
        ax = ctx(R, fq)
        found = 0
        for n in ax.cfg.nodes:
            if n.kind == 'stmt' and isinstance(n.ast, ast.Assign):
                for t in n.ast.targets:
                    if isinstance(t, ast.Attribute) and t.attr == 'validator':
                        found += 1
                        srcs = ax.sources(n, n.ast.value)
                        inst = f'{fq} :: {norm(n.ast)}'
                        if srcs and all(s.kind == 'param' and s.expr == 'validator' for s in srcs):
                            R.ok('C05.PRV.1', inst, site(ax, n.ast))
                        else:
                            R.fail('C05.PRV.1', inst, fq, n.ast, f'the stored validator is {srcs_text(srcs)}, not the validator argument',
                                   site(ax, n.ast))
        R.need(found, f'{fq}: no assignment to <node>.validator')
    # the validator is handed on unchanged along every internal call chain (route -> register -> set_interest_filter, express -> ...)
    R.ob('C05.PRV.2', 'wherever a function that was given a validator calls another library function that takes one, it passes its own on')
    nsites = 0
    for q, f in sorted(P.funcs.items()):
        if f.mod not in ('ndn.app', 'ndn.appv2') or isinstance(f.node, ast.Lambda):
            continue
        cx = ctx(R, q)
        # is a `validator` in scope (own parameter, closure parameter, loop variable of the auto-registration list)?
        def in_scope(c_):
            while c_ is not None:
                if any(a.arg == 'validator' for a in c_.f.node.args.args + c_.f.node.args.kwonlyargs):
                    return True
                c_ = c_.parent
            return False
        loopvar = any(n.kind == 'for' and any(isinstance(x, ast.Name) and x.id == 'validator' for x in ast.walk(n.ast.target)) for n in cx.cfg.nodes)
        if not in_scope(cx) and not loopvar:
            continue
        for n in cx.cfg.nodes:
            for c in n.calls():
                gq = resolve_call(P, cx, c)
                if not gq or gq not in P.funcs or gq == q:
                    continue
                g = P.funcs[gq].node
                if isinstance(g, ast.Lambda):
                    continue
                gparams = [a.arg for a in g.args.args]
                if gparams and gparams[0] in ('self', 'cls') and isinstance(c.func, ast.Attribute):
                    gparams = gparams[1:]
                kwonly = [a.arg for a in g.args.kwonlyargs]
                if 'validator' not in gparams + kwonly:
                    continue
                # a route's Interest validator and the Data validator of an expressed Interest are different things

                def role(qq):
                    nm = qq.split('.<')[0].rsplit('.', 1)[-1]
                    return 'data' if nm.startswith('express') or nm in ('_wait_for_data', 'append_interest') else 'interest'
                if role(q) != role(gq):
                    continue
                bound = None
                cargs = spliced_args(cx, c)
                star = next((i for i, a in enumerate(cargs) if isinstance(a, ast.Starred)), None)
                if 'validator' in gparams and gparams.index('validator') < len(cargs):
                    vi = gparams.index('validator')
                    bound = cargs[vi] if star is None or vi < star else cargs[star].value     # an opaque *args: cannot tell, accept
                elif star is not None:
                    bound = cargs[star].value
                for k in c.keywords:
                    if k.arg == 'validator':
                        bound = k.value
                    if k.arg is None:
                        bound = bound or k.value      # **kwargs: cannot tell, accept
                nsites += 1
                inst = f'{q} -> {gq.rsplit(".", 1)[-1]} :: validator handed on'
                if bound is None:
                    R.fail('C05.PRV.2', inst, q, c, f'`{norm(c)[:90]}` does not pass the validator on: {gq.rsplit(".", 1)[-1]} falls back to its default '
                           '(no / application-wide validator) for a route or Interest that was given its own', site(cx, c))
                    continue
                srcs = cx.sources(n, bound)
                okv = bool(srcs) and all((s_.kind == 'param' and s_.expr == 'validator') or
                                         (s_.kind in ('iter', 'unpack') and 'validator' in ast.unparse(n.ast) if hasattr(n, 'ast') else False) or
                                         (s_.kind == 'expr' and 'validator' in s_.text()) for s_ in srcs)
                if okv or ast.unparse(bound) == 'validator' or (star is not None and bound is cargs[star].value):
                    R.ok('C05.PRV.2', inst, site(cx, c))
                else:
                    R.fail('C05.PRV.2', inst, q, c, f'`{norm(c)[:90]}` passes {srcs_text(srcs)} as the validator instead of the one supplied', site(cx, c))
    R.need(nsites >= 6, f'only {nsites} validator hand-over call sites found (8 confirmed by hand)')
    from .c03 import deadline_rule
    R.ob('C05.PRV.3', 'the wait that the validator must beat is bounded by the deadline fixed when the Interest was expressed (not restarted at the first await)')
    for app_ in ('ndn.appv2.NDNApp', 'ndn.app.NDNApp'):
        deadline_rule(R, 'C05.PRV.3', app_)
    R.assumptions += ['validators are user callbacks; their own correctness is out of scope',
                      'Enum members of ValidResult are all truthy (plain Enum)']


# ---------------------------------------------------------------------- helpers
def _verdict_var(cx, dom):
    """the local name compared with ValidResult members in tests of cx"""
    names = set()
    for n in cx.cfg.nodes:
        if n.kind == 'test':
            for x in ast.walk(n.ast):
                if isinstance(x, ast.Compare):
                    sides = [x.left] + list(x.comparators)
                    flat = []
                    for s in sides:
                        flat += list(s.elts) if isinstance(s, (ast.Tuple, ast.List, ast.Set)) else [s]
                    if any(dom.const(s) for s in flat):
                        for s in sides:
                            if isinstance(s, ast.Name):
                                names.add(s.id)
    if len(names) == 1:
        return names.pop()
    # fall back: a local assigned from an awaited validator and used as a bare test
    cands = set()
    for n in cx.cfg.nodes:
        for name, v in cx.cfg.defs_of(n):
            if isinstance(v, ast.AST) and (dom.const(v) or (awaited_call(v) is not None and 'validator' in ast.unparse(v))):
                cands.add(name)
    if len(cands) == 1:
        return cands.pop()
    raise AnalysisError(f'{cx.qual}: cannot identify the verdict variable (candidates {sorted(names | cands)})')


def _verdict_var_bool(cx):
    cands = set()
    for n in cx.cfg.nodes:
        for name, v in cx.cfg.defs_of(n):
            if isinstance(v, ast.AST) and awaited_call(v) is not None and 'validator' in ast.unparse(v):
                cands.add(name)
    if len(cands) == 1:
        return cands.pop()
    raise AnalysisError(f'{cx.qual}: cannot identify the verdict variable (candidates {sorted(cands)})')


def _unpack_positions(cx, param):
    """names bound by `a, b, c = <param>` -> position"""
    out = {}
    for n in cx.cfg.nodes:
        if n.kind == 'stmt' and isinstance(n.ast, ast.Assign) and isinstance(n.ast.value, ast.Name) and n.ast.value.id == param:
            for t in n.ast.targets:
                if isinstance(t, ast.Tuple):
                    for i, e in enumerate(t.elts):
                        if isinstance(e, ast.Name):
                            out[e.id] = i
        if n.kind == 'stmt' and isinstance(n.ast, ast.Assign) and isinstance(n.ast.value, ast.Subscript) \
                and isinstance(n.ast.value.value, ast.Name) and n.ast.value.value.id == param \
                and isinstance(n.ast.value.slice, ast.Constant) and len(n.ast.targets) == 1 and isinstance(n.ast.targets[0], ast.Name):
            out[n.ast.targets[0].id] = n.ast.value.slice.value
    return out


def _atom_eval(e, env):
    if isinstance(e, ast.BoolOp):
        vs = [_atom_eval(v, env) for v in e.values]
        if any(v is None for v in vs):
            return None
        return all(vs) if isinstance(e.op, ast.And) else any(vs)
    if isinstance(e, ast.UnaryOp) and isinstance(e.op, ast.Not):
        v = _atom_eval(e.operand, env)
        return None if v is None else (not v)
    if isinstance(e, ast.Compare) and len(e.ops) == 1 and isinstance(e.comparators[0], ast.Constant) \
            and e.comparators[0].value is None:
        t = ast.unparse(e.left)
        if t in env:
            if isinstance(e.ops[0], (ast.IsNot, ast.NotEq)):
                return env[t]
            if isinstance(e.ops[0], (ast.Is, ast.Eq)):
                return not env[t]
    if ast.unparse(e) in env:
        return env[ast.unparse(e)]
    return None


def _required_tests(cx, atoms, R, oid, want='or'):
    """tests in cx deciding "validation required": returns [(test_node, label)] = the edges taken exactly when validation
    is NOT required. The deciding expression (inline in an `if`, or through a (closure) variable) must be equivalent to
    "any of <atoms> is present (is not None)"."""
    out = []
    found = False
    # (a) through a variable
    for n in cx.cfg.nodes:
        if n.kind == 'test' and isinstance(n.ast, ast.Name) and isinstance(n.stmt, ast.If) and n.stmt.test is n.ast:
            for s in cx.sources(n, n.ast):
                if s.kind == 'expr' and any(a in ast.unparse(s.expr) for a in atoms):
                    tbl = presence_table(s.expr, atoms)
                    if tbl is None:
                        continue
                    found = True
                    inst = f'{cx.qual} :: validation-required condition `{ast.unparse(s.expr)}`'
                    if tbl != {combo: any(combo) for combo in tbl}:
                        R.fail(oid, inst, s.ctx.qual, s.expr, 'validation-required condition is not "any of %s present"' % atoms,
                               site(s.ctx, s.expr))
                    else:
                        R.ok(oid, inst, site(s.ctx, s.expr), f'== any({atoms} present)')
                    out.append((n, False))
    # (b) inline: clusters of test nodes belonging to one If
    clusters = {}
    for n in cx.cfg.nodes:
        if n.kind == 'test' and isinstance(n.stmt, ast.If):
            clusters.setdefault(id(n.stmt), []).append(n)
    for nodes in clusters.values():
        stmt = nodes[0].stmt
        whole = inline_ast(cx, stmt.test)        # hoisted sub-conditions (`is_signed = sig.signature_info is not None`) read back
        txt = ast.unparse(whole)
        if not any(a in txt for a in atoms):
            continue
        if presence_table(whole, atoms) is None:
            continue
        found = True
        ids = {n.id for n in nodes}
        first = min(nodes, key=lambda n: n.id)
        taken = {}
        okshape = True
        for combo in itertools.product([False, True], repeat=len(atoms)):
            env = dict(zip(atoms, combo))
            cur = first
            for _ in range(len(nodes) + 1):
                v = _atom_eval(inline_ast(cx, cur.ast), env)
                if v is None:
                    okshape = False
                    break
                nxt = [s for (s, l) in cur.succ if l == v]
                if not nxt:
                    okshape = False
                    break
                if nxt[0].id in ids:
                    cur = nxt[0]
                    continue
                taken.setdefault((cur.id, v), set()).add(any(combo))
                break
        if not okshape:
            raise AnalysisError(f'{cx.qual}: cannot evaluate presence test `{txt}`')
        inst = f'{cx.qual} :: validation-required condition `{txt}`'
        tbl = presence_table(whole, atoms)
        # the test may be written in either polarity (`... is not None` guarding the validation, `... is None` guarding its absence)
        if tbl != {combo: any(combo) for combo in tbl} and tbl != {combo: not any(combo) for combo in tbl}:
            R.fail(oid, inst, cx.qual, stmt.test, 'validation-required condition is not "any of %s present"' % atoms, site(cx, stmt.test))
        else:
            R.ok(oid, inst, site(cx, stmt.test), f'== any({atoms} present)')
        byid = {n.id: n for n in nodes}
        for (nid, lab), reqs in taken.items():
            if reqs == {False}:
                out.append((byid[nid], lab))
    if not found:
        R.fail(oid, f'{cx.qual} :: validation-required condition', cx.qual, 'def ' + cx.f.node.name,
               f'no test of presence of {atoms} decides whether validation is required', site(cx, cx.f.node))
    return out


def _digest_gate(R, oid, top, req_tests, task_name):
    """in _on_interest: the task running the handler is created only if (not required) or params_sha256_checker truthy"""
    starts = [n for n in top.cfg.nodes for c in n.calls() if isinstance(c.func, ast.Name) and c.func.id == task_name]
    R.need(starts, f'{top.qual}: submit_interest is never started')
    digest_tests = []
    for n in top.cfg.nodes:
        if n.kind == 'test':
            c = test_awaited_call(top, n)
            if c is not None and ast.unparse(c.func).endswith('params_sha256_checker'):
                digest_tests.append(n)
    inst = f'{top.qual} :: parameters-digest gate'
    if not digest_tests:
        R.fail(oid, inst, top.qual, starts[0].ast, 'the parameters digest of a parameterised/signed Interest is never checked',
               site(top, starts[0].ast))
        return
    removed = {(t.id, True) for t in digest_tests} | {(t.id, lab) for (t, lab) in req_tests}
    if starts[0].id in top.cfg.reachable(removed_edges=removed):
        R.fail(oid, inst, top.qual, starts[0].ast, 'handler task reachable for an Interest needing validation without a passing '
               'parameters-digest check', site(top, starts[0].ast))
    else:
        # check args are (name, sig)
        R.ok(oid, inst, site(top, digest_tests[0].ast), 'behind `' + norm(digest_tests[0].ast) + '`')
