"""C11 — compiled schema matches what the source describes (checker-side matching obligations + compiler dependencies)."""
import ast

from .common import ctx, returns, calls_in_ctx, site, bound_args, full_text, bulk_appends, explore
from .lvs import merge_key_rule, match_rules, CK, CP, last_component_guarded
from ..flow import callee_attr
from ..loader import AnalysisError, norm


def run(R):
    P = R.P
    R.ob('C11.MPT.1', 'a match is reported only when the whole name has been consumed (depth == len(name))')
    R.ob('C11.MPT.2', 'a literal edge is followed only for an equal component; all literal edges of a node are tried')
    R.ob('C11.MPT.3', 'every pattern-edge traversal evaluates that edge\'s constraint sets on the component')
    R.ob('C11.MPT.4', 'an already bound named pattern only matches a component equal to its binding')
    R.ob('C11.REL.1', 'binding and backtracking are paired: named tags are bound once, recorded for undo, and removed on backtrack')
    R.ob('C11.LOP.1', '_check_cons is a conjunction over constraints of a disjunction over options, each option comparing the component')
    R.ob('C11.TBL.1', 'named patterns are numbered 1..n, temporaries from n+1, named_pattern_cnt = n, and the checker binds tag <= n')
    match_rules(R, {'MPT.1': 'C11.MPT.1', 'MPT.2': 'C11.MPT.2', 'MPT.3': 'C11.MPT.3', 'MPT.4': 'C11.MPT.4', 'REL.1': 'C11.REL.1',
                    'LOP.1': 'C11.LOP.1', 'TBL.1c': 'C11.TBL.1'})
    # ------------------------------------------------------------------ compiler side of TBL.1
    cm = ctx(R, CP + '.Compiler.compile')
    gn = ctx(R, CP + '.Compiler._generate_node')
    gp = ctx(R, CP + '.Compiler._gen_pattern_numbers')
    inst = CP + '.Compiler :: pattern numbering'
    probs = []
    tti = [n for n in cm.cfg.nodes if n.kind == 'stmt' and isinstance(n.ast, ast.Assign) and ast.unparse(n.ast.targets[0]) == 'self.temp_tag_index']
    gcall = [n for (n, c) in calls_in_ctx(cm, attr='_generate_node')]
    if len(tti) != 1 or ast.unparse(tti[0].ast.value) != 'len(self.named_pats)' or not gcall or not cm.cfg.dominates(tti[0], gcall[0]):
        probs.append(('temporary tags do not start right after the named ones (temp_tag_index = len(named_pats) before node generation)', tti[0].ast if tti else cm.f.node))
    cnt = [n for n in cm.cfg.nodes if n.kind == 'stmt' and isinstance(n.ast, ast.Assign) and ast.unparse(n.ast.targets[0]) == 'ret.named_pattern_cnt']
    if len(cnt) != 1 or ast.unparse(cnt[0].ast.value) != 'len(self.named_pats)':
        probs.append(('named_pattern_cnt is not the number of named patterns', cnt[0].ast if cnt else cm.f.node))
    inc = [n for n in gn.cfg.nodes if n.kind == 'stmt' and isinstance(n.ast, ast.AugAssign) and ast.unparse(n.ast.target) == 'self.temp_tag_index']
    use = [n for n in gn.cfg.nodes if n.kind == 'stmt' and isinstance(n.ast, ast.Assign) and ast.unparse(n.ast.targets[0]) == 'edge.tag'
           and ast.unparse(n.ast.value) == 'self.temp_tag_index']
    if len(inc) != 1 or len(use) != 1 or not (isinstance(inc[0].ast.op, ast.Add) and ast.unparse(inc[0].ast.value) == '1') or not gn.cfg.dominates(inc[0], use[0]):
        probs.append(('a temporary tag is not a fresh number above every named tag (pre-increment of temp_tag_index)', use[0].ast if use else gn.f.node))
    named_use = [n for n in gn.cfg.nodes if n.kind == 'stmt' and isinstance(n.ast, ast.Assign) and ast.unparse(n.ast.targets[0]) == 'edge.tag'
                 and ast.unparse(n.ast.value) == 'tag']
    tg = [t for t in gn.cfg.nodes if t.kind == 'test' and ast.unparse(t.ast) in ('tag >= 0', 'tag > 0', 'tag > -1')]
    if len(named_use) != 1 or not tg or named_use[0].id in gn.cfg.reachable(removed_edges={(tg[0].id, True)}) or \
            (use and use[0].id in gn.cfg.reachable(removed_edges={(tg[0].id, False)})):
        probs.append(('named / temporary tags are not told apart by their sign when edges are emitted', tg[0].ast if tg else gn.f.node))
    nn = [v for n in gp.cfg.nodes for (nm, v) in gp.cfg.defs_of(n) if nm == 'next_named']
    nt = [v for n in gp.cfg.nodes for (nm, v) in gp.cfg.defs_of(n) if nm == 'next_temp']
    def lit(v):
        try:
            return ast.literal_eval(v) if isinstance(v, ast.AST) else None
        except ValueError:
            return None
    oknum = any(lit(v) == 1 for v in nn) and any(lit(v) == -1 for v in nt) \
        and any(isinstance(v, tuple) and v[0] == 'aug' and isinstance(v[1].op, ast.Add) and ast.unparse(v[1].value) == '1' for v in nn) \
        and any(isinstance(v, tuple) and v[0] == 'aug' and isinstance(v[1].op, ast.Sub) and ast.unparse(v[1].value) == '1' for v in nt)
    if not oknum:
        probs.append(('named patterns are not numbered 1,2,.. / temporaries -1,-2,..', gp.f.node))
    # the counters this rule reads by name: where one of them no longer exists the numbering was restructured (itertools.count, a derived
    # number ..) and the rule cannot read it - that is an analysis error, not a verdict; a counter that exists with a wrong start / step is one
    unread = []
    if not tti:
        unread.append('self.temp_tag_index is never assigned in compile()')
    if not inc and not use:
        unread.append('_generate_node does not advance self.temp_tag_index')
    if not nn or not nt:
        unread.append('_gen_pattern_numbers has no next_named / next_temp counters')
    if not cnt:
        unread.append('ret.named_pattern_cnt is not assigned in compile()')
    if unread:
        R.defer('C11.TBL.1 (compiler side) cannot be read: ' + '; '.join(unread))
    elif probs:
        for (what, construct) in probs:
            R.fail('C11.TBL.1', inst, CP + '.Compiler.compile', construct if not isinstance(construct, ast.FunctionDef) else 'def ' + construct.name, what,
                   site(cm, construct))
    else:
        R.ok('C11.TBL.1', inst, site(cm, tti[0].ast))
    # a temporary pattern keeps its constraints at every occurrence in an expanded chain
    R.ob('C11.PRV.3', 'RuleChain.pattern_movement drops the constraints of a pattern seen earlier in the chain only for named patterns (equality with '
                      'the binding then does the work); a temporary pattern - the same object when a rule is referenced twice in one name - is '
                      'independent at every occurrence and keeps them')
    pm = ctx(R, CP + '.Compiler.RuleChain.pattern_movement')
    pm_prev = pm.f.node.args.args[2].arg
    tagv = [nm for n_ in pm.cfg.nodes for (nm, v) in pm.cfg.defs_of(n_) if isinstance(v, ast.Call) and ast.unparse(v.func) == 'int' and '.id' in ast.unparse(v)]
    R.need(len(tagv) == 1, 'pattern_movement: the numeric tag local was not found')
    tagv = tagv[0]
    empties = [r for r in returns(pm) if isinstance(r.ast.value, ast.Tuple) and len(r.ast.value.elts) == 3 and isinstance(r.ast.value.elts[1], ast.List)
               and not r.ast.value.elts[1].elts and ast.unparse(r.ast.value.elts[0]) == tagv]
    inst = pm.qual + ' :: constraints of a temporary pattern are kept when its number was seen before'
    if not empties:
        R.ok('C11.PRV.3', inst, site(pm, pm.f.node), 'no early exit without constraints')
    else:
        def atom(e):
            if isinstance(e, ast.Compare) and len(e.ops) == 1:
                l, r = ast.unparse(e.left), ast.unparse(e.comparators[0])
                if isinstance(e.ops[0], (ast.In, ast.NotIn)) and l == tagv and r == pm_prev:
                    return isinstance(e.ops[0], ast.In)                     # seen before
                if l == tagv and r in ('0', '1') and type(e.ops[0]) in (ast.Gt, ast.GtE, ast.Lt, ast.LtE):
                    # the tag is a temporary one: negative
                    return {ast.Gt: False, ast.GtE: False, ast.Lt: True, ast.LtE: True}[type(e.ops[0])]
            return None
        reach = explore(pm, atom)
        R.paths_examined += 1
        if any(r.id in reach for r in empties):
            R.fail('C11.PRV.3', inst, pm.qual, empties[0].ast, 'a pattern whose number was seen earlier in the chain leaves without its constraints whether it is named or temporary: '
                   'when a rule with a constrained temporary pattern is referenced twice in one name, the second occurrence accepts any component '
                   '(repro notes/repro/e23.py: `#r: _x & {_x: "a"|"b"}`, `#two: #r/"mid"/#r` matches /a/mid/zzz)', site(pm, empties[0].ast))
        else:
            R.ok('C11.PRV.3', inst, site(pm, empties[0].ast))
    # every occurrence of a temporary pattern is recorded so that a constraint on it applies to all of them
    R.ob('C11.PRV.2', 'a constraint on a temporary pattern applies to every occurrence of that pattern in the rule')
    inst = gp.qual + ' :: occurrences of a temporary pattern'
    first = [n for n in gp.cfg.nodes if n.kind == 'stmt' and isinstance(n.ast, ast.Assign) and ast.unparse(n.ast.targets[0]) == 'temp_pats[pid]']
    more = [n for (n, c) in calls_in_ctx(gp, attr='append') if ast.unparse(c.func.value) == 'temp_pats[pid]' and ast.unparse(c.args[0]) == 'c.id']
    seen_t = [t for t in gp.cfg.nodes if t.kind == 'test' and ast.unparse(t.ast) in ('pid not in temp_pats', 'pid in temp_pats')]
    use = [x for x in ast.walk(gp.f.node) if isinstance(x, ast.Call) and callee_attr(x) == 'join' and 'temp_pats[cons.pat.id]' in ast.unparse(x)]
    okp = len(first) == 1 and len(more) == 1 and len(seen_t) == 1 and use
    if okp:
        newlab = ast.unparse(seen_t[0].ast) == 'pid not in temp_pats'
        okp = first[0].id not in gp.cfg.reachable(removed_edges={(seen_t[0].id, newlab)}) and more[0].id not in gp.cfg.reachable(removed_edges={(seen_t[0].id, not newlab)})
    if okp:
        R.ok('C11.PRV.2', inst, site(gp, more[0].ast))
    else:
        R.fail('C11.PRV.2', inst, gp.qual, first[0].ast if first else 'def _gen_pattern_numbers', 'not every occurrence of a temporary pattern is remembered: a constraint on it '
               'is attached to some occurrences only', site(gp, gp.f.node))
    # ------------------------------------------------------------------ PRV.1 _replicate_rules
    R.ob('C11.PRV.1', 'inlining a rule reference concatenates both name chains and both constraint sets, for every combination of alternatives')
    rr = ctx(R, CP + '.Compiler._replicate_rules')
    comps = [x for x in ast.walk(rr.f.node) if isinstance(x, ast.ListComp) and isinstance(x.elt, ast.Call) and ast.unparse(x.elt.func).endswith('RuleChain')
             and len(x.generators) == 2]
    inst = rr.qual + ' :: reference expansion'
    if len(comps) != 1:
        R.fail('C11.PRV.1', inst, rr.qual, 'def _replicate_rules', 'rule references are not expanded as the product of both alternative lists', site(rr, rr.f.node))
    else:
        lc = comps[0]
        kw = {k.arg: ast.unparse(k.value) for k in lc.elt.keywords}
        gens = {ast.unparse(g.target): ast.unparse(g.iter) for g in lc.generators}
        probs = []
        refv = [k for k, v in gens.items() if v == 'self.rep_rules[comp.id]']
        curv = [k for k, v in gens.items() if v == 'cur_chains']
        if len(refv) != 1 or len(curv) != 1:
            probs.append(f'product is over {gens}')
        else:
            a, b = curv[0], refv[0]
            if kw.get('name') != f'{a}.name + {b}.name':
                probs.append(f'name chain is `{kw.get("name")}`')
            if kw.get('cons_set') != f'{a}.cons_set + {b}.cons_set':
                probs.append(f'constraint set is `{kw.get("cons_set")}`: constraints of the referring or the referred rule are lost')
            if kw.get('sign_cons') != f'{a}.sign_cons':
                probs.append(f'signing constraints are `{kw.get("sign_cons")}`')
            if kw.get('id') != 'rule.id.id' and not any(k_.arg == 'id' and full_text(rr, k_.value) == 'rule.id.id' for k_ in lc.elt.keywords):
                probs.append(f'rule id is `{kw.get("id")}`')
        if any(g.ifs for g in lc.generators):
            probs.append('alternatives are filtered')
        if probs:
            R.fail('C11.PRV.1', inst, rr.qual, lc, '; '.join(probs), site(rr, lc))
        else:
            R.ok('C11.PRV.1', inst, site(rr, lc))
    # alternatives: one chain per constraint set; redefinitions accumulate
    inst = rr.qual + ' :: alternative constraint sets and redefinitions are alternatives'
    # one chain per alternative: a comprehension or an explicit loop over rule.comp_cons that builds RuleChain(cons_set=<the alternative>)
    alt = []
    for x in ast.walk(rr.f.node):
        if isinstance(x, ast.ListComp) and len(x.generators) == 1 and ast.unparse(x.generators[0].iter) in ('rule.comp_cons', 'rule.comp_cons or [[]]') \
                and not x.generators[0].ifs:
            alt.append((x, x.generators[0].target, x.elt))
        if isinstance(x, ast.For) and ast.unparse(x.iter) in ('rule.comp_cons', 'rule.comp_cons or [[]]') and len(x.body) == 1 and isinstance(x.body[0], ast.Expr) \
                and isinstance(x.body[0].value, ast.Call) and callee_attr(x.body[0].value) == 'append' and x.body[0].value.args:
            alt.append((x, x.target, x.body[0].value.args[0]))
    acc = [n for n in rr.cfg.nodes if n.kind == 'stmt' and isinstance(n.ast, ast.AugAssign) and full_text(rr, n.ast.target) == 'self.rep_rules[rule.id.id]'] + \
          [n for (n, rv, it) in bulk_appends(rr) if full_text(rr, rv) in ('self.rep_rules.setdefault(rule.id.id, [])', 'self.rep_rules[rule.id.id]')]
    if len(alt) == 1 and isinstance(alt[0][2], ast.Call) and ast.unparse(bound_args(P, rr, alt[0][2]).get('cons_set', ast.Constant(None))) == ast.unparse(alt[0][1]) \
            and len(acc) == 1:
        R.ok('C11.PRV.1', inst, site(rr, alt[0][0]))
    else:
        R.fail('C11.PRV.1', inst, rr.qual, 'def _replicate_rules', 'alternative constraint sets / repeated rule definitions are not kept as separate chains', site(rr, rr.f.node))
    R.ob('C11.SIB.2', 'match(): "same length" is judged on the name without a trailing implicit digest - and only without that: no other component is dropped')
    from .lvs import digest_strip_types
    if not digest_strip_types(R, 'C11.SIB.2', ctx(R, CK + '.Checker.match')):
        R.defer('Checker.match: the test that drops a trailing implicit digest was not found (C11.SIB.2 undecided)')
    R.ob('C11.NUL.1', 'match(): the empty name is matched like any other (its absent last component is not inspected)')
    last_component_guarded(R, 'C11.NUL.1', ctx(R, CK + '.Checker.match'))
    # ------------------------------------------------------------------ save / load
    R.ob('C11.SIB.1', 'save encodes the model in use, load parses it and builds a checker (with the sanity check)')
    sv = ctx(R, CK + '.Checker.save')
    ld = ctx(R, CK + '.Checker.load')
    oks = all(ast.unparse(r.ast.value) in ('bytes(self.model.encode())', 'self.model.encode()') for r in returns(sv)) and returns(sv)
    okl = all(isinstance(r.ast.value, ast.Call) and ast.unparse(r.ast.value.func) == 'Checker' for r in returns(ld)) and returns(ld)
    if okl:
        srcs = ld.sources(returns(ld)[0], returns(ld)[0].ast.value.args[0])
        okl = all(s.kind == 'expr' and ast.unparse(s.expr) == 'bny.LvsModel.parse(binary_model)' for s in srcs) and \
            ast.unparse(returns(ld)[0].ast.value.args[1]) == 'user_fns'
    if oks and okl:
        R.ok('C11.SIB.1', CK + '.Checker.save/load', site(sv, sv.f.node))
    else:
        R.fail('C11.SIB.1', CK + '.Checker.save/load', sv.qual if not oks else ld.qual, 'def save' if not oks else 'def load',
               'save/load do not round-trip the model in use', site(sv, sv.f.node))
    R.ob('C11.SIG.1', 'trie-edge merge key of a rule chain spells out every stored constraint value, with nested lists bracketed (chains are merged only when their constraints are equal)')
    merge_key_rule(R, 'C11.SIG.1')
    R.assumptions += ['semantic equivalence of the compiler passes with the schema text for all schemas x names is NOT decided (DESIGN §4 C11)',
                      'TlvModel codec of the binary model (C08)']
