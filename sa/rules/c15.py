"""C15 — keychain contents, defaults and signers (DESIGN §4 C15)."""
import ast
import re

from .common import ctx, returns, calls_in_ctx, reach_from_succ, site, srcs_text, resolve_call, path_texts, explore
from ..flow import callee_attr
from ..loader import AnalysisError, norm, FuncT
from ..sql import statements, triggers, tables

KM = 'ndn.security.keychain.keychain_sqlite3'
VIEWS = {  # class -> (table, scope column or None, name column)
    'KeychainSqlite3': ('identities', None, 'identity'),
    'Identity': ('keys', 'identity_id', 'key_name'),
    'Key': ('certificates', 'key_id', 'certificate_name'),
}
DEFAULT_METHODS = {  # class -> [(method, table, scope)]
    'KeychainSqlite3': [('has_default_identity', 'identities', None), ('default_identity', 'identities', None)],
    'Identity': [('has_default_key', 'keys', 'identity_id'), ('default_key', 'keys', 'identity_id')],
    'Key': [('has_default_cert', 'certificates', 'key_id'), ('default_cert', 'certificates', 'key_id')],
}
OWNER = {'identities': None, 'keys': 'identity_id', 'certificates': 'key_id'}
NAMECOL = {'identities': 'identity', 'keys': 'key_name', 'certificates': 'certificate_name'}


def run(R):
    P = R.P
    # ------------------------------------------------------------------ SIB.1 mapping methods
    R.ob('C15.SIB.1', 'per view (keychain / identity / key) iteration, length, lookup and default queries read the same table scoped to '
                      'their owner (scope parameter = the view\'s row id)')
    for cls, (table, scope, namecol) in VIEWS.items():
        for meth in ('__iter__', '__len__', '__getitem__'):
            q = f'{KM}.{cls}.{meth}'
            cx = ctx(R, q)
            sts = [s for s in statements(cx) if s.kind == 'SELECT']
            inst = f'{q} :: SQL scope'
            if len(sts) != 1:
                raise AnalysisError(f'{q}: expected one SELECT, found {len(sts)}')
            s = sts[0]
            probs = []
            if s.table != table:
                probs.append(f'reads table `{s.table}`, the view is over `{table}`')
            cols = s.where_cols()
            if scope and scope not in cols:
                probs.append(f'not restricted to the owner (`{scope}` missing from WHERE {cols}): entries of other owners are visible')
            if scope and scope in cols:
                pe = s.param_for(scope)
                if pe is None or ast.unparse(pe) != 'self.row_id':
                    probs.append(f'owner column `{scope}` is bound to `{ast.unparse(pe) if pe is not None else "?"}`, not to self.row_id')
            if meth == '__getitem__':
                if namecol not in cols:
                    probs.append(f'lookup does not select by `{namecol}`')
                else:
                    pe = s.param_for(namecol)
                    srcs = cx.sources(s.node, pe) if pe is not None else []
                    pn = cx.f.node.args.args[1].arg
                    if not any(s_.kind == 'expr' and 'Name.to_bytes' in ast.unparse(s_.expr) and pn in ast.unparse(s_.expr) for s_ in srcs):
                        probs.append(f'lookup key is {srcs_text(srcs)}, not Name.to_bytes(<argument>)')
                extra = [c for c in cols if c not in (scope, namecol)]
                if extra:
                    probs.append(f'lookup also filters on {extra} (iteration does not)')
            else:
                extra = [c for c in cols if c != scope]
                if extra:
                    probs.append(f'extra filter {extra}: iteration/length disagree with lookup')
            if meth == '__len__' and not s.count:
                probs.append('length is not a count(*)')
            if s.params is not None and s.n_placeholders != len(s.params):
                probs.append(f'{s.n_placeholders} placeholders but {len(s.params)} parameters')
            if probs:
                R.fail('C15.SIB.1', inst, q, s.text, '; '.join(probs), site(cx, s.call))
            else:
                R.ok('C15.SIB.1', inst, site(cx, s.call), f'{s.table} scope={scope}')
        # a missing key raises KeyError in __getitem__
        cx = ctx(R, f'{KM}.{cls}.__getitem__')
        rs = [n for n in cx.cfg.nodes if n.kind == 'raise' and n.ast.exc is not None and P.exc_name(cx.f.mod, n.ast.exc) == 'KeyError']
        inst = f'{KM}.{cls}.__getitem__ :: missing entry raises KeyError'
        tests = [t for t in cx.cfg.nodes if t.kind == 'test' and ast.unparse(t.ast) in ('data', 'data is None', 'data is not None')]
        if rs and tests:
            R.ok('C15.SIB.1', inst, site(cx, rs[0].ast))
        else:
            R.fail('C15.SIB.1', inst, cx.qual, 'def __getitem__', 'a missing entry does not raise KeyError (membership would disagree with iteration)',
                   site(cx, cx.f.node))
        for (meth, tb, sc) in DEFAULT_METHODS[cls]:
            q = f'{KM}.{cls}.{meth}'
            cx = ctx(R, q)
            sts = [s for s in statements(cx) if s.kind == 'SELECT']
            inst = f'{q} :: default query scope'
            if len(sts) != 1:
                raise AnalysisError(f'{q}: expected one SELECT')
            s = sts[0]
            cols = dict(s.where)
            probs = []
            if s.table != tb:
                probs.append(f'reads `{s.table}` instead of `{tb}`')
            if cols.get('is_default') != '1':
                probs.append('does not select is_default=1')
            if sc and sc not in cols:
                probs.append(f'default of another owner may be returned (`{sc}` missing)')
            elif sc:
                pe = s.param_for(sc)
                if pe is None or ast.unparse(pe) != 'self.row_id':
                    probs.append(f'`{sc}` bound to {ast.unparse(pe) if pe is not None else "?"}')
            if probs:
                R.fail('C15.SIB.1', inst, q, s.text, '; '.join(probs), site(cx, s.call))
            else:
                R.ok('C15.SIB.1', inst, site(cx, s.call))
    R.minimum('C15.SIB.1', 18)

    # ------------------------------------------------------------------ SQL.1 triggers
    R.ob('C15.SQL.1', 'for each table the trigger triple keeps "at most one default per owner, and one as soon as the scope is populated"')
    r = P.lookup(KM, 'INITIALIZE_SQL')
    R.need(r and r[0] == 'const', 'INITIALIZE_SQL not found')
    script = P.const_value(KM, r[3])
    R.need(isinstance(script, str), 'INITIALIZE_SQL is not a constant string')
    trs = triggers(script)
    tbs = tables(script)
    mod_path = P.path_of(KM)
    R.extra['tables'] = tbs
    for table, owner in OWNER.items():
        mine = [t for t in trs if t.table == table]
        scope_new = f'{owner}=NEW.{owner}' if owner else None

        def has_scope(text):
            return owner is None or re.search(r'\b%s\s*=\s*NEW\.%s\b' % (owner, owner), text) is not None

        def find(timing, event):
            return [t for t in mine if t.timing == timing and t.event == event]
        # before insert
        inst = f'INITIALIZE_SQL :: {table} BEFORE INSERT clears the previous default of the owner'
        bi = find('BEFORE', 'INSERT')
        ok = len(bi) == 1 and re.fullmatch(r'NEW\.is_default\s*=\s*1', bi[0].when) and \
            re.match(r'(?i)UPDATE %s SET is_default\s*=\s*0' % table, bi[0].body) and has_scope(bi[0].body) and \
            (owner is not None or 'WHERE' not in bi[0].body.upper())
        if ok:
            R.ok('C15.SQL.1', inst, mod_path, bi[0].name)
        else:
            R.fail('C15.SQL.1', inst, f'{KM}.INITIALIZE_SQL', f'trigger {table} before insert', 'inserting a row flagged default does not clear '
                   f'exactly the defaults of the same owner ({bi[0].body if bi else "trigger missing"})', mod_path)
        # after insert
        inst = f'INITIALIZE_SQL :: {table} AFTER INSERT makes the first entry of an owner its default'
        ai = find('AFTER', 'INSERT')
        ok = len(ai) == 1 and re.match(r'(?i)NOT EXISTS \(SELECT \w+ FROM %s WHERE is_default\s*=\s*1' % table, ai[0].when) and has_scope(ai[0].when) \
            and re.match(r'(?i)UPDATE %s SET is_default\s*=\s*1 WHERE %s\s*=\s*NEW\.%s;?$' % (table, NAMECOL[table], NAMECOL[table]), ai[0].body)
        if ok:
            R.ok('C15.SQL.1', inst, mod_path, ai[0].name)
        else:
            R.fail('C15.SQL.1', inst, f'{KM}.INITIALIZE_SQL', f'trigger {table} after insert', 'the first entry of an owner does not become its default, '
                   f'or the test looks at other owners ({ai[0].when if ai else "trigger missing"} / {ai[0].body if ai else ""})', mod_path)
        # before update
        inst = f'INITIALIZE_SQL :: {table} BEFORE UPDATE clears the previous default of the owner'
        bu = find('BEFORE', 'UPDATE')
        ok = len(bu) == 1 and re.fullmatch(r'NEW\.is_default\s*=\s*1 AND OLD\.is_default\s*=\s*0', bu[0].when) and \
            re.match(r'(?i)UPDATE %s SET is_default\s*=\s*0' % table, bu[0].body) and has_scope(bu[0].body) and \
            (owner is not None or 'WHERE' not in bu[0].body.upper())
        if ok:
            R.ok('C15.SQL.1', inst, mod_path, bu[0].name)
        else:
            R.fail('C15.SQL.1', inst, f'{KM}.INITIALIZE_SQL', f'trigger {table} before update', 'setting a new default does not clear exactly the '
                   f'previous default of the same owner ({bu[0].body if bu else "trigger missing"})', mod_path)
    # set_default_* : UPDATE <table> SET is_default=1 WHERE <name>=?
    for cls, meth, table in (('KeychainSqlite3', 'set_default_identity', 'identities'), ('Identity', 'set_default_key', 'keys'),
                             ('Key', 'set_default_cert', 'certificates')):
        q = f'{KM}.{cls}.{meth}'
        cx = ctx(R, q)
        sts = statements(cx)
        inst = f'{q} :: sets the flag through an UPDATE (so the trigger runs) and commits'
        commits = calls_in_ctx(cx, attr='commit')
        ok = len(sts) == 1 and sts[0].kind == 'UPDATE' and sts[0].table == table and re.search(r'(?i)SET is_default\s*=\s*1', sts[0].text) \
            and sts[0].where_cols() == [NAMECOL[table]] and commits
        if ok:
            R.ok('C15.SQL.1', inst, site(cx, sts[0].call))
        else:
            R.fail('C15.SQL.1', inst, q, sts[0].text if sts else 'def ' + meth, 'default is not set by `UPDATE ... SET is_default=1 WHERE <name>=?` + commit',
                   site(cx, cx.f.node))

    # ------------------------------------------------------------------ RES.1 view -> keychain delegation resolves
    R.ob('C15.RES.1', 'every call the identity / key views delegate to the keychain (self.pib.<method>) names a method that exists')
    kc_methods = set()
    for (mm, cc) in P.mro(KM, 'KeychainSqlite3'):
        kc_methods |= set(P.methods_of(mm, cc))
    nres = 0
    for cls in ('Identity', 'Key'):
        for mname, mnode in P.methods_of(KM, cls).items():
            if f'{KM}.{cls}.{mname}' in getattr(P, 'absorbed_funcs', {}):
                continue        # a new helper read at its call sites
            cx = ctx(R, f'{KM}.{cls}.{mname}')
            for (n, c) in calls_in_ctx(cx):
                f = c.func
                if isinstance(f, ast.Attribute) and ast.unparse(f.value) == 'self.pib':
                    nres += 1
                    inst = f'{cx.qual} :: self.pib.{f.attr}()'
                    if f.attr in kc_methods:
                        R.ok('C15.RES.1', inst, site(cx, c))
                    else:
                        R.fail('C15.RES.1', inst, cx.qual, c, f'KeychainSqlite3 has no method `{f.attr}`: this operation always raises AttributeError',
                               site(cx, c))
    R.need(nres >= 3, f'only {nres} delegations found')

    # ------------------------------------------------------------------ CKY.1 signer cache key
    R.ob('C15.CKY.1', 'the signer memo key depends on every argument of tpm.get_signer(key_name, key_locator_name)')
    gs = ctx(R, f'{KM}.KeychainSqlite3.get_signer')
    tcalls = [(n, c) for (n, c) in calls_in_ctx(gs, attr='get_signer') if ast.unparse(c.func.value) == 'self.tpm']
    R.need(len(tcalls) == 1, 'get_signer: tpm.get_signer call not found')
    (tn, tc) = tcalls[0]
    tc_args = list(tc.args) + [k_.value for k_ in tc.keywords if k_.arg == 'key_locator_name']
    argnames = set()
    for a in tc_args:
        argnames |= {x.id for x in ast.walk(a) if isinstance(x, ast.Name)}
    stores = [n for n in gs.cfg.nodes if n.kind == 'stmt' and isinstance(n.ast, ast.Assign)
              and any(isinstance(t, ast.Subscript) and ast.unparse(t.value) == 'self._signer_cache' for t in n.ast.targets)]
    gets = [c for (n, c) in calls_in_ctx(gs, attr='get') if ast.unparse(c.func.value) == 'self._signer_cache']
    inst = gs.qual + ' :: cache key'
    if not stores and not gets:
        R.ok('C15.CKY.1', inst, site(gs, tc), 'no memoisation')
    else:
        keys = [(n, [t for t in n.ast.targets if isinstance(t, ast.Subscript)][0].slice) for n in stores] + \
               [(gs.node_of(c), c.args[0]) for c in gets]
        bad = []
        for (n, k) in keys:
            deps = set()
            todo = [(n, x) for x in ast.walk(k) if isinstance(x, ast.Name)]
            seen = set()
            while todo:
                (nd, nm) = todo.pop()
                if nm.id in argnames:
                    deps.add(nm.id)
                    continue
                for s in gs.sources(nd, nm):
                    if s.kind == 'expr' and id(s.expr) not in seen:
                        seen.add(id(s.expr))
                        todo += [(s.node, x) for x in ast.walk(s.expr) if isinstance(x, ast.Name)]
            missing = argnames - deps - {'self'}
            if missing:
                bad.append((k, missing))
        # the key must be built from the same definitions of the arguments that the call sees (not from a value that is defaulted later)
        stale = []
        for (n, k) in keys:
            for a in sorted(argnames - {'self'}):
                used = [(nd_, x) for (nd_, e_) in [(n, k)] for x in ast.walk(e_) if isinstance(x, ast.Name)]
                # follow one level of local copies of the key expression
                kd = {d.id for (d, _) in gs.cfg.defs_reaching(tn, a)}
                todo = [(n, x) for x in ast.walk(k) if isinstance(x, ast.Name)]
                seen_ = set()
                while todo:
                    (nd_, nm_) = todo.pop()
                    if nm_.id == a:
                        here = {d.id for (d, _) in gs.cfg.defs_reaching(nd_, a)}
                        if here != kd:
                            stale.append((a, k))
                        continue
                    if nm_.id in argnames:
                        continue        # another argument: judged in its own round, not followed into its definitions
                    for s_ in gs.sources(nd_, nm_):
                        if s_.kind == 'expr' and id(s_.expr) not in seen_:
                            seen_.add(id(s_.expr))
                            todo += [(s_.node, x) for x in ast.walk(s_.expr) if isinstance(x, ast.Name)]
        if stale and not bad:
            R.fail('C15.CKY.1', inst, gs.qual, stale[0][1], f'the cache key is computed from `{stale[0][0]}` before it has its final value (the value passed to '
                   'tpm.get_signer is assigned later): signers requested with the default end up cached under another key', site(gs, stale[0][1]))
        elif bad:
            R.fail('C15.CKY.1', inst, gs.qual, stores[0].ast if stores else gets[0], f'the cached signer is keyed by `{ast.unparse(bad[0][0])}`, which does '
                   f'not depend on {sorted(bad[0][1])}: a different key with the same key locator gets the other key\'s signer', site(gs, bad[0][0]))
        else:
            R.ok('C15.CKY.1', inst, site(gs, keys[0][1]), f'key depends on {sorted(argnames)}')
    # NUL.1 presence of a signing argument
    R.ob('C15.NUL.1', 'get_signer: a Key / Identity object given as signing argument is used as given even when it holds nothing (these are '
                      'Mappings: an object with no certificates / keys left is falsy)')
    from .common import truthy_label
    n_arg = 0
    for n in gs.cfg.nodes:
        for (nm, v) in gs.cfg.defs_of(n):
            if not (isinstance(v, ast.Call) and ast.unparse(v.func) == 'sign_args.get' and v.args and isinstance(v.args[0], ast.Constant)):
                continue
            # classes the argument is told apart by (`isinstance(arg, Key)`): sized ones make truthiness mean "has members"
            sized = []
            for t in gs.cfg.nodes:
                if t.kind == 'test' and isinstance(t.ast, ast.Call) and isinstance(t.ast.func, ast.Name) and t.ast.func.id == 'isinstance' \
                        and len(t.ast.args) == 2 and isinstance(t.ast.args[0], ast.Name) and t.ast.args[0].id == nm:
                    r_ = P.resolve(gs.f.mod, t.ast.args[1])
                    if r_ and r_[0] == 'class':
                        for (mm, cc) in P.mro(r_[1], r_[2]):
                            if P.find_member(mm, cc, '__len__') or P.find_member(mm, cc, '__bool__'):
                                sized.append(r_[2])
                                break
            if not sized:
                continue
            n_arg += 1
            inst = f'{gs.qual} :: presence of `{v.args[0].value}`'
            # valuation "the argument is an object of that class that holds nothing": falsy, not None, isinstance true. The code that uses it
            # as such an object (the body of an `isinstance(arg, Class)` branch) must be reached - not the fall-back for an argument not given
            def atom(e, nm=nm, sized=tuple(sized)):
                if isinstance(e, ast.Name) and e.id == nm:
                    return False
                lab = truthy_label(e, nm)
                if lab is not None and isinstance(e, ast.Compare):
                    return lab            # `nm is not None` -> True, `nm is None` -> False
                if isinstance(e, ast.Call) and isinstance(e.func, ast.Name) and e.func.id == 'isinstance' and len(e.args) == 2 \
                        and isinstance(e.args[0], ast.Name) and e.args[0].id == nm:
                    r2 = P.resolve(gs.f.mod, e.args[1])
                    return bool(r2 and r2[0] == 'class' and r2[2] in sized)
                return None
            reach = explore(gs, atom, start=n)
            uses = []
            for t in gs.cfg.nodes:
                if t.kind == 'test' and atom(t.ast) is True and isinstance(t.ast, ast.Call) and isinstance(t.stmt, ast.If):
                    body_nodes = {id(x) for st_ in t.stmt.body for x in ast.walk(st_)}
                    uses += [m for m in gs.cfg.nodes if m.ast is not None and id(m.ast) in body_nodes
                             and any(isinstance(x, ast.Name) and x.id == nm and isinstance(x.ctx, ast.Load) for x in ast.walk(m.ast))]
            R.paths_examined += 1
            if not uses:
                raise AnalysisError(f'get_signer: no use of `{nm}` as a {"/".join(sized)} object found')
            if not any(m.id in reach for m in uses):
                bad_t = [t for t in gs.cfg.nodes if t.kind == 'test' and isinstance(t.ast, ast.Name) and t.ast.id == nm]
                R.fail('C15.NUL.1', inst, gs.qual, bad_t[0].ast if bad_t else n.ast, f'`{nm}` may be a {"/".join(sorted(set(sized)))} object, whose truthiness is the '
                       'number of entries it holds: one with nothing left (its certificates / keys were deleted) counts as "not given" and the signer of the default '
                       'identity is returned instead of an error (repro notes/repro/e14.py)', site(gs, bad_t[0].ast if bad_t else n.ast))
            else:
                R.ok('C15.NUL.1', inst, site(gs, uses[0].ast))
    R.need(n_arg >= 2, f'get_signer: only {n_arg} object-valued signing arguments found (key, identity expected)')
    # PRV.1 key locator default and argument order
    R.ob('C15.PRV.1', 'get_signer: the key locator defaults to the selected certificate name; tpm.get_signer gets (key name, key locator); '
                      'the key name is the one the selected certificate belongs to')
    inst = gs.qual + ' :: key locator default'
    kdefs = [(n, v) for n in gs.cfg.nodes for (nm, v) in gs.cfg.defs_of(n) if nm == 'key_locator_name']
    okd = any(isinstance(v, ast.AST) and ast.unparse(v) == 'cert_name' for (_, v) in kdefs) and \
        any(isinstance(v, ast.AST) and "sign_args.get('key_locator'" in ast.unparse(v) for (_, v) in kdefs)
    dn = [n for (n, v) in kdefs if isinstance(v, ast.AST) and ast.unparse(v) == 'cert_name']
    tests = [t for t in gs.cfg.nodes if t.kind == 'test' and ast.unparse(t.ast) in ('key_locator_name', 'key_locator_name is None', 'key_locator_name is not None')]
    if okd and dn and tests and dn[0].id not in gs.cfg.reachable(removed_edges={(tests[0].id, ast.unparse(tests[0].ast) == 'key_locator_name is None')}) \
            and [ast.unparse(a) for a in tc_args] == ['key_name', 'key_locator_name']:
        R.ok('C15.PRV.1', inst, site(gs, dn[0].ast))
    else:
        R.fail('C15.PRV.1', inst, gs.qual, dn[0].ast if dn else tc, 'the key locator does not default to the selected certificate / arguments of '
               f'tpm.get_signer are {[ast.unparse(a) for a in tc_args]}', site(gs, tc))
    inst = gs.qual + ' :: key name and certificate belong together'
    probs = []
    # at the request to the private-key store, on every path: (key name, certificate name) read back through the locals is one of
    #   (<cert>[:-2], <cert>)                                  a certificate given (by name or as object: <cert> = arg or arg.name)
    #   (<key>, self[<key>[:-2]][<key>].default_cert().name)   a key given by name
    #   (<obj>.name, <obj>.default_cert().name)                a Key object given, or the default key of the selected identity
    tcn = gs.node_of(tc)
    cert_e = ast.Name(id='cert_name', ctx=ast.Load())
    # the certificate name on that path: what the key locator defaults to
    pairs = path_texts(gs, tcn, [tc_args[0], cert_e]) if tc_args else set()
    R.paths_examined += len(pairs)
    if not pairs:
        raise AnalysisError('get_signer: cannot read back the key / certificate selection')
    for (k, c) in sorted(pairs):
        okp = False
        if k == c + '[:-2]' and c.startswith("sign_args.get('cert'"):
            okp = True
        elif k.endswith('.name') and c == k[:-5] + '.default_cert().name':
            okp = True
        elif k.startswith("sign_args.get('key'") and c == f'self[{k}[:-2]][{k}].default_cert().name':
            okp = True
        if not okp:
            probs.append((f'on some path the key name is `{k}` while the certificate name is `{c}`: the certificate is not (the default one) of that key', tc))
    if probs:
        for (what, construct) in probs[:2]:
            R.fail('C15.PRV.1', inst, gs.qual, construct, what, site(gs, construct))
    else:
        R.ok('C15.PRV.1', inst, site(gs, gs.f.node), f'{len(pairs)} path histories')

    # ------------------------------------------------------------------ ORD.1 deletes
    R.ob('C15.ORD.1', 'deleting removes everything beneath (certificates, key row, private key; keys of an identity) and resets the signer cache afterwards')
    # ON DELETE CASCADE works only on a connection on which `PRAGMA foreign_keys = ON` was executed (it is a per-connection setting, not stored in
    # the database): it counts only when run on the connection the delete methods use, i.e. on self.conn in __init__ (the schema script is run
    # by initialize() on a connection of its own that is closed again)
    import re as _re
    pragma = False
    ix = ctx(R, f'{KM}.KeychainSqlite3.__init__')
    for (n_, c_) in calls_in_ctx(ix, pred=lambda c: callee_attr(c) in ('execute', 'executescript') and ast.unparse(c.func.value) == 'self.conn'):
        a0 = c_.args[0] if c_.args else None
        txt = a0.value if isinstance(a0, ast.Constant) and isinstance(a0.value, str) else (script if isinstance(a0, ast.Name) and a0.id == 'INITIALIZE_SQL' else '')
        if _re.search(r'pragma\s+foreign_keys\s*=\s*(on|1|true|yes)\b', txt, _re.I):
            pragma = True
    want = {
        'del_cert': {'deletes': [('certificates', 'certificate_name')], 'calls': []},
        'del_key': {'deletes': [('certificates', 'key_id'), ('keys', 'key_name')], 'calls': ['delete_key']},
        'del_identity': {'deletes': [('identities', 'identity')], 'calls': ['del_key']},
    }
    for meth, w in want.items():
        q = f'{KM}.KeychainSqlite3.{meth}'
        cx = ctx(R, q)
        sts = [s for s in statements(cx) if s.kind == 'DELETE']
        have = [(s.table, s.where_cols()[0] if s.where_cols() else None) for s in sts]
        inst = f'{q} :: delete closure'
        probs = []
        for d in w['deletes']:
            if d not in have:
                if d[0] == 'certificates' and meth == 'del_key' and pragma:
                    continue
                probs.append(f'rows of `{d[0]}` (by {d[1]}) are not deleted' + (' - ON DELETE CASCADE is inert: PRAGMA foreign_keys is never enabled' if d[0] == 'certificates' else ''))
        for s in sts:
            if not s.where_cols():
                probs.append(f'`{s.text}` deletes without a WHERE clause')
        for cn in w['calls']:
            cs = calls_in_ctx(cx, attr=cn)
            if not cs:
                probs.append(f'{cn}() is not called (the private key / the keys of the identity stay behind)')
            elif cn == 'del_key':
                loops = [n for n in cx.cfg.nodes if n.kind == 'for' and any(x is cs[0][1] for x in ast.walk(n.ast))]
                if not loops or any(isinstance(x, (ast.Break, ast.Return, ast.Continue)) for x in ast.walk(loops[0].ast)):
                    probs.append('not every key of the identity is deleted')
        resets = [n for n in cx.cfg.nodes if n.kind == 'stmt' and isinstance(n.ast, ast.Assign) and any(ast.unparse(t) == 'self._signer_cache' for t in n.ast.targets)] + \
                 [n for (n, c) in calls_in_ctx(cx, attr='clear') if ast.unparse(c.func.value) == 'self._signer_cache']
        # a reset is `= {}` / `dict()` / `.clear()`; a *selective* invalidation must compare like with like: the cache key holds encoded
        # names (bytes), so a filter that compares a key element with a component list never removes anything
        def kind(cx_, node_, e_):
            t_ = ast.unparse(e_)
            if isinstance(e_, ast.Call) and (t_.startswith('Name.to_bytes(') or t_.startswith('bytes(')):
                return 'bytes'
            if isinstance(e_, ast.Call) and (t_.startswith('Name.normalize(') or t_.startswith('Name.from_str(') or t_.startswith('list(')):
                return 'components'
            if isinstance(e_, ast.Subscript) and isinstance(e_.slice, ast.Slice):
                return kind(cx_, node_, e_.value)
            if isinstance(e_, ast.Name):
                ks = {kind(s_.ctx, s_.node, s_.expr) if s_.kind == 'expr' else None for s_ in cx_.sources(node_, e_)}
                return ks.pop() if len(ks) == 1 else None
            return None
        gsx = ctx(R, f'{KM}.KeychainSqlite3.get_signer')
        key_kinds = None
        for n_ in gsx.cfg.nodes:
            if n_.kind == 'stmt' and isinstance(n_.ast, ast.Assign) and any(isinstance(t_, ast.Subscript) and ast.unparse(t_.value) == 'self._signer_cache' for t_ in n_.ast.targets):
                sl = [t_ for t_ in n_.ast.targets if isinstance(t_, ast.Subscript)][0].slice
                for s_ in gsx.sources(n_, sl):
                    if s_.kind == 'expr' and isinstance(s_.expr, ast.Tuple):
                        key_kinds = [kind(s_.ctx, s_.node, e_) for e_ in s_.expr.elts]
        for r_ in list(resets):
            v_ = r_.ast.value if r_.kind == 'stmt' and isinstance(r_.ast, ast.Assign) else None
            if v_ is None or (isinstance(v_, ast.Dict) and not v_.keys) or (isinstance(v_, ast.Call) and ast.unparse(v_.func) == 'dict' and not v_.args):
                continue
            if isinstance(v_, ast.DictComp) and len(v_.generators) == 1 and 'self._signer_cache' in ast.unparse(v_.generators[0].iter):
                kv = v_.generators[0].target.elts[0].id if isinstance(v_.generators[0].target, ast.Tuple) and isinstance(v_.generators[0].target.elts[0], ast.Name) else None
                decided = False
                for c_ in [x for cnd in v_.generators[0].ifs for x in ast.walk(cnd) if isinstance(x, ast.Compare) and len(x.ops) == 1]:
                    sides = [c_.left, c_.comparators[0]]
                    ke = [x for x in sides if isinstance(x, ast.Subscript) and isinstance(x.value, ast.Name) and x.value.id == kv and isinstance(x.slice, ast.Constant)]
                    ot = [x for x in sides if x not in ke]
                    if len(ke) == 1 and len(ot) == 1 and key_kinds and ke[0].slice.value < len(key_kinds):
                        k1, k2 = key_kinds[ke[0].slice.value], kind(cx, r_, ot[0])
                        if k1 and k2:
                            decided = True
                            if k1 != k2:
                                probs.append(f'the selective invalidation `{ast.unparse(c_)}` compares a cache-key element ({k1}) with a value of another '
                                             f'representation ({k2}): it never matches, so the signer of the deleted key stays cached')
                if not decided:
                    raise AnalysisError(f'{q}: selective signer-cache invalidation `{ast.unparse(v_)[:80]}` cannot be decided')
            else:
                raise AnalysisError(f'{q}: signer cache assigned `{ast.unparse(v_)[:80]}`: neither a reset nor a recognised filter')
        if not resets:
            probs.append('the signer cache is not reset: a signer of the deleted key can still be handed out')
        else:
            # the reset must come after the last delete on every normal path
            lastdel = sts[-1].node if sts else None
            if cx.cfg.exit.id in cx.cfg.reachable(removed_nodes={n.id for n in resets}, follow_exc=False):
                probs.append('a path returns without resetting the signer cache')
            if lastdel is not None and not any(cx.cfg.path_exists(lastdel, r_) for r_ in resets):
                probs.append('the signer cache is reset before the rows are deleted')
        if not calls_in_ctx(cx, attr='commit') and meth != 'del_identity':
            probs.append('the deletion is not committed')
        if probs:
            R.fail('C15.ORD.1', inst, q, 'def ' + meth, '; '.join(probs), site(cx, cx.f.node))
        else:
            R.ok('C15.ORD.1', inst, site(cx, cx.f.node), str(have))

    # ------------------------------------------------------------------ ATM.1
    R.ob('C15.ATM.1', 'no commit separates dependent write steps without compensation (a failure part-way leaves nothing half-created)')
    def rolls_back_itself(qq):
        """every INSERT / UPDATE / DELETE statement of the keychain method qq runs under a handler for any exception that rolls the
        transaction back and re-raises: when the method fails it leaves no uncommitted row behind"""
        cy = ctx(R, qq)
        writes = [s_ for s_ in statements(cy) if s_.kind in ('INSERT', 'UPDATE', 'DELETE')]
        if not writes:
            return False
        for s_ in writes:
            okw = False
            for (h, l) in s_.node.succ:
                if l == 'exc' and h.kind == 'handler':
                    hn = P.handler_names(cy.f.mod, h.ast) if h.ast.type is not None else ['BaseException']
                    if any(x in ('Exception', 'BaseException') for x in hn) \
                            and any(isinstance(x, ast.Call) and callee_attr(x) == 'rollback' for x in ast.walk(h.ast)) \
                            and any(isinstance(x, ast.Raise) and x.exc is None for x in h.ast.body):
                        okw = True
            if not okw:
                return False
        return True
    for meth in ('touch_identity', 'new_identity', 'new_key', 'import_cert'):
        q = f'{KM}.KeychainSqlite3.{meth}'
        cx = ctx(R, q)
        sts = statements(cx)
        commits = [n for (n, c) in calls_in_ctx(cx, attr='commit')]
        inserts = [s for s in sts if s.kind == 'INSERT']
        inst = f'{q} :: multi-step write'
        probs = []
        for ins in inserts:
            after_commit = [cm for cm in commits if cx.cfg.path_exists(ins.node, cm)]
            for cm in after_commit:
                # dependent step: a call to another writing method of the keychain after the commit
                for (n, c) in calls_in_ctx(cx):
                    qq = resolve_call(P, cx, c)
                    if qq and qq.startswith(f'{KM}.KeychainSqlite3.') and qq.rsplit('.', 1)[1] in ('new_key', 'import_cert', 'new_identity') \
                            and cx.cfg.path_exists(cm, n) and n is not cm:
                        # compensation: the call is inside a try whose handler deletes from the inserted table and re-raises
                        comp = False
                        for (h, l) in n.succ:
                            if l == 'exc' and h.kind == 'handler':
                                body = ast.unparse(h.ast)
                                if re.search(r'(?i)DELETE FROM %s' % ins.table, body) and any(isinstance(x, ast.Raise) for x in ast.walk(h.ast)):
                                    comp = True
                                    # the step touches the database, the private-key store (files) and the encoder: the clean-up must run for
                                    # any failure, not for one family of exceptions
                                    hn = P.handler_names(cx.f.mod, h.ast) if h.ast.type is not None else ['BaseException']
                                    if not any(x in ('Exception', 'BaseException') for x in hn):
                                        probs.append((f'the clean-up runs only for {sorted(hn)}: a failure of another kind in {qq.rsplit(".", 1)[1]}() (an OSError from '
                                                      'the private-key store, an encoding error) leaves the half-created entry behind', h.ast))
                                    # the failed step may have left uncommitted rows: they must be rolled back before the handler commits
                                    hcalls = [x for x in ast.walk(h.ast) if isinstance(x, ast.Call) and isinstance(x.func, ast.Attribute)]
                                    names_ = [x.func.attr for x in sorted(hcalls, key=lambda x: (x.lineno, x.col_offset))]
                                    if 'commit' in names_ and ('rollback' not in names_ or names_.index('rollback') > names_.index('commit')) \
                                            and not rolls_back_itself(qq):
                                        probs.append(('the clean-up after a failed step commits without rolling back first: rows half-written by the failed '
                                                      'step are committed under the deleted entry', h.ast))
                        if not comp:
                            probs.append((f'the row inserted into `{ins.table}` is committed before {qq.rsplit(".", 1)[1]}() runs; if that step fails the '
                                          'half-created entry stays and a retry skips the failed step', c))
        if probs:
            for (what, construct) in probs:
                R.fail('C15.ATM.1', inst, q, construct, what, site(cx, construct))
        else:
            R.ok('C15.ATM.1', inst, site(cx, cx.f.node), f'{len(inserts)} insert(s), {len(commits)} commit(s)')

    # ------------------------------------------------------------------ ATM.2 key generation never replaces an existing private key
    R.ob('C15.ATM.2', 'the private-key store writes the file of a newly generated key only when no key of that name exists (a key id given '
                      'twice must fail before the existing key is replaced, not after)')
    gk = ctx(R, 'ndn.security.tpm.tpm_file.TpmFile.generate_key')
    saves = [(n, c) for (n, c) in calls_in_ctx(gk, attr='save_key') if c.args]
    R.need(saves, 'TpmFile.generate_key: no save_key call found')
    for (n, c) in saves:
        kn = ast.unparse(c.args[0])
        inst = f'{gk.qual} :: {norm(c)[:60]}'
        exist_t = [t for t in gk.cfg.nodes if t.kind == 'test' and isinstance(t.ast, ast.Call) and callee_attr(t.ast) == 'key_exist' and t.ast.args
                   and ast.unparse(t.ast.args[0]) == kn]
        if exist_t and n.id not in gk.cfg.reachable(removed_edges={(t.id, False) for t in exist_t}, follow_exc=False):
            R.ok('C15.ATM.2', inst, site(gk, c))
        else:
            R.fail('C15.ATM.2', inst, gk.qual, c, f'the key file for `{kn}` is written whether or not a key of that name exists: new_key(..., key_id=X) for an existing '
                   'X replaces the private key of the existing key and only then fails on the UNIQUE constraint, leaving a key whose certificate no longer matches '
                   'what it signs with (repro notes/repro/e19.py)', site(gk, c))
    # ------------------------------------------------------------------ ATM.3 a key whose creation fails leaves no private key behind
    R.ob('C15.ATM.3', 'new_key: every step between storing the private key (tpm.generate_key) and the commit runs under a handler for any exception '
                      'that rolls the transaction back, removes the private key again and re-raises (a leftover key file makes the repeat with the same key id fail for ever, '
                      'since the store never replaces an existing private key)')
    nk = ctx(R, f'{KM}.KeychainSqlite3.new_key')
    gens = [(n, c) for (n, c) in calls_in_ctx(nk, attr='generate_key')]
    R.need(len(gens) == 1, 'new_key: expected one tpm.generate_key call')
    (gn, gc) = gens[0]
    gdefs = [nm for (nm, v) in nk.cfg.defs_of(gn)]
    commits_nk = [n for (n, c) in calls_in_ctx(nk, attr='commit')]
    R.need(commits_nk, 'new_key: no commit')
    inst = f'{nk.qual} :: steps after the private key is stored'
    between = reach_from_succ(nk.cfg, gn, follow_exc=False)
    # ... that can still reach a commit of this creation (what follows the commit is outside the creation)
    steps = [n for n in nk.cfg.nodes if n.id in between and n.kind in ('stmt', 'test', 'for', 'with', 'return') and list(n.calls())
             and (n in commits_nk or any(nk.cfg.path_exists(n, cm) for cm in commits_nk)) and not n.in_handlers]
    probs = []
    for n in steps:
        hs = [h for (h, l) in n.succ if l == 'exc' and h.kind == 'handler']
        good = False
        for h in hs:
            hn = P.handler_names(nk.f.mod, h.ast) if h.ast.type is not None else ['BaseException']
            dels = [c for c in ast.walk(h.ast) if isinstance(c, ast.Call) and callee_attr(c) == 'delete_key' and c.args]
            rooted = any(isinstance(c.args[0], ast.Name) and c.args[0].id in gdefs for c in dels)
            reraises = any(isinstance(x, ast.Raise) and x.exc is None for x in h.ast.body)
            rolls = any(isinstance(c, ast.Call) and callee_attr(c) == 'rollback' for c in ast.walk(h.ast))
            if any(x in ('Exception', 'BaseException') for x in hn) and rooted and reraises and rolls:
                good = True
        if not good:
            probs.append(n)
    if probs:
        R.fail('C15.ATM.3', inst, nk.qual, probs[0].ast, f'`{norm(probs[0].ast)[:70]}` (and {len(probs) - 1} more step(s)) can fail after the private key was stored with nothing '
               'removing it: the key file stays without a key entry, and new_key(..., key_id=X) repeated after the failure raises "already exists" '
               'every time (repro notes/repro/e24.py)', site(nk, probs[0].ast))
    else:
        R.ok('C15.ATM.3', inst, site(nk, gc), f'{len(steps)} step(s) under a compensating handler')
    # ------------------------------------------------------------------ SIB.2 TpmFile naming
    R.ob('C15.SIB.2', 'TpmFile derives the private-key file name from the same encoding of the key name in every method')
    TF = 'ndn.security.tpm.tpm_file.TpmFile'
    for meth in ('get_signer', 'key_exist', 'save_key', 'delete_key'):
        cx = ctx(R, f'{TF}.{meth}')
        calls = calls_in_ctx(cx, attr='_to_file_name')
        inst = f'{TF}.{meth} :: file name'
        probs = []
        if len(calls) != 1:
            probs.append(f'{len(calls)} file-name derivations')
        else:
            (n, c) = calls[0]
            srcs = cx.sources(n, c.args[0])
            pn = cx.f.node.args.args[1].arg
            if not srcs or not all(s.kind == 'expr' and ast.unparse(s.expr) in (f'Name.to_bytes({pn})', f'Name.encode({pn})') for s in srcs):
                probs.append(f'file name derived from {srcs_text(srcs)}, not from the encoded key name')
            joins = [x for x in n.walk() if isinstance(x, ast.Call) and ast.unparse(x.func) == 'os.path.join']
            if not joins or ast.unparse(joins[0].args[0]) != 'self.path':
                probs.append('file is not located under the TPM directory')
        if probs:
            R.fail('C15.SIB.2', inst, cx.qual, 'def ' + meth, '; '.join(probs), site(cx, cx.f.node))
        else:
            R.ok('C15.SIB.2', inst, site(cx, calls[0][1]))
    fn = ctx(R, f'{TF}._to_file_name')
    rets = returns(fn)
    inst = f'{TF}._to_file_name :: sha256 of the encoded name'
    if rets and all(ast.unparse(r_.ast.value) == "sha256(key_name).digest().hex() + '.privkey'" or
                    ('sha256(key_name)' in ast.unparse(r_.ast.value) and '.privkey' in ast.unparse(r_.ast.value)) for r_ in rets):
        R.ok('C15.SIB.2', inst, site(fn, rets[0].ast))
    else:
        R.fail('C15.SIB.2', inst, fn.qual, 'def _to_file_name', 'file name is not <sha256(key name)>.privkey', site(fn, fn.f.node))
    R.assumptions += ['sqlite3 trigger and UNIQUE index semantics', 'ON DELETE CASCADE is inert without PRAGMA foreign_keys',
                      'histories, crash points and reopen are not decided']
