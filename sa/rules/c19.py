"""C19 — segmented fetch (DESIGN §4 C19)."""
import ast

from .common import explore_sym, ctx, returns, calls_in_ctx, reach_from_succ, site, srcs_text, bound_args, orient, shared_obligations
from ..flow import callee_attr
from ..loader import AnalysisError, norm

SF = 'ndn.app_support.segment_fetcher.segment_fetcher'


def run(R):
    P = R.P
    g = ctx(R, SF)
    rt = ctx(R, SF + '.<retry>')
    R.ob('C19.ESC.1', 'retry: the handler around the awaited Interest catches exactly InterestTimeout (Nack / validation failure propagate)')
    R.ob('C19.LOP.1', 'retry: an Interest is attempted exactly retry_times times before the timeout is re-raised')
    R.ob('C19.LOP.2', 'generator: exactly one yield of the fetched content between consecutive fetches; segment number steps by 1 '
                      'from 0 (or from 1 after yielding segment 0); final-block test after the yield; unsegmented object yields once')
    # ------------------------------------------------------------------ ESC.1
    awaits = [n for n in rt.cfg.nodes if n.has_await()]
    R.need(awaits, 'retry: no awaited Interest')
    exprs = calls_in_ctx(rt, attr='express_interest') + calls_in_ctx(rt, attr='express')
    R.need(exprs, 'retry: no express call')
    for a in awaits:
        hs = [s for (s, l) in a.succ if l == 'exc' and s.kind == 'handler']
        inst = f'{rt.qual} :: handlers around `{norm(a.ast)}`'
        names = []
        for h in hs:
            names += P.handler_names(rt.f.mod, h.ast)
        if not hs:
            R.fail('C19.ESC.1', inst, rt.qual, a.ast, 'a timed-out segment is not retried (no InterestTimeout handler)', site(rt, a.ast))
            continue
        bad = [n for n in names if n != 'ndn.types.InterestTimeout']
        # a handler that re-raises unconditionally is harmless
        swallowing = []
        for h in hs:
            for nm in P.handler_names(rt.f.mod, h.ast):
                if nm == 'ndn.types.InterestTimeout':
                    continue
                body_raises = h.ast.body and isinstance(h.ast.body[-1], ast.Raise) and h.ast.body[-1].exc is None and len(h.ast.body) == 1
                if not body_raises:
                    swallowing.append(nm)
        if swallowing:
            R.fail('C19.ESC.1', inst, rt.qual, hs[0].ast, f'the retry loop also swallows {sorted(set(swallowing))}: Nacks / validation failures '
                   'would be retried or skipped instead of propagating', site(rt, hs[0].ast))
        elif 'ndn.types.InterestTimeout' not in names:
            R.fail('C19.ESC.1', inst, rt.qual, hs[0].ast, 'InterestTimeout is not handled by the retry loop', site(rt, hs[0].ast))
        else:
            R.ok('C19.ESC.1', inst, site(rt, hs[0].ast), f'catches {names}')
    # ------------------------------------------------------------------ LOP.1
    # counter: init const, +1 inside the timeout handler, exit test raising
    augs = [n for n in rt.cfg.nodes if n.kind == 'stmt' and isinstance(n.ast, ast.AugAssign) and isinstance(n.ast.target, ast.Name)]
    inst = f'{rt.qual} :: attempt counter'

    def counted_by_iterator(cx_):
        return any(n.kind == 'for' and isinstance(n.ast.iter, ast.Call) and ast.unparse(n.ast.iter.func).rsplit('.', 1)[-1] in ('count', 'range', 'enumerate')
                   for n in cx_.cfg.nodes)
    if not augs and counted_by_iterator(rt):
        raise AnalysisError('retry: attempts are counted by an iterator (itertools.count / range), a form the counter rule does not read')
    if not augs:
        R.fail('C19.LOP.1', inst, rt.qual, 'def retry', 'time-outs are not counted: a lost segment is re-requested forever instead of failing after retry_times attempts',
               site(rt, rt.f.node))
        augs = None
    elif len(augs) != 1:
        raise AnalysisError(f'retry: expected one counter increment, found {len(augs)}')
    aug = augs[0] if augs else None
    if aug is not None:
        _retry_counter(R, P, rt, aug, exprs, inst)
    _rest(R, P, g, rt, exprs)
    # the fetcher runs on the legacy front-end: a Nack must reach it as a Nack, and a time-out of one fetch must not drop the
    # pending entries of another fetch of the same name (obligations decided by the C10 / C03 rules)
    R.ob('C19.SHR.1', 'shared with C10 / C03: a Nack header without reason is still a Nack for the legacy front-end; a timed-out waiter removes the PIT node '
                      'only when no other Interest is pending in it')
    shared_obligations(R, 'C19.SHR.1', 'C10', {'C10.MPT.1': lambda i: 'parse_lp_packet' in i or i.startswith('ndn.app.NDNApp._receive')})
    shared_obligations(R, 'C19.SHR.1', 'C03', {'C03.MPT.1': lambda i: 'ndn.app.' in i or 'name_tree' in i})


def _retry_counter(R, P, rt, aug, exprs, inst):
    cvar = aug.ast.target.id
    step = aug.ast.value.value if isinstance(aug.ast.op, ast.Add) and isinstance(aug.ast.value, ast.Constant) else None
    inits = [v for (d, v) in rt.cfg.defs_reaching(aug, cvar) if d is not aug]
    init = inits[0].value if len(inits) == 1 and isinstance(inits[0], ast.Constant) else None
    def lhs_off(e):
        if isinstance(e, ast.Name) and e.id == cvar:
            return 0
        if isinstance(e, ast.BinOp) and isinstance(e.op, (ast.Add, ast.Sub)) and isinstance(e.left, ast.Name) and e.left.id == cvar \
                and isinstance(e.right, ast.Constant) and isinstance(e.right.value, int):
            return e.right.value if isinstance(e.op, ast.Add) else -e.right.value
        return None
    class _T:      # test node seen with the counter on the left-hand side
        def __init__(self, node, cmp):
            self.node, self.ast, self.id = node, cmp, node.id
    tests = [_T(t, orient(t.ast, lambda e: lhs_off(e) is not None)) for t in rt.cfg.nodes if t.kind == 'test'
             and orient(t.ast, lambda e: lhs_off(e) is not None) is not None]
    probs = []
    if step != 1 or init is None:
        probs.append((f'counter init={init} step={step}', aug.ast))
    handler_ids = {h.id for h in rt.cfg.nodes if h.kind == 'handler'}
    if not aug.in_handlers and aug.id in rt.cfg.reachable(removed_nodes=handler_ids):
        # (an increment at the end of the loop body is fine when only a timed-out attempt gets there)
        probs.append(('attempts are counted outside the timeout handler', aug.ast))
    if not tests:
        R.fail('C19.LOP.1', inst, rt.qual, aug.ast, 'the attempt counter is never compared with retry_times: the fetch never gives up', site(rt, aug.ast))
        return
    if len(tests) != 1:
        raise AnalysisError(f'retry: expected one test on {cvar}, found {len(tests)}')
    t = tests[0]
    bound = ast.unparse(t.ast.comparators[0])
    if bound != 'retry_times':
        probs.append((f'attempt limit is `{bound}`, not the retry_times argument', t.ast))
    op = type(t.ast.ops[0])
    # `c < R: go on` is `c >= R: give up` read on the other edge
    raise_lab = True
    if op in (ast.Lt, ast.LtE):
        op = {ast.Lt: ast.GtE, ast.LtE: ast.Gt}[op]
        raise_lab = False
    after_inc = rt.cfg.dominates(aug, t.node)
    # number of attempts n at which the raising edge is taken:  counter value c = init + n (after inc) or init + n - 1 (before)
    #  c >= R -> n = R - init (+1 if before) ; c > R -> n = R - init + 1 (+1) ; c == R -> same as >=
    if init is not None and step == 1:
        off = {ast.GtE: 0, ast.Eq: 0, ast.Gt: 1}.get(op)
        if off is None:
            probs.append((f'the limit test `{norm(t.ast)}` does not fire when the number of attempts reaches retry_times', t.ast))
        attempts_minus_R = (-init + off + (0 if after_inc else 1) - lhs_off(t.ast.left)) if off is not None else 0
        if attempts_minus_R != 0:
            probs.append((f'an Interest is attempted retry_times{attempts_minus_R:+d} times (test `{norm(t.ast)}`, counter from {init})', t.ast))
    # the raising edge re-raises the timeout; the other edge loops back to a new express
    r_true = reach_from_succ(rt.cfg, t.node, raise_lab, follow_exc=False)
    raises = [n for n in rt.cfg.nodes if n.kind == 'raise' and n.id in r_true]
    if not raises or any(n.ast.exc is not None and P.exc_name(rt.f.mod, n.ast.exc) != 'ndn.types.InterestTimeout' for n in raises):
        probs.append(('exhausting the attempts does not re-raise the timeout', t.ast))
    r_false = reach_from_succ(rt.cfg, t.node, not raise_lab, follow_exc=False)
    if not any(n.id in r_false for (n, c) in exprs):
        probs.append(('a timed-out Interest is not expressed again', t.ast))
    if rt.cfg.exit.id in r_false and not any(n.id in r_false for (n, c) in exprs):
        probs.append(('the retry loop ends without a result', t.ast))
    # result of a successful await is returned unchanged
    if probs:
        for (what, construct) in probs:
            R.fail('C19.LOP.1', inst, rt.qual, construct, what, site(rt, construct))
    else:
        R.ok('C19.LOP.1', inst, site(rt, t.ast), f'init {init}, +1 per timeout, `{norm(t.ast)}` raises')


def _rest(R, P, g, rt, exprs):
    SFq = SF
    # express parameters: same name variable, caller's validator / lifetime
    (en, ec) = exprs[0]
    kw = {k_: ast.unparse(v_) for k_, v_ in bound_args(P, rt, ec).items()}
    inst = f'{rt.qual} :: Interest parameters'
    want = {'validator': 'validator', 'lifetime': 'timeout', 'must_be_fresh': 'must_be_fresh'}
    bad = {k: kw.get(k) for k, v in want.items() if kw.get(k) != v}
    rparams = [a_.arg for a_ in rt.f.node.args.args]
    # the name requested: the generator's current `name`, or a parameter of the helper (then given at the call sites, checked with the segment counter)
    if bad or not (ec.args and (ast.unparse(ec.args[0]) == 'name' or ast.unparse(ec.args[0]) in rparams)):
        R.fail('C19.LOP.1', inst, rt.qual, ec, f'Interest is not expressed with the caller\'s name/validator/lifetime/freshness ({bad})', site(rt, ec))
    else:
        R.ok('C19.LOP.1', inst, site(rt, ec))

    # a local that holds the last component of the current name (`last = name[-1]`, `name` not re-bound in between) reads as `name[-1]`
    class _Last(ast.NodeTransformer):
        def __init__(self, node):
            self.node = node

        def visit_Name(self, x):
            if isinstance(x.ctx, ast.Load):
                ds = g.cfg.defs_reaching(self.node, x.id)
                if len(ds) == 1 and isinstance(ds[0][1], ast.Subscript) and ast.unparse(ds[0][1]) == 'name[-1]':
                    d = ds[0][0]
                    if {i.id for (i, _) in g.cfg.defs_reaching(d, 'name')} == {i.id for (i, _) in g.cfg.defs_reaching(self.node, 'name')}:
                        return ds[0][1]
            return x

    def lasttext(t):
        import copy
        return ast.unparse(_Last(t).visit(copy.deepcopy(t.ast)))
    # ------------------------------------------------------------------ LOP.2
    fetches = [n for n in g.cfg.nodes if any(isinstance(c.func, ast.Name) and c.func.id == 'retry' for c in n.calls())]
    yields = [n for n in g.cfg.nodes if any(isinstance(x, (ast.Yield, ast.YieldFrom)) for x in n.walk())]
    R.need(len(fetches) >= 2 and yields, 'segment_fetcher: fetch / yield sites not found')
    F = {n.id for n in fetches}
    Y = {n.id for n in yields}
    # Walk of the generator under each valuation of the three facts it branches on:
    #   SEG  the first answer's last component is a segment      ZERO  ... and it is segment 0
    #   FIN  the answer's FinalBlockId equals its last component (taken the same for every answer of one walk)
    # with a small state: is a fetched answer waiting to be yielded, how many were yielded, the integer locals (segment counter)
    # and the segment number last put into the name. Expected: every answer is yielded once before the next request or the end (only a
    # discovery answer that is a segment other than 0 is discarded), request number k asks for the segment after the k yielded so far,
    # nothing is requested after a final / unsegmented answer, the generator does not end before one.
    import copy as _copy
    CAP = 3
    found = {}

    def note(msg, node):
        found.setdefault((msg, node.id), (msg, node.ast))

    def text_at(e, n):
        return ast.unparse(_Last(n).visit(_copy.deepcopy(e))) if n is not None else ast.unparse(e)

    def mk_atom(SEG, ZERO, FIN):
        def atom(e, st, n):
            if isinstance(e, ast.Compare) and len(e.ops) == 1 and isinstance(e.ops[0], (ast.Eq, ast.NotEq, ast.Is, ast.IsNot)):
                l, r = text_at(e.left, n), text_at(e.comparators[0], n)
                pos = isinstance(e.ops[0], (ast.Eq, ast.Is))
                pair = {l, r}
                if pair == {'Component.get_type(name[-1])', 'Component.TYPE_SEGMENT'}:
                    return SEG == pos
                if pair == {'Component.to_number(name[-1])', '0'}:
                    return ZERO == pos
                if pair == {'meta.final_block_id', 'name[-1]'}:
                    return FIN == pos
                if pair == {'meta.final_block_id', 'None'} and FIN:
                    return not pos
            if isinstance(e, ast.Attribute) and ast.unparse(e) == 'meta.final_block_id' and FIN:
                return True
            return None
        return atom

    def ival(e, env):
        if isinstance(e, ast.Constant) and isinstance(e.value, int) and not isinstance(e.value, bool):
            return min(e.value, CAP) if e.value >= 0 else None
        if isinstance(e, ast.Name):
            return env.get(e.id)
        if isinstance(e, ast.BinOp) and isinstance(e.op, ast.Add):
            a_, b_ = ival(e.left, env), ival(e.right, env)
            return None if a_ is None or b_ is None else min(a_ + b_, CAP)
        return None

    def seg_of(e, env):
        """segment number a name expression ends in: `... + [Component.from_segment(X)]`, `[*.., Component.from_segment(X)]`, `Component.from_segment(X)`"""
        for x in ast.walk(e):
            if isinstance(x, ast.Call) and ast.unparse(x.func).endswith('from_segment') and x.args:
                return ('v', ival(x.args[0], env))
        return None

    def mk_transfer(SEG, ZERO, FIN):
        def transfer(n, st):
            d = dict(st)
            env = dict(d.get('env', ()))
            if n.id in F:
                disc = any(isinstance(c.func, ast.Name) and c.func.id == 'retry' and any(isinstance(a_, ast.Constant) and a_.value is True for a_ in list(c.args) + [k_.value for k_ in c.keywords])
                           for c in n.calls())
                if d.get('pending'):
                    if not (d.get('disc') and SEG and not ZERO):
                        note('a fetched segment can be skipped: the next one is requested before it was yielded', n)
                if d.get('nfetch', 0) >= 1:
                    if not SEG:
                        note('an unsegmented object leads to further segment Interests', n)
                    elif FIN and d.get('nyield', 0) >= 1:
                        note('fetching continues after the segment designated final', n)
                if not disc:
                    req = d.get('req')
                    for c in n.calls():
                        if isinstance(c.func, ast.Name) and c.func.id == 'retry' and c.args and seg_of(c.args[0], env):
                            req = seg_of(c.args[0], env)
                    if req is None:
                        note('the segment component of the next Interest is not built from the segment counter', n)
                    elif req[1] is None or (req[1] != d.get('nyield', 0) and req[1] < CAP):
                        note(f'the Interest after {d.get("nyield", 0)} yielded segment(s) asks for segment {req[1] if req[1] is not None else "?"}', n)
                    d['req'] = None
                d['pending'], d['disc'] = True, disc
                d['nfetch'] = min(d.get('nfetch', 0) + 1, CAP)
            if n.id in Y:
                if not d.get('pending'):
                    note('a segment can be yielded twice', n)
                elif d.get('disc') and SEG and not ZERO:
                    note('the first answer is yielded although it is not segment 0', n)
                d['pending'] = False
                d['nyield'] = min(d.get('nyield', 0) + 1, CAP)
            if n.kind == 'stmt' and isinstance(n.ast, (ast.Assign, ast.AugAssign)):
                if isinstance(n.ast, ast.AugAssign):
                    tg, val = [n.ast.target], ast.BinOp(left=n.ast.target, op=n.ast.op, right=n.ast.value)
                else:
                    tg, val = n.ast.targets, n.ast.value
                for t in tg:
                    if isinstance(t, ast.Name) and t.id == 'name' or ast.unparse(t) == 'name[-1]':
                        sg = seg_of(val, env)
                        if sg is not None:
                            d['req'] = sg
                    if isinstance(t, ast.Name) and n.id not in F:
                        v = ival(val, env)
                        if v is None:
                            env.pop(t.id, None)
                        else:
                            env[t.id] = v
                    elif isinstance(t, ast.Tuple):
                        for x in t.elts:
                            if isinstance(x, ast.Name):
                                env.pop(x.id, None)
            d['env'] = tuple(sorted(env.items()))
            return tuple(sorted(d.items(), key=lambda kv: kv[0]))
        return transfer
    nstates = 0
    for SEG, ZERO, FIN in ((False, False, False), (False, False, True), (True, True, True), (True, True, False), (True, False, True), (True, False, False)):
        reached = explore_sym(g, mk_atom(SEG, ZERO, FIN), mk_transfer(SEG, ZERO, FIN), (), node_aware=True)
        nstates += len(reached)
        for (nid, st) in reached:
            if nid != g.cfg.exit.id:
                continue
            d = dict(st)
            if d.get('pending'):
                found.setdefault(('a fetched segment can be dropped: the generator ends without yielding it', -1),
                                 ('a fetched segment can be dropped: the generator ends without yielding it', g.f.node))
            elif SEG and not FIN:
                found.setdefault(('the generator can end before the segment designated final was fetched', -1),
                                 ('the generator can end before the segment designated final was fetched', g.f.node))
            elif d.get('nyield', 0) == 0:
                found.setdefault(('the generator can end without yielding anything', -1), ('the generator can end without yielding anything', g.f.node))
    R.paths_examined += nstates
    probs = list(found.values())
    for y in yields:
        # yielded value = content of the latest fetch (element 2)
        yv = [x for x in y.walk() if isinstance(x, ast.Yield)][0].value
        srcs = g.sources(y, yv) if yv is not None else []
        if not srcs or not all(s.kind == 'unpack' and s.extra == 2 and 'retry(' in ast.unparse(s.expr) for s in srcs):
            probs.append((f'yields {srcs_text(srcs)} instead of the Content of the fetched Data', y.ast))
    inst = f'{SF} :: trace of requests and yields under the 6 valuations of (segmented, segment 0, final)'
    if probs:
        for (what, construct) in probs:
            R.fail('C19.LOP.2', inst, SF, construct if not isinstance(construct, ast.AsyncFunctionDef) else 'def segment_fetcher', what, site(g, construct))
    else:
        R.ok('C19.LOP.2', inst, site(g, yields[0].ast), f'{len(fetches)} fetch sites, {len(yields)} yield sites, {nstates} (node, state) pairs walked')
    # no in-place mutation of the fetched name: the same tuple completes every pending Interest the Data satisfies, so the
    # list is shared with other consumers (e.g. a second fetch of the same object)
    R.ob('C19.PRV.1', 'the name list returned by a fetch is not modified in place (it is shared with every other Interest the Data satisfied)')
    nmut = 0
    for n in g.cfg.nodes:
        tgts = []
        if n.kind == 'stmt' and isinstance(n.ast, (ast.Assign, ast.AugAssign)):
            tgts = [t for t in (n.ast.targets if isinstance(n.ast, ast.Assign) else [n.ast.target]) if isinstance(t, ast.Subscript)]
        muts = [t.value for t in tgts if isinstance(t.value, ast.Name)]
        for c in n.calls():
            if isinstance(c.func, ast.Attribute) and c.func.attr in ('append', 'pop', 'extend', 'insert', 'remove', 'clear', 'sort', 'reverse') \
                    and isinstance(c.func.value, ast.Name):
                muts.append(c.func.value)
        for mv in muts:
            shared = [s for s in g.sources(n, mv) if s.kind == 'unpack' and 'retry(' in ast.unparse(s.expr)]
            if shared:
                nmut += 1
                R.fail('C19.PRV.1', f'{SF} :: {norm(n.ast)}', SF, n.ast, f'`{mv.id}` may be the name list of a fetched Data and is modified in place; a '
                       'concurrent fetch of the same object sees the change (wrong final-block test / next segment)', site(g, n.ast))
    if not nmut:
        R.ok('C19.PRV.1', f'{SF} :: fetched name never mutated', site(g, g.f.node))
    R.assumptions += ['express_interest contract (C03/C05)', 'loss patterns and producer behaviour are not decided']
