"""C19 — segmented fetch (DESIGN §4 C19)."""
import ast

from .common import ctx, returns, calls_in_ctx, reach_from_succ, site, srcs_text, bound_args, orient, shared_obligations
from ..flow import callee_attr
from ..loader import AnalysisError, norm

SF = 'ndn.app_support.segment_fetcher.segment_fetcher'


def run(R):
    P = R.P
    g = ctx(R, SF)
    rt = ctx(R, SF + '.<retry>')
    R.ob('C19.ESC.1', 'retry: the handler around the awaited Interest catches exactly InterestTimeout (Nack / validation failure propagate)')
    R.ob('C19.LOP.1', 'retry: an Interest is attempted exactly retry_times times before the timeout is re-raised')
    R.ob('C19.LOP.2', 'generator: exactly one yield of the fetched content between consecutive fetches; segment number steps by 1 '
                      'from 0 (or from 1 after yielding segment 0); final-block test after the yield; unsegmented object yields once')
    # ------------------------------------------------------------------ ESC.1
    awaits = [n for n in rt.cfg.nodes if n.has_await()]
    R.need(awaits, 'retry: no awaited Interest')
    exprs = calls_in_ctx(rt, attr='express_interest') + calls_in_ctx(rt, attr='express')
    R.need(exprs, 'retry: no express call')
    for a in awaits:
        hs = [s for (s, l) in a.succ if l == 'exc' and s.kind == 'handler']
        inst = f'{rt.qual} :: handlers around `{norm(a.ast)}`'
        names = []
        for h in hs:
            names += P.handler_names(rt.f.mod, h.ast)
        if not hs:
            R.fail('C19.ESC.1', inst, rt.qual, a.ast, 'a timed-out segment is not retried (no InterestTimeout handler)', site(rt, a.ast))
            continue
        bad = [n for n in names if n != 'ndn.types.InterestTimeout']
        # a handler that re-raises unconditionally is harmless
        swallowing = []
        for h in hs:
            for nm in P.handler_names(rt.f.mod, h.ast):
                if nm == 'ndn.types.InterestTimeout':
                    continue
                body_raises = h.ast.body and isinstance(h.ast.body[-1], ast.Raise) and h.ast.body[-1].exc is None and len(h.ast.body) == 1
                if not body_raises:
                    swallowing.append(nm)
        if swallowing:
            R.fail('C19.ESC.1', inst, rt.qual, hs[0].ast, f'the retry loop also swallows {sorted(set(swallowing))}: Nacks / validation failures '
                   'would be retried or skipped instead of propagating', site(rt, hs[0].ast))
        elif 'ndn.types.InterestTimeout' not in names:
            R.fail('C19.ESC.1', inst, rt.qual, hs[0].ast, 'InterestTimeout is not handled by the retry loop', site(rt, hs[0].ast))
        else:
            R.ok('C19.ESC.1', inst, site(rt, hs[0].ast), f'catches {names}')
    # ------------------------------------------------------------------ LOP.1
    # counter: init const, +1 inside the timeout handler, exit test raising
    augs = [n for n in rt.cfg.nodes if n.kind == 'stmt' and isinstance(n.ast, ast.AugAssign) and isinstance(n.ast.target, ast.Name)]
    inst = f'{rt.qual} :: attempt counter'

    def counted_by_iterator(cx_):
        return any(n.kind == 'for' and isinstance(n.ast.iter, ast.Call) and ast.unparse(n.ast.iter.func).rsplit('.', 1)[-1] in ('count', 'range', 'enumerate')
                   for n in cx_.cfg.nodes)
    if not augs and counted_by_iterator(rt):
        raise AnalysisError('retry: attempts are counted by an iterator (itertools.count / range), a form the counter rule does not read')
    if not augs:
        R.fail('C19.LOP.1', inst, rt.qual, 'def retry', 'time-outs are not counted: a lost segment is re-requested forever instead of failing after retry_times attempts',
               site(rt, rt.f.node))
        augs = None
    elif len(augs) != 1:
        raise AnalysisError(f'retry: expected one counter increment, found {len(augs)}')
    aug = augs[0] if augs else None
    if aug is not None:
        _retry_counter(R, P, rt, aug, exprs, inst)
    _rest(R, P, g, rt, exprs)
    # the fetcher runs on the legacy front-end: a Nack must reach it as a Nack, and a time-out of one fetch must not drop the
    # pending entries of another fetch of the same name (obligations decided by the C10 / C03 rules)
    R.ob('C19.SHR.1', 'shared with C10 / C03: a Nack header without reason is still a Nack for the legacy front-end; a timed-out waiter removes the PIT node '
                      'only when no other Interest is pending in it')
    shared_obligations(R, 'C19.SHR.1', 'C10', {'C10.MPT.1': lambda i: 'parse_lp_packet' in i or i.startswith('ndn.app.NDNApp._receive')})
    shared_obligations(R, 'C19.SHR.1', 'C03', {'C03.MPT.1': lambda i: 'ndn.app.' in i or 'name_tree' in i})


def _retry_counter(R, P, rt, aug, exprs, inst):
    cvar = aug.ast.target.id
    step = aug.ast.value.value if isinstance(aug.ast.op, ast.Add) and isinstance(aug.ast.value, ast.Constant) else None
    inits = [v for (d, v) in rt.cfg.defs_reaching(aug, cvar) if d is not aug]
    init = inits[0].value if len(inits) == 1 and isinstance(inits[0], ast.Constant) else None
    def lhs_off(e):
        if isinstance(e, ast.Name) and e.id == cvar:
            return 0
        if isinstance(e, ast.BinOp) and isinstance(e.op, (ast.Add, ast.Sub)) and isinstance(e.left, ast.Name) and e.left.id == cvar \
                and isinstance(e.right, ast.Constant) and isinstance(e.right.value, int):
            return e.right.value if isinstance(e.op, ast.Add) else -e.right.value
        return None
    class _T:      # test node seen with the counter on the left-hand side
        def __init__(self, node, cmp):
            self.node, self.ast, self.id = node, cmp, node.id
    tests = [_T(t, orient(t.ast, lambda e: lhs_off(e) is not None)) for t in rt.cfg.nodes if t.kind == 'test'
             and orient(t.ast, lambda e: lhs_off(e) is not None) is not None]
    probs = []
    if step != 1 or init is None:
        probs.append((f'counter init={init} step={step}', aug.ast))
    handler_ids = {h.id for h in rt.cfg.nodes if h.kind == 'handler'}
    if not aug.in_handlers and aug.id in rt.cfg.reachable(removed_nodes=handler_ids):
        # (an increment at the end of the loop body is fine when only a timed-out attempt gets there)
        probs.append(('attempts are counted outside the timeout handler', aug.ast))
    if not tests:
        R.fail('C19.LOP.1', inst, rt.qual, aug.ast, 'the attempt counter is never compared with retry_times: the fetch never gives up', site(rt, aug.ast))
        return
    if len(tests) != 1:
        raise AnalysisError(f'retry: expected one test on {cvar}, found {len(tests)}')
    t = tests[0]
    bound = ast.unparse(t.ast.comparators[0])
    if bound != 'retry_times':
        probs.append((f'attempt limit is `{bound}`, not the retry_times argument', t.ast))
    op = type(t.ast.ops[0])
    # `c < R: go on` is `c >= R: give up` read on the other edge
    raise_lab = True
    if op in (ast.Lt, ast.LtE):
        op = {ast.Lt: ast.GtE, ast.LtE: ast.Gt}[op]
        raise_lab = False
    after_inc = rt.cfg.dominates(aug, t.node)
    # number of attempts n at which the raising edge is taken:  counter value c = init + n (after inc) or init + n - 1 (before)
    #  c >= R -> n = R - init (+1 if before) ; c > R -> n = R - init + 1 (+1) ; c == R -> same as >=
    if init is not None and step == 1:
        off = {ast.GtE: 0, ast.Eq: 0, ast.Gt: 1}.get(op)
        if off is None:
            probs.append((f'the limit test `{norm(t.ast)}` does not fire when the number of attempts reaches retry_times', t.ast))
        attempts_minus_R = (-init + off + (0 if after_inc else 1) - lhs_off(t.ast.left)) if off is not None else 0
        if attempts_minus_R != 0:
            probs.append((f'an Interest is attempted retry_times{attempts_minus_R:+d} times (test `{norm(t.ast)}`, counter from {init})', t.ast))
    # the raising edge re-raises the timeout; the other edge loops back to a new express
    r_true = reach_from_succ(rt.cfg, t.node, raise_lab, follow_exc=False)
    raises = [n for n in rt.cfg.nodes if n.kind == 'raise' and n.id in r_true]
    if not raises or any(n.ast.exc is not None and P.exc_name(rt.f.mod, n.ast.exc) != 'ndn.types.InterestTimeout' for n in raises):
        probs.append(('exhausting the attempts does not re-raise the timeout', t.ast))
    r_false = reach_from_succ(rt.cfg, t.node, not raise_lab, follow_exc=False)
    if not any(n.id in r_false for (n, c) in exprs):
        probs.append(('a timed-out Interest is not expressed again', t.ast))
    if rt.cfg.exit.id in r_false and not any(n.id in r_false for (n, c) in exprs):
        probs.append(('the retry loop ends without a result', t.ast))
    # result of a successful await is returned unchanged
    if probs:
        for (what, construct) in probs:
            R.fail('C19.LOP.1', inst, rt.qual, construct, what, site(rt, construct))
    else:
        R.ok('C19.LOP.1', inst, site(rt, t.ast), f'init {init}, +1 per timeout, `{norm(t.ast)}` raises')


def _rest(R, P, g, rt, exprs):
    SFq = SF
    # express parameters: same name variable, caller's validator / lifetime
    (en, ec) = exprs[0]
    kw = {k_: ast.unparse(v_) for k_, v_ in bound_args(P, rt, ec).items()}
    inst = f'{rt.qual} :: Interest parameters'
    want = {'validator': 'validator', 'lifetime': 'timeout', 'must_be_fresh': 'must_be_fresh'}
    bad = {k: kw.get(k) for k, v in want.items() if kw.get(k) != v}
    rparams = [a_.arg for a_ in rt.f.node.args.args]
    # the name requested: the generator's current `name`, or a parameter of the helper (then given at the call sites, checked with the segment counter)
    if bad or not (ec.args and (ast.unparse(ec.args[0]) == 'name' or ast.unparse(ec.args[0]) in rparams)):
        R.fail('C19.LOP.1', inst, rt.qual, ec, f'Interest is not expressed with the caller\'s name/validator/lifetime/freshness ({bad})', site(rt, ec))
    else:
        R.ok('C19.LOP.1', inst, site(rt, ec))

    # a local that holds the last component of the current name (`last = name[-1]`, `name` not re-bound in between) reads as `name[-1]`
    class _Last(ast.NodeTransformer):
        def __init__(self, node):
            self.node = node

        def visit_Name(self, x):
            if isinstance(x.ctx, ast.Load):
                ds = g.cfg.defs_reaching(self.node, x.id)
                if len(ds) == 1 and isinstance(ds[0][1], ast.Subscript) and ast.unparse(ds[0][1]) == 'name[-1]':
                    d = ds[0][0]
                    if {i.id for (i, _) in g.cfg.defs_reaching(d, 'name')} == {i.id for (i, _) in g.cfg.defs_reaching(self.node, 'name')}:
                        return ds[0][1]
            return x

    def lasttext(t):
        import copy
        return ast.unparse(_Last(t).visit(copy.deepcopy(t.ast)))
    # ------------------------------------------------------------------ LOP.2
    fetches = [n for n in g.cfg.nodes if any(isinstance(c.func, ast.Name) and c.func.id == 'retry' for c in n.calls())]
    yields = [n for n in g.cfg.nodes if any(isinstance(x, (ast.Yield, ast.YieldFrom)) for x in n.walk())]
    R.need(len(fetches) >= 2 and yields, 'segment_fetcher: fetch / yield sites not found')
    F = {n.id for n in fetches}
    Y = {n.id for n in yields}
    probs = []
    for t in g.cfg.nodes:
        if t.kind == 'test' and 'to_number(' in ast.unparse(t.ast) and 'to_number(name[-1])' not in lasttext(t):
            R.fail('C19.LOP.2', f'{SF} :: segment number of the last component', SF, t.ast, f'the segment number is read from `{norm(t.ast)}`, not from the last name component', site(g, t.ast))
    zts = [t for t in g.cfg.nodes if t.kind == 'test' and isinstance(t.ast, ast.Compare) and 'to_number' in ast.unparse(t.ast)
           and isinstance(t.ast.comparators[0], ast.Constant) and t.ast.comparators[0].value == 0 and isinstance(t.ast.ops[0], ast.Eq)]
    for f in fetches:
        # (a) from a fetch, without passing a yield, neither another fetch nor the normal exit is reachable
        #     (exception: a discovery answer that is not segment 0 is discarded and the fetch restarts from segment 0)
        discovery = any(isinstance(c.func, ast.Name) and c.func.id == 'retry' and any(isinstance(a_, ast.Constant) and a_.value is True for a_ in c.args)
                        for c in f.calls())
        skip_ok = {(t.id, False) for t in zts} if discovery else set()
        r = reach_from_succ(g.cfg, f, removed_nodes=Y, removed_edges=skip_ok, follow_exc=False)
        if g.cfg.exit.id in r:
            probs.append(('a fetched segment can be dropped: the generator ends without yielding it', f.ast))
        if any(x in r for x in F):
            probs.append(('a fetched segment can be skipped: the next one is requested before it was yielded', f.ast))
    for y in yields:
        # (b) no second yield without a new fetch in between
        r = reach_from_succ(g.cfg, y, removed_nodes=F, follow_exc=False)
        if any(x in r for x in Y):
            probs.append(('a segment can be yielded twice', y.ast))
        # yielded value = content of the latest fetch (element 2)
        yv = [x for x in y.walk() if isinstance(x, ast.Yield)][0].value
        srcs = g.sources(y, yv) if yv is not None else []
        if not srcs or not all(s.kind == 'unpack' and s.extra == 2 and 'retry(' in ast.unparse(s.expr) for s in srcs):
            probs.append((f'yields {srcs_text(srcs)} instead of the Content of the fetched Data', y.ast))
    inst = f'{SF} :: one yield per fetch'
    R.paths_examined += len(fetches) + len(yields)
    if probs:
        for (what, construct) in probs:
            R.fail('C19.LOP.2', inst, SF, construct, what, site(g, construct))
    else:
        R.ok('C19.LOP.2', inst, site(g, yields[0].ast), f'{len(fetches)} fetch sites, {len(yields)} yield sites')
    # segment counter
    segaug = [n for n in g.cfg.nodes if n.kind == 'stmt' and isinstance(n.ast, ast.AugAssign) and isinstance(n.ast.target, ast.Name)]
    inst = f'{SF} :: segment number stepping'
    probs = []
    if not segaug and any(n.kind == 'for' and isinstance(n.ast.iter, ast.Call) and ast.unparse(n.ast.iter.func).rsplit('.', 1)[-1] in ('count', 'range')
                          for n in g.cfg.nodes):
        raise AnalysisError('segment_fetcher: segment numbers come from an iterator (itertools.count / range), a form the stepping rule does not read')
    if len(segaug) != 1 or not (isinstance(segaug[0].ast.op, ast.Add) and isinstance(segaug[0].ast.value, ast.Constant) and segaug[0].ast.value.value == 1):
        probs.append(('segment number does not advance by exactly 1', segaug[0].ast if segaug else g.f.node))
    else:
        sv = segaug[0].ast.target.id
        loopfetch = [f for f in fetches if g.cfg.path_exists(f, f) and f.id in reach_from_succ(g.cfg, f)]
        for f in loopfetch:
            # every cycle through the loop fetch passes the increment
            r = reach_from_succ(g.cfg, f, removed_nodes={segaug[0].id}, follow_exc=False)
            if f.id in r:
                probs.append(('the same segment can be requested again without advancing the segment number', f.ast))
        # the requested name uses the counter
        sets = [n for n in g.cfg.nodes if n.kind == 'stmt' and isinstance(n.ast, ast.Assign)
                and any(ast.unparse(t) in ('name[-1]', 'name') for t in n.ast.targets) and 'from_segment' in ast.unparse(n.ast.value)]
        okset = bool(sets)
        # ... or handed to the fetch helper directly as the name to request
        direct = [c.args[0] for f in loopfetch for c in f.calls() if isinstance(c.func, ast.Name) and c.func.id == 'retry' and c.args
                  and 'from_segment' in ast.unparse(c.args[0])]
        if not sets and direct:
            okset = all(ast.unparse(a_) in (f'name[:-1] + [Component.from_segment({sv})]', f'[*name[:-1], Component.from_segment({sv})]',
                                            f'list(name[:-1]) + [Component.from_segment({sv})]') for a_ in direct)
        for s_ in sets:
            v_ = ast.unparse(s_.ast.value)
            tg = ast.unparse(s_.ast.targets[0])
            if tg == 'name[-1]' and v_ != f'Component.from_segment({sv})':
                okset = False
            if tg == 'name' and v_ not in (f'name[:-1] + [Component.from_segment({sv})]', f'[*name[:-1], Component.from_segment({sv})]',
                                           f'list(name[:-1]) + [Component.from_segment({sv})]'):
                okset = False
        if not okset:
            probs.append(('the segment component of the next Interest is not built from the segment counter', sets[0].ast if sets else g.f.node))
        elif sets and loopfetch and not all(g.cfg.dominates(sets[0], f) for f in loopfetch):
            probs.append(('the next Interest is sent before its segment component is set', loopfetch[0].ast))
        # initial values
        inits = [(n, n.ast.value.value) for n in g.cfg.nodes if n.kind == 'stmt' and isinstance(n.ast, ast.Assign)
                 and len(n.ast.targets) == 1 and ast.unparse(n.ast.targets[0]) == sv and isinstance(n.ast.value, ast.Constant)]
        # ... or handed over through another local (`first = 1 / 0 ... seg = first`): the constants that local is bound to, where it is bound
        for n in g.cfg.nodes:
            if n.kind == 'stmt' and isinstance(n.ast, ast.Assign) and len(n.ast.targets) == 1 and ast.unparse(n.ast.targets[0]) == sv \
                    and isinstance(n.ast.value, ast.Name):
                for s_ in g.sources(n, n.ast.value):
                    if s_.kind == 'expr' and isinstance(s_.expr, ast.Constant) and s_.node is not None:
                        inits.append((s_.node, s_.expr.value))
        zero_tests = [t for t in g.cfg.nodes if t.kind == 'test' and isinstance(t.ast, ast.Compare) and 'to_number' in ast.unparse(t.ast)
                      and isinstance(t.ast.comparators[0], ast.Constant) and t.ast.comparators[0].value == 0 and isinstance(t.ast.ops[0], ast.Eq)]
        if sorted(v for (_, v) in inits) != [0, 1] or len(zero_tests) != 1:
            probs.append((f'segment counter starts from {sorted(v for (_, v) in inits)}', inits[0][0].ast if inits else g.f.node))
        else:
            zt = zero_tests[0]
            for (n, v) in inits:
                lab = (v == 0)      # remove the edge that legitimately leads here: v==1 <- True edge, v==0 <- False edge
                if n.id in g.cfg.reachable(removed_edges={(zt.id, not lab)}):
                    probs.append((f'start segment {v} chosen on the wrong branch of `{norm(zt.ast)}`', n.ast))
                if v == 1:
                    # segment 0 must have been yielded first
                    if n.id in g.cfg.reachable(removed_nodes=Y):
                        probs.append(('starts from segment 1 without having yielded segment 0', n.ast))
    if probs:
        for (what, construct) in probs:
            R.fail('C19.LOP.2', inst, SF, construct if not isinstance(construct, ast.AsyncFunctionDef) else 'def segment_fetcher', what, site(g, construct))
    else:
        R.ok('C19.LOP.2', inst, site(g, segaug[0].ast))
    # no in-place mutation of the fetched name: the same tuple completes every pending Interest the Data satisfies, so the
    # list is shared with other consumers (e.g. a second fetch of the same object)
    R.ob('C19.PRV.1', 'the name list returned by a fetch is not modified in place (it is shared with every other Interest the Data satisfied)')
    nmut = 0
    for n in g.cfg.nodes:
        tgts = []
        if n.kind == 'stmt' and isinstance(n.ast, (ast.Assign, ast.AugAssign)):
            tgts = [t for t in (n.ast.targets if isinstance(n.ast, ast.Assign) else [n.ast.target]) if isinstance(t, ast.Subscript)]
        muts = [t.value for t in tgts if isinstance(t.value, ast.Name)]
        for c in n.calls():
            if isinstance(c.func, ast.Attribute) and c.func.attr in ('append', 'pop', 'extend', 'insert', 'remove', 'clear', 'sort', 'reverse') \
                    and isinstance(c.func.value, ast.Name):
                muts.append(c.func.value)
        for mv in muts:
            shared = [s for s in g.sources(n, mv) if s.kind == 'unpack' and 'retry(' in ast.unparse(s.expr)]
            if shared:
                nmut += 1
                R.fail('C19.PRV.1', f'{SF} :: {norm(n.ast)}', SF, n.ast, f'`{mv.id}` may be the name list of a fetched Data and is modified in place; a '
                       'concurrent fetch of the same object sees the change (wrong final-block test / next segment)', site(g, n.ast))
    if not nmut:
        R.ok('C19.PRV.1', f'{SF} :: fetched name never mutated', site(g, g.f.node))
    # final-block tests: `meta.final_block_id == name[-1]` True edge returns; located after a yield
    fb = [t for t in g.cfg.nodes if t.kind == 'test' and 'final_block_id' in ast.unparse(t.ast)]
    inst = f'{SF} :: final-block tests'
    probs = []
    if len(fb) < 2:
        probs.append((f'{len(fb)} final-block tests; the segmented paths (first = segment 0, following) each need one', g.f.node))
    for t in fb:
        tl = ast.parse(lasttext(t), mode='eval').body
        okshape = isinstance(tl, ast.Compare) and isinstance(tl.ops[0], ast.Eq) and \
            {ast.unparse(tl.left), ast.unparse(tl.comparators[0])} == {'meta.final_block_id', 'name[-1]'}
        if not okshape:
            probs.append((f'final-block test is `{norm(t.ast)}`', t.ast))
            continue
        rT = reach_from_succ(g.cfg, t, True, follow_exc=False)
        if any(x in rT for x in F):
            probs.append(('fetching continues after the segment designated final', t.ast))
        if t.id in g.cfg.reachable(removed_nodes=Y, follow_exc=False):
            probs.append(('final-block test can run before the segment was yielded', t.ast))
    if probs:
        for (what, construct) in probs:
            R.fail('C19.LOP.2', inst, SF, construct if not isinstance(construct, ast.AsyncFunctionDef) else 'def segment_fetcher', what, site(g, construct))
    else:
        R.ok('C19.LOP.2', inst, site(g, fb[0].ast), f'{len(fb)} tests')
    # unsegmented path: type test, yield once, return
    ut = [t for t in g.cfg.nodes if t.kind == 'test' and 'TYPE_SEGMENT' in ast.unparse(t.ast)]
    for t in ut:
        if 'get_type(name[-1])' not in lasttext(t):
            R.fail('C19.LOP.2', f'{SF} :: segment test on the last component', SF, t.ast, f'whether the answer is a segment is decided on `{norm(t.ast)}`, not on the last name component',
                   site(g, t.ast))
    inst = f'{SF} :: unsegmented object'
    if len(ut) != 1 or not isinstance(ut[0].ast, ast.Compare):
        R.fail('C19.LOP.2', inst, SF, 'def segment_fetcher', 'no test whether the first answer is a segment', site(g, g.f.node))
    else:
        t = ut[0]
        lab = isinstance(t.ast.ops[0], ast.NotEq)       # label of the unsegmented edge
        r = reach_from_succ(g.cfg, t, lab, follow_exc=False)
        if any(x in r for x in F):
            R.fail('C19.LOP.2', inst, SF, t.ast, 'an unsegmented object leads to further segment Interests', site(g, t.ast))
        else:
            R.ok('C19.LOP.2', inst, site(g, t.ast))
    R.assumptions += ['express_interest contract (C03/C05)', 'loss patterns and producer behaviour are not decided']
