"""C01 — Interest / Data encode-decode round trip (structure of the two-pass encoder and of make/parse). DESIGN §4 C01."""
import ast

from .common import ctx, returns, calls_in_ctx, reach_from_succ, site, srcs_text, caller_object_reaches, full_text, call_arg, alias_text, bulk_appends, orient
from .c08 import size_rules, stale_rule
from ..flow import callee_attr
from ..linexpr import lin, show, NotLinear
from ..loader import AnalysisError, norm
from ..tlvtables import varnum_tables, compare_varnum

F3 = 'ndn.encoding.ndn_format_0_3'
TM = 'ndn.encoding.tlv_model'


def one_defs(cx):
    d = {}
    for n in cx.cfg.nodes:
        for nm, v in cx.cfg.defs_of(n):
            d.setdefault(nm, []).append(v)
    return {k: v[0] for k, v in d.items() if len(v) == 1 and isinstance(v[0], ast.AST)}


def run(R):
    P = R.P
    size_rules(R, 'C01')
    stale_rule(R, 'C01')
    R.ob('C01.TBL.1', 'type and length numbers are written and announced in the shortest form (VAR-NUMBER), all four codec functions agree')
    tabs = varnum_tables(P, ('get_tl_num_size', 'write_tl_num', 'parse_tl_num'))
    bad = [x for x in compare_varnum(tabs, only=('get_tl_num_size', 'write_tl_num', 'parse_tl_num')) if not x[3]]
    if bad:
        for (what, a, b, okay, detail) in bad:
            R.fail('C01.TBL.1', f'{a} :: {what}', 'ndn.encoding.tlv_var.' + a, what, f'{a}: {what}: {detail}', tabs[a]['site'])
    else:
        R.ok('C01.TBL.1', 'VAR-NUMBER tables', tabs['write_tl_num']['site'], f'{len(compare_varnum(tabs, only=('get_tl_num_size', 'write_tl_num', 'parse_tl_num')))} table facts')
    # ------------------------------------------------------------------ SIZ.2 shrink_length
    R.ob('C01.SIZ.2', 'shrink_length: length rewritten as size - val; if the header shrinks, type/length are rewritten `diff` bytes later and the '
                      'view starts at diff (value not moved); both views end at -val')
    sl = ctx(R, 'ndn.encoding.tlv_var.shrink_length')
    d = one_defs(sl)
    inst = sl.qual
    probs = []
    try:
        wparam, vparam = [a.arg for a in sl.f.node.args.args]
        if 'real_size' not in d or lin(d['real_size']) != {'size': 1, vparam: -1}:
            probs.append(('the new length is not size - shrink', d.get('real_size', sl.f.node)))
        ws = [c for (n, c) in sorted(calls_in_ctx(sl, pred=lambda c: ast.unparse(c.func) == 'write_tl_num'), key=lambda x: x[0].id)]
        if len(ws) != 3:
            probs.append((f'{len(ws)} header writes instead of 3', sl.f.node))
        else:
            if ast.unparse(ws[0].args[0]) != 'real_size' or lin(ws[0].args[2]) != {'typ_len': 1}:
                probs.append(('the shortened length is not written right after the type', ws[0]))
            diff = d.get('diff')
            if diff is None or lin(diff) != {'siz_len': 1, 'new_siz_len': -1}:
                probs.append(('diff is not old length size - new length size', diff if diff is not None else sl.f.node))
            if ast.unparse(ws[1].args[0]) != 'typ' or lin(ws[1].args[2], {}) != {'diff': 1}:
                probs.append(('the type is not re-written at offset diff', ws[1]))
            if ast.unparse(ws[2].args[0]) != 'real_size' or lin(ws[2].args[2], {}) != {'typ_len': 1, 'diff': 1}:
                probs.append(('the length is not re-written at offset diff + type size', ws[2]))
        eqt = [t for t in sl.cfg.nodes if t.kind == 'test' and ast.unparse(t.ast) in ('new_siz_len == siz_len', 'siz_len == new_siz_len', 'new_siz_len != siz_len')]
        rets = returns(sl)
        if len(eqt) != 1 or len(rets) != 2:
            probs.append(('the two cases (header keeps / loses bytes) are not distinguished', sl.f.node))
        else:
            lab_same = not ast.unparse(eqt[0].ast).count('!=')
            for r in rets:
                v = r.ast.value
                same = r.id not in sl.cfg.reachable(removed_edges={(eqt[0].id, lab_same)})
                if not (isinstance(v, ast.Subscript) and isinstance(v.slice, ast.Slice) and v.slice.upper is not None and lin(v.slice.upper) == {vparam: -1}):
                    probs.append((f'`{norm(r.ast)}` does not cut exactly the unused tail', r.ast))
                    continue
                lo = {} if v.slice.lower is None else lin(v.slice.lower)
                if same and lo != {}:
                    probs.append(('same-size header: the view must start at 0', r.ast))
                if not same and lo != {'diff': 1}:
                    probs.append(('shorter header: the view must start at diff', r.ast))
    except NotLinear as e:
        raise AnalysisError(f'shrink_length: {e}')
    if probs:
        for (what, construct) in probs:
            R.fail('C01.SIZ.2', inst, sl.qual, construct if not isinstance(construct, ast.FunctionDef) else 'def shrink_length', what, site(sl, construct))
    else:
        R.ok('C01.SIZ.2', inst, site(sl, sl.f.node), 'diff + typ_len + new_siz_len == typ_len + siz_len')
    # ------------------------------------------------------------------ SIZ.3 calculate_signature
    R.ob('C01.SIZ.3', 'signature shrink: the length byte rewritten after signing is the one saved at the length position; shrink = announced - real; '
                      'announced >= 253 with a shorter signature raises')
    cs = ctx(R, TM + '.SignatureValueField.calculate_signature')
    ei = ctx(R, TM + '.SignatureValueField.encode_into')
    probs = []
    sh = [c for (n, c) in calls_in_ctx(cs, attr='set_arg') if ast.unparse(c.func.value) == 'self.shrink_len']
    if len(sh) != 1 or ast.unparse(sh[0].args[1]) != 'sig_value_len - real_len':
        probs.append(('the shrink amount is not announced - real signature length', sh[0] if sh else cs.f.node))
    dd = one_defs(cs)
    if 'sig_value_len' not in dd or "##encoded_length" not in ast.unparse(dd['sig_value_len']):
        probs.append(('the announced length is not the one computed by encoded_length', cs.f.node))
    if 'real_len' not in dd or 'write_signature_value(self.value_buffer.get_arg(markers), self.covered_part.get_arg(markers))' not in ast.unparse(dd['real_len']):
        probs.append(('the signer is not given (value buffer, covered part) of this encode', cs.f.node))
    st = [n for n in cs.cfg.nodes if n.kind == 'stmt' and isinstance(n.ast, ast.Assign) and '##wire_length' in ast.unparse(n.ast.targets[0])]
    if len(st) != 1 or ast.unparse(st[0].ast.value) != 'real_len' or not ast.unparse(st[0].ast.targets[0]).endswith('[0]'):
        probs.append(('the length byte is not overwritten with the real signature length', cs.f.node))
    t253 = [t for t in cs.cfg.nodes if t.kind == 'test' and ast.unparse(t.ast) in ('sig_value_len >= 253', 'sig_value_len > 252')]
    if not t253 or not st or st[0].id in cs.cfg.reachable(removed_edges={(t253[0].id, False)}):
        probs.append(('a one-byte length is patched even when the announced length needed three bytes', cs.f.node))
    # encode_into: wire_length marker is the slice right after the type; value buffer after the length
    eseq = []
    for n in sorted(ei.cfg.nodes, key=lambda n: n.id):
        if n.kind == 'stmt' and n.ast is not None:
            t = ast.unparse(n.ast)
            if 'offset += write_tl_num(self.type_num' in t:
                eseq.append('type')
            elif '##wire_length' in t and 'wire[offset:offset + 1]' in t:
                eseq.append('mark')
            elif 'offset += write_tl_num(sig_value_len' in t:
                eseq.append('len')
            elif 'self.value_buffer.set_arg(markers, wire[offset:offset + sig_value_len])' in t:
                eseq.append('buf')
            elif t == 'offset += sig_value_len':
                eseq.append('adv')
    if eseq != ['type', 'mark', 'len', 'buf', 'adv']:
        probs.append((f'encode_into lays the field out as {eseq}, expected type, (remember length position), length, value buffer, advance', ei.f.node))
    inst = cs.qual
    if probs:
        for (what, construct) in probs:
            R.fail('C01.SIZ.3', inst, cs.qual, construct if not isinstance(construct, ast.FunctionDef) else 'def ' + construct.name, what, site(cs, construct))
    else:
        R.ok('C01.SIZ.3', inst, site(cs, cs.f.node))
    # ------------------------------------------------------------------ ORD.1 make_interest / make_data
    R.ob('C01.ORD.1', 'make_interest / make_data: encode, then shrink iff shrink_size > 0, and return the (shrunk) buffer')
    for fq, inner in ((F3 + '.make_interest', 'interest'), (F3 + '.make_data', 'data')):
        cx = ctx(R, fq)
        inst = fq
        probs = []
        enc = [n for (n, c) in calls_in_ctx(cx, attr='encode') if ast.unparse(call_arg(P, cx, c, 'markers', ast.Constant(None))) == 'markers']
        shc = calls_in_ctx(cx, pred=lambda c: ast.unparse(c.func) == 'shrink_length')
        if len(enc) != 1 or len(shc) != 1:
            probs.append((f'{len(enc)} encodes / {len(shc)} shrinks', cx.f.node))
        else:
            (sn, sc) = shc[0]
            retvar = [nm for (nm, v) in cx.cfg.defs_of(enc[0])]
            amount = sc.args[1] if len(sc.args) > 1 else None
            # the guard: a test of the shrink amount (> 0, != 0, >= 1, truthiness) whose positive edge is the only way to the shrink
            def positive(t):
                a_ = t.ast
                if amount is not None and ast.unparse(a_) == ast.unparse(amount):
                    return True
                o = orient(a_, lambda e: amount is not None and ast.unparse(e) == ast.unparse(amount))
                if o is not None and isinstance(o.comparators[0], ast.Constant):
                    k = o.comparators[0].value
                    if (isinstance(o.ops[0], ast.Gt) and k == 0) or (isinstance(o.ops[0], ast.NotEq) and k == 0) or (isinstance(o.ops[0], ast.GtE) and k == 1):
                        return True
                    if (isinstance(o.ops[0], ast.LtE) and k == 0) or (isinstance(o.ops[0], ast.Eq) and k == 0) or (isinstance(o.ops[0], ast.Lt) and k == 1):
                        return False
                return None
            gt = [(t, positive(t)) for t in cx.cfg.nodes if t.kind == 'test' and positive(t) is not None]
            if len(gt) != 1:
                probs.append((f'{len(gt)} tests of the shrink amount guard the shrink', sc))
            elif sn.id in cx.cfg.reachable(removed_edges={(gt[0][0].id, gt[0][1])}):
                probs.append(('the packet is shrunk although nothing was reserved in excess', sc))
            if not cx.cfg.dominates(enc[0], sn):
                probs.append(('shrink before encode', sc))
            enc_call = [c for c in enc[0].calls() if callee_attr(c) == 'encode'][0]

            def from_encode(node_, e_, allow_shrunk):
                srcs_ = cx.sources(node_, e_)
                return bool(srcs_) and all(s_.kind == 'expr' and (s_.expr is enc_call or (allow_shrunk and s_.expr is sc)) for s_ in srcs_)
            if not from_encode(sn, sc.args[0], False):
                probs.append(('shrink_length is not applied to the encoded buffer', sc))
            if amount is None or f"_shrink_len.get_arg(markers['{inner}##inner_markers'])" not in full_text(cx, amount):
                probs.append(('the shrink amount is not read from the inner markers of this encode', cx.f.node))
            for r in returns(cx):
                v = r.ast.value
                first = v.elts[0] if isinstance(v, ast.Tuple) else v
                if not from_encode(r, first, True):
                    probs.append((f'returns {ast.unparse(first)}, which is not the encoded (and possibly shrunk) buffer', r.ast))
                elif r.id in cx.cfg.reachable(start=sn, follow_exc=False) and any(s_.expr is enc_call for s_ in cx.sources(r, first)
                                                                                  if cx.cfg.path_exists(sn, s_.node) or s_.node is enc[0]) \
                        and not any(s_.expr is sc for s_ in cx.sources(r, first)):
                    probs.append(('the result of shrink_length is dropped', sc))
        sg = [c for (n, c) in calls_in_ctx(cx, attr='set_arg') if ast.unparse(c.func).endswith('_signer.set_arg')]
        if len(sg) != 1 or [ast.unparse(a) for a in sg[0].args] != ['markers', 'signer']:
            probs.append(('the signer argument is not handed to the encoder', cx.f.node))
        if probs:
            for (what, construct) in probs:
                R.fail('C01.ORD.1', inst, fq, construct if not isinstance(construct, ast.FunctionDef) else 'def ' + cx.f.node.name, what, site(cx, construct))
        else:
            R.ok('C01.ORD.1', inst, site(cx, shc[0][1]))
    # ------------------------------------------------------------------ SIB.1 make / parse copy the same fields
    R.ob('C01.SIB.1', 'make_interest and parse_interest copy the same InterestParam fields, name to same name; name / parameters / payload are passed through untransformed')
    ipc = P.cls(F3 + '.InterestParam')
    fields = [s.target.id for s in ipc.body if isinstance(s, ast.AnnAssign) and isinstance(s.target, ast.Name)]
    R.need(len(fields) >= 6, f'InterestParam fields {fields}')
    mi, pi = ctx(R, F3 + '.make_interest'), ctx(R, F3 + '.parse_interest')

    conditional = {}

    def attr_copies(cx, lhs_prefix, rhs_prefix):
        out = {}
        rets_ = [r for r in returns(cx) if r.ast.value is not None]
        for n in cx.cfg.nodes:
            if n.kind == 'stmt' and isinstance(n.ast, ast.Assign) and isinstance(n.ast.targets[0], ast.Attribute):
                l, r = ast.unparse(n.ast.targets[0]), ast.unparse(n.ast.value)
                if l.startswith(lhs_prefix + '.') and '.' not in l[len(lhs_prefix) + 1:]:
                    out[l[len(lhs_prefix) + 1:]] = r
                    if not all(cx.cfg.dominates(n, r_) for r_ in rets_):
                        conditional[(cx.qual, l[len(lhs_prefix) + 1:])] = n
        return out
    def local_from(cx, pred, what):
        c = [nm for n in cx.cfg.nodes for (nm, v) in cx.cfg.defs_of(n) if isinstance(v, ast.AST) and pred(v)]
        if len(set(c)) != 1:
            raise AnalysisError(f'{cx.qual}: cannot identify {what} (candidates {sorted(set(c))})')
        return c[0]
    # roles, not names: the decoded model, the parameter object being filled, the packet model being built
    p_ret = local_from(pi, lambda v: isinstance(v, ast.Call) and callee_attr(v) == 'parse' and 'InterestPacketValue' in ast.unparse(v.func), 'the decoded Interest')
    p_par = local_from(pi, lambda v: isinstance(v, ast.Call) and ast.unparse(v.func) == 'InterestParam', 'the InterestParam being filled')
    m_pkt = local_from(mi, lambda v: isinstance(v, ast.Call) and ast.unparse(v.func) == 'InterestPacket', 'the Interest packet being built')
    m_par = [a.arg for a in mi.f.node.args.args][1]
    m_name, m_app = [a.arg for a in mi.f.node.args.args][0], [a.arg for a in mi.f.node.args.args][2]
    mk = attr_copies(mi, f'{m_pkt}.interest', m_par)
    pk = attr_copies(pi, p_par, p_ret)
    for f in fields:
        inst = f'InterestParam.{f}'
        if f == 'forwarding_hint':
            okm = any(n.kind == 'for' and ast.unparse(n.ast.iter) == f'{m_par}.forwarding_hint' for n in mi.cfg.nodes) and \
                any(callee_attr(c) == 'append' and 'forwarding_hint.names' in ast.unparse(c.func) for (n, c) in calls_in_ctx(mi))
            okp = any(alias_text(pi, rv) == f'{p_par}.forwarding_hint' and alias_text(pi, it) == f'{p_ret}.forwarding_hint.names'
                      for (n, rv, it) in bulk_appends(pi))
        else:
            okm = mk.get(f) == f'{m_par}.{f}'
            okp = pk.get(f) == f'{p_ret}.{f}'
        cond = None if f == 'forwarding_hint' else (conditional.get((mi.qual, f)) or conditional.get((pi.qual, f)))
        if okm and okp and cond is not None:
            who = mi if (mi.qual, f) in conditional else pi
            R.fail('C01.SIB.1', inst, who.qual, cond.ast, f'`{f}` is copied only on some paths (`{norm(cond.ast)}` is guarded): some values of the field do not '
                   'survive the round trip (e.g. 0 or an absent element replaced by the default)', site(who, cond.ast))
        elif okm and okp:
            R.ok('C01.SIB.1', inst, site(mi, mi.f.node))
        else:
            who = 'make_interest' if not okm else 'parse_interest'
            R.fail('C01.SIB.1', inst, F3 + '.' + who, f, f'{who} does not copy `{f}` from/to the field of the same name (make: {mk.get(f)}, parse: {pk.get(f)})',
                   site(mi if not okm else pi, (mi if not okm else pi).f.node))
    extra = [k for k in list(mk) + list(pk) if k not in fields and k not in ('name', 'application_parameters', 'signature_info')]
    if extra:
        R.fail('C01.SIB.1', 'InterestParam :: unknown fields', F3 + '.make_interest', str(extra), f'fields {extra} are copied but are not InterestParam fields', site(mi, mi.f.node))
    inst = 'make_interest / parse_interest :: name and ApplicationParameters'
    rp = returns(pi)
    okr = mk.get('name') == m_name and mk.get('application_parameters') == m_app and rp and all(
        isinstance(r.ast.value, ast.Tuple) and len(r.ast.value.elts) == 4 and
        [ast.unparse(e) for e in r.ast.value.elts[:3]] == [f'{p_ret}.name', p_par, f'{p_ret}.application_parameters'] and
        full_text(pi, r.ast.value.elts[3]).startswith('SignaturePtrs(') for r in rp)
    if okr:
        R.ok('C01.SIB.1', inst, site(pi, rp[0].ast))
    else:
        R.fail('C01.SIB.1', inst, F3 + '.parse_interest', rp[0].ast if rp else 'def parse_interest', 'name / parameters / ApplicationParameters are not passed through by name', site(pi, pi.f.node))
    md, pd = ctx(R, F3 + '.make_data'), ctx(R, F3 + '.parse_data')
    d_pkt = local_from(md, lambda v: isinstance(v, ast.Call) and ast.unparse(v.func) == 'DataPacket', 'the Data packet being built')
    d_ret = local_from(pd, lambda v: isinstance(v, ast.Call) and callee_attr(v) == 'parse' and 'DataPacketValue' in ast.unparse(v.func), 'the decoded Data')
    d_args = [a.arg for a in md.f.node.args.args]
    dk = attr_copies(md, f'{d_pkt}.data', '')
    rp = returns(pd)
    # the second element returned is the decoded MetaInfo, or a fresh MetaInfo() when the element is absent
    mvars = {ast.unparse(r.ast.value.elts[1]) for r in rp if isinstance(r.ast.value, ast.Tuple) and len(r.ast.value.elts) == 4}
    pdefs = sorted({s_.text() for r in rp if isinstance(r.ast.value, ast.Tuple) and len(r.ast.value.elts) == 4 for s_ in pd.sources(r, r.ast.value.elts[1])})
    inst = 'make_data / parse_data :: name, MetaInfo, content'
    okd = dk.get('name') == d_args[0] and dk.get('meta_info') == d_args[1] and dk.get('content') == d_args[2] and rp and all(
        isinstance(r.ast.value, ast.Tuple) and len(r.ast.value.elts) == 4 and
        [ast.unparse(r.ast.value.elts[0]), ast.unparse(r.ast.value.elts[2])] == [f'{d_ret}.name', f'{d_ret}.content'] and
        full_text(pd, r.ast.value.elts[3]).startswith('SignaturePtrs(') for r in rp) \
        and len(mvars) == 1 and sorted(pdefs) == sorted(['MetaInfo()', f'{d_ret}.meta_info'])
    if okd:
        R.ok('C01.SIB.1', inst, site(pd, rp[0].ast))
    else:
        R.fail('C01.SIB.1', inst, F3 + '.parse_data', rp[0].ast if rp else 'def parse_data', f'Data fields are not passed through by name (make: {dk}, parse params from {pdefs})', site(pd, pd.f.node))
    # need_final_name
    inst = 'make_interest :: final name is the name that was encoded (with the digest component)'
    fr = [r for r in returns(mi) if isinstance(r.ast.value, ast.Tuple)]
    if fr and all("InterestPacketValue.name.get_final_name(markers['interest##inner_markers'])" == full_text(mi, r.ast.value.elts[1]) for r in fr):
        R.ok('C01.SIB.1', inst, site(mi, fr[0].ast))
    else:
        R.fail('C01.SIB.1', inst, F3 + '.make_interest', fr[0].ast if fr else 'def make_interest', 'the final name is not taken from the encoder\'s preprocessed name', site(mi, mi.f.node))
    # ------------------------------------------------------------------ PRV.1 parameters digest component
    R.ob('C01.PRV.1', 'InterestNameField: the digest component appended / located is type ParametersSha256 with length 32 and the digest buffer is its 32-byte value')
    nl, ne, npf = ctx(R, TM + '.InterestNameField.encoded_length'), ctx(R, TM + '.InterestNameField.encode_into'), ctx(R, TM + '.InterestNameField.parse_from')
    probs = []
    src_l, src_e, src_p = ast.unparse(nl.f.node), ast.unparse(ne.f.node), ast.unparse(npf.f.node)
    # constant additions to the announced length (the components themselves may be summed by a loop)
    adds = [n for n in nl.cfg.nodes if n.kind == 'stmt' and isinstance(n.ast, ast.AugAssign) and ast.unparse(n.ast.target) == 'length'
            and not (isinstance(n.ast.value, ast.Call) and ast.unparse(n.ast.value.func) == 'len')]
    if len(adds) != 1 or ast.unparse(adds[0].ast.value) != '34':
        probs.append((nl, 'the appended digest component is not announced as 34 bytes (type, length, 32-byte value)', nl.f.node))
    else:
        nt = [t for t in nl.cfg.nodes if t.kind == 'test' and ast.unparse(t.ast) in ('need_digest', 'digest_pos is None')]
        if len(nt) < 2 or adds[0].id in nl.cfg.reachable(removed_edges={(t.id, True) for t in nt if ast.unparse(t.ast) == 'need_digest'}) \
                or adds[0].id in nl.cfg.reachable(removed_edges={(t.id, True) for t in nt if ast.unparse(t.ast) == 'digest_pos is None'}):
            probs.append((nl, 'the 34 bytes are announced although no digest is needed / one is already present', adds[0].ast))
    # numeric layout of the digest component, extracted from slices and increments (shape missing -> analysis error, numbers wrong -> violation)
    def slices_of(cx, var):
        out = []
        for n in cx.cfg.nodes:
            if n.kind == 'stmt' and isinstance(n.ast, ast.Assign) and ast.unparse(n.ast.targets[0]) == var and isinstance(n.ast.value, ast.Subscript) \
                    and isinstance(n.ast.value.slice, ast.Slice) and ast.unparse(n.ast.value.value) == 'wire':
                sl_ = n.ast.value.slice
                try:
                    lo, hi = lin(sl_.lower), lin(sl_.upper)
                except NotLinear:
                    continue
                out.append((n, lo.get(1, 0) if set(lo) <= {1, 'offset'} else None, hi.get(1, 0) if set(hi) <= {1, 'offset'} else None))
        return out
    dsl = slices_of(ne, 'digest_buf')
    if len(dsl) != 2:
        raise AnalysisError(f'InterestNameField.encode_into: expected two digest buffer slices (existing / appended component), found {len(dsl)}')
    widths = sorted((hi - lo, lo) for (_, lo, hi) in dsl if lo is not None and hi is not None)
    if widths != [(32, 0), (32, 2)]:
        probs.append((ne, f'digest buffers are wire[offset+{[w[1] for w in widths]}: +{[w[0] for w in widths]} bytes]; expected the 32-byte value (after a 2-byte header for an existing component)', dsl[0][0].ast))
    tw = [c for (n, c) in calls_in_ctx(ne, pred=lambda c: ast.unparse(c.func) == 'write_tl_num')
          if P.const_value(ne.f.mod, c.args[0]) in (0x02,) or ast.unparse(c.args[0]).endswith('TYPE_PARAMETERS_SHA256')]
    lw = [c for (n, c) in calls_in_ctx(ne, pred=lambda c: ast.unparse(c.func) == 'write_tl_num') if isinstance(c.args[0], ast.Constant)]
    if len(tw) != 1:
        probs.append((ne, 'the appended component is not written with type ParametersSha256DigestComponent', ne.f.node))
    if len(lw) != 1 or lw[0].args[0].value != 32:
        probs.append((ne, f'the appended component declares length {[c.args[0].value for c in lw]} instead of 32', lw[0] if lw else ne.f.node))
    incs = [n.ast.value.value for n in ne.cfg.nodes if n.kind == 'stmt' and isinstance(n.ast, ast.AugAssign) and ast.unparse(n.ast.target) == 'offset'
            and isinstance(n.ast.value, ast.Constant)]
    if incs != [32]:
        probs.append((ne, f'after the appended component offset advances by {incs} instead of 32', ne.f.node))
    cst = [v for n in ne.cfg.nodes for (nm, v) in ne.cfg.defs_of(n) if nm == 'cover_start' and isinstance(v, ast.BinOp)]
    if len(cst) != 1 or lin(cst[0]) != {'offset': 1, 1: 34}:
        probs.append((ne, 'the signed range does not resume 34 bytes after the start of an existing digest component', cst[0] if cst else ne.f.node))
    sets = [c for (n, c) in calls_in_ctx(ne, attr='set_arg') if ast.unparse(c.func.value) == 'self.digest_buffer']
    if len(sets) != 1 or ast.unparse(sets[0].args[1]) != 'digest_buf':
        probs.append((ne, 'the digest buffer is not handed to the packet encoder', ne.f.node))
    psets = [c for (n, c) in calls_in_ctx(npf, attr='set_arg') if ast.unparse(c.func.value) == 'self.digest_buffer']
    def _is_digest_type_test(t):
        a = t.ast
        if not (isinstance(a, ast.Compare) and len(a.ops) == 1 and isinstance(a.ops[0], ast.Eq)):
            return False
        sides = [a.left, a.comparators[0]]
        if not any(ast.unparse(x).endswith('TYPE_PARAMETERS_SHA256') for x in sides):
            return False
        other = [x for x in sides if not ast.unparse(x).endswith('TYPE_PARAMETERS_SHA256')]
        if len(other) != 1:
            return False
        srcs = [other[0]] if not isinstance(other[0], ast.Name) else [v for (d, v) in npf.cfg.defs_reaching(t, other[0].id) if isinstance(v, ast.AST)]
        return bool(srcs) and all(isinstance(v, ast.Call) and callee_attr(v) == 'get_type' for v in srcs)
    ptests = [t for t in npf.cfg.nodes if t.kind == 'test' and _is_digest_type_test(t)]
    if len(psets) != 1 or len(ptests) != 1:
        raise AnalysisError('InterestNameField.parse_from: digest handling not recognised')
    if ast.unparse(psets[0].args[1]) != 'Component.get_value(ele)' or npf.node_of(psets[0]).id in npf.cfg.reachable(removed_edges={(ptests[0].id, True)}):
        probs.append((npf, 'parse: the digest value buffer is not the value of the ParametersSha256 component', psets[0]))
    refus = [n for n in nl.cfg.nodes if n.kind == 'raise' and 'ParametersSha256' in ast.unparse(n.ast)]
    if not refus:
        probs.append((nl, 'a second / unnecessary digest component is not refused', nl.f.node))
    inst = TM + '.InterestNameField :: digest component'
    if probs:
        for (cx, what, construct) in probs:
            R.fail('C01.PRV.1', inst, cx.qual, construct if not isinstance(construct, ast.FunctionDef) else 'def ' + cx.f.node.name, what, site(cx, construct))
    else:
        R.ok('C01.PRV.1', inst, site(ne, ne.f.node))
    # ------------------------------------------------------------------ PRV.2 the encoder never edits the caller's name object
    R.ob('C01.PRV.2', 'the name list the encoder edits (string components replaced, digest component appended) is a private copy, never the caller\'s object')
    for q in (TM + '.InterestNameField.encoded_length', TM + '.NameField.encoded_length', TM + '.InterestNameField.encode_into', TM + '.NameField.encode_into'):
        cx = ctx(R, q)
        edits = []
        # does the sibling encode_into edit the preprocessed name it reads back from the markers?
        ex = ctx(R, q.rsplit('.', 1)[0] + '.encode_into')
        pre_locals = {nm for n in ex.cfg.nodes for (nm, v) in ex.cfg.defs_of(n)
                      if isinstance(v, ast.Subscript) and ast.unparse(v.value) == 'markers' and 'preprocessed_name' in ast.unparse(v.slice)}
        MUT = ('append', 'extend', 'insert', 'pop', 'remove', 'clear', 'sort', 'reverse')
        sibling_edits = any(callee_attr(c) in MUT and ((isinstance(c.func.value, ast.Name) and c.func.value.id in pre_locals) or
                                                        (isinstance(c.func.value, ast.Subscript) and 'preprocessed_name' in ast.unparse(c.func.value)))
                            for n in ex.cfg.nodes for c in n.calls()) or \
            any(isinstance(t, ast.Subscript) and isinstance(t.value, ast.Name) and t.value.id in pre_locals
                for n in ex.cfg.nodes if n.kind == 'stmt' and isinstance(n.ast, ast.Assign) for t in n.ast.targets)
        for n in cx.cfg.nodes:
            if n.kind == 'stmt' and isinstance(n.ast, (ast.Assign, ast.AugAssign)):
                for t in (n.ast.targets if isinstance(n.ast, ast.Assign) else [n.ast.target]):
                    if isinstance(t, ast.Subscript) and isinstance(t.value, ast.Name):
                        edits.append((n, t.value.id, f'`{norm(n.ast)}` edits it in place'))
                    # handed to encode_into through the markers, which appends the digest component to it
                    if isinstance(t, ast.Subscript) and ast.unparse(t.value) == 'markers' and 'preprocessed_name' in ast.unparse(t.slice) \
                            and isinstance(n.ast, ast.Assign) and isinstance(n.ast.value, ast.Name) and sibling_edits:
                        edits.append((n, n.ast.value.id, 'it is kept as the preprocessed name, to which encode_into appends the digest component'))
            for c in n.calls():
                if callee_attr(c) in ('append', 'extend', 'insert', 'pop', 'remove', 'clear', 'sort', 'reverse') and isinstance(c.func.value, ast.Name):
                    edits.append((n, c.func.value.id, f'`{ast.unparse(c)[:60]}` edits it in place'))
        wire_like = {'wire', 'markers', 'sig_cover_part', 'sig_covered_part'}
        edits = [(n, v, why) for (n, v, why) in edits if v not in wire_like]
        inst = q + ' :: works on a private copy of the name'
        bad = []
        for (n, v, why) in edits:
            for d in caller_object_reaches(cx, v, n):
                bad.append((n, v, why, d))
        if bad:
            for (n, v, why, d) in bad:
                R.fail('C01.PRV.2', inst, q, n.ast, f'`{v}` can still be the caller\'s own list here (bound at line {d.lineno} and not copied on every path) and {why}: '
                       'building one packet changes the name object the application keeps using', site(cx, n.ast))
        else:
            R.ok('C01.PRV.2', inst, site(cx, cx.f.node), f'{len(edits)} in-place edits, all on fresh lists')
    # ------------------------------------------------------------------ PRV.3 the final name shows the digest that was written
    R.ob('C01.PRV.3', 'InterestNameField.encode_into: wherever the digest buffer is located in the wire (appended component, or a component '
                      'the caller already supplied), the final name gets the wire region of that component - not the caller\'s placeholder')
    ne3 = ctx(R, TM + '.InterestNameField.encode_into')
    # the list get_final_name returns: markers[..##preprocessed_name], possibly through a local alias
    gf = ctx(R, TM + '.InterestNameField.get_final_name')
    keys = {ast.unparse(r.ast.value.slice) for r in returns(gf) if isinstance(r.ast.value, ast.Subscript)}
    R.need(len(keys) == 1, 'get_final_name: the final name is not read from one marker')
    fkey = keys.pop()
    aliases = {nm for n_ in ne3.cfg.nodes for (nm, v) in ne3.cfg.defs_of(n_) if isinstance(v, ast.Subscript) and ast.unparse(v.slice) == fkey}

    def is_final(e):
        return (isinstance(e, ast.Subscript) and ast.unparse(e.slice) == fkey) or (isinstance(e, ast.Name) and e.id in aliases)

    def blocks3(node):
        for x in ast.walk(node):
            for fld in ('body', 'orelse'):
                b = getattr(x, fld, None)
                if isinstance(b, list) and b and isinstance(b[0], ast.stmt):
                    yield b
    ndig = 0
    for b in blocks3(ne3.f.node):
        for st_ in b:
            if isinstance(st_, ast.Assign) and len(st_.targets) == 1 and ast.unparse(st_.targets[0]) == 'digest_buf' and isinstance(st_.value, ast.Subscript) \
                    and ast.unparse(st_.value.value) == 'wire':
                ndig += 1
                inst = f'{ne3.qual} :: `{norm(st_)}`'
                # in the same block: a wire slice is appended to / stored into the final-name list
                put = [t for t in b if any(
                    (isinstance(c, ast.Call) and callee_attr(c) == 'append' and is_final(c.func.value) and c.args and isinstance(c.args[0], ast.Subscript)
                     and ast.unparse(c.args[0].value) == 'wire') for c in ast.walk(t)) or (
                    isinstance(t, ast.Assign) and isinstance(t.targets[0], ast.Subscript) and is_final(t.targets[0].value) and isinstance(t.value, ast.Subscript)
                    and ast.unparse(t.value.value) == 'wire')]
                if put:
                    R.ok('C01.PRV.3', inst, site(ne3, st_))
                else:
                    R.fail('C01.PRV.3', inst, ne3.qual, st_, 'the digest is written into this component of the wire, but the final name keeps the component the caller '
                           'supplied (a placeholder): make_interest(need_final_name=True) reports a name that is not the one in the packet, and an Interest expressed '
                           'with a placeholder digest is registered under a name no Data can match (repro notes/repro/e18.py)', site(ne3, st_))
    R.need(ndig >= 2, f'InterestNameField.encode_into: only {ndig} digest buffer locations found (appended and pre-existing expected)')
    # the parameters-digest component that the round trip must preserve is the digest of the packet as sent: decided by the C02 rules
    from .common import shared_obligations
    R.ob('C01.SHR.1', 'shared with C02: the parameters digest is computed after the signature, over the range that ends at the shrunk signature, '
                      'and written into the digest component of the name')
    shared_obligations(R, 'C01.SHR.1', 'C02', {'C02.ORD.2': None})
    R.assumptions += ['equality of returned values with inputs for all names / payloads, and the crypto signers themselves, are not decided']
