"""C10 — link-layer envelopes are transparent: Nack, PIT token, wrapped packets (DESIGN §4 C10)."""
import ast

from .common import ctx, family, returns, calls_in_ctx, reach_from_succ, site, srcs_text, truthy_label, resolve_call, call_arg, bound_args, alias_text, explore, shared_obligations
from ..flow import callee_attr
from ..loader import AnalysisError, norm, FuncT
from ..models import models_of

LP = 'ndn.encoding.ndnlp_v2'
NDNLP = {'fragment': 0x50, 'frag_index': 0x52, 'frag_count': 0x53, 'pit_token': 0x62, 'nack': 0x0320}


def nonnull_edges(cx, text):
    """[(test_id, label)] of edges on which expression `text` is known to be not None / truthy"""
    out = []
    for n in cx.cfg.nodes:
        if n.kind == 'test':
            lab = truthy_label(n.ast, text)
            if lab is not None:
                out.append((n.id, lab))
    return out


def nullable_field_expr(P, M, e):
    """e is an attribute chain ending in a nullable TLV field (type known from the chain's field names)"""
    if not isinstance(e, ast.Attribute):
        return False
    hits = []
    for mc, fields in M.all.items():
        for f in fields:
            if f.name == e.attr and f.nullable:
                hits.append((mc, f))
    # restrict to the NDNLP models
    return any(mc[0] == LP for (mc, f) in hits)


def run(R):
    P = R.P
    M = models_of(P)
    # ------------------------------------------------------------------ PRV.1 unwrapping
    R.ob('C10.PRV.1', 'the packet dispatched after unwrapping is the envelope\'s Fragment with the type parsed from it; bare and wrapped '
                      'packets go through the same dispatch block')
    for app, parse, frag_pred in (('ndn.appv2.NDNApp', 'parse_lp_packet_v2', lambda s: s.kind == 'expr' and ast.unparse(s.expr).endswith('.fragment')),
                                  ('ndn.app.NDNApp', 'parse_lp_packet', lambda s: s.kind == 'unpack' and s.extra == 1 and 'parse_lp_packet' in ast.unparse(s.expr))):
        rx = ctx(R, app + '._receive')
        inst = f'{rx.qual} :: data / typ provenance at the dispatch'
        probs = []
        uses = []
        for (n, c) in calls_in_ctx(rx):
            fn = ast.unparse(c.func).split('.')[-1]
            if fn in ('parse_interest', 'parse_data') and c.args:
                uses.append((n, c.args[0], fn))
            if fn in ('_on_interest', '_on_data'):
                rp = call_arg(P, rx, c, 'raw_packet')
                if rp is not None:
                    uses.append((n, rp, fn))
        R.need(len(uses) >= 5, f'{rx.qual}: dispatch sites not found')
        for (n, e, fn) in uses:
            for s in rx.sources(n, e):
                # the received buffer itself is fine only when read through its own name (whose binding the unwrapping replaces);
                # a copy taken earlier would still be the envelope after unwrapping
                if s.kind == 'param' and s.expr == 'data' and isinstance(e, ast.Name) and e.id == 'data':
                    continue
                if frag_pred(s):
                    continue
                probs.append((f'{fn} is given {s.text()} instead of the received packet / the envelope\'s Fragment', e))
        for t in [t for t in rx.cfg.nodes if t.kind == 'test' and isinstance(t.ast, ast.Compare) and ast.unparse(t.ast.left) == 'typ']:
            const = ast.unparse(t.ast.comparators[0])
            if 'LP_PACKET' in const:
                continue
            for s in rx.sources(t, t.ast.left):
                if s.kind == 'param' and s.expr == 'typ':
                    continue
                if s.kind == 'unpack' and s.extra == 0 and 'parse_tl_num(data)' in ast.unparse(s.expr):
                    # the data it is parsed from must be the fragment
                    continue
                if s.kind == 'expr' and isinstance(s.expr, ast.Subscript) and isinstance(s.expr.slice, ast.Constant) and s.expr.slice.value == 0 \
                        and ast.unparse(s.expr.value).endswith('parse_tl_num(data)'):
                    continue        # `parse_tl_num(data)[0]`: the same first element
                # the first element of parse_tl_num(<the fragment>), however the fragment is spelled at that point
                call_ = s.expr if s.kind == 'unpack' and s.extra == 0 else (s.expr.value if s.kind == 'expr' and isinstance(s.expr, ast.Subscript)
                                                                           and isinstance(s.expr.slice, ast.Constant) and s.expr.slice.value == 0 else None)
                if isinstance(call_, ast.Call) and ast.unparse(call_.func).endswith('parse_tl_num') and call_.args:
                    inner = s.ctx.sources(s.node, call_.args[0]) if isinstance(call_.args[0], ast.Name) else None
                    from ..flow import Src
                    cand = inner if inner is not None else [Src('expr', call_.args[0], s.ctx, s.node)]
                    if cand and all(frag_pred(i_) for i_ in cand):
                        continue
                probs.append((f'the dispatch type is {s.text()}', t.ast))
        # one shared dispatch: exactly one non-Nack parse_interest and one parse_data call
        cnt = {}
        for (n, c) in calls_in_ctx(rx):
            fn = ast.unparse(c.func).split('.')[-1]
            cnt[fn] = cnt.get(fn, 0) + 1
        if cnt.get('parse_data') != 1 or cnt.get('parse_interest') != 2:
            probs.append((f'wrapped and bare packets are not dispatched by one shared block (parse calls: {cnt.get("parse_interest")} Interest, {cnt.get("parse_data")} Data)', rx.f.node))
        # the LP type test selects unwrapping
        lpt = [t for t in rx.cfg.nodes if t.kind == 'test' and 'LP_PACKET' in ast.unparse(t.ast)]
        pc = [n for (n, c) in calls_in_ctx(rx) if ast.unparse(c.func).split('.')[-1] == parse]
        if len(lpt) != 1 or len(pc) != 1 or pc[0].id in rx.cfg.reachable(removed_edges={(lpt[0].id, True)}):
            probs.append(('unwrapping is not selected by the LpPacket type', rx.f.node))
        if probs:
            for (what, construct) in probs:
                R.fail('C10.PRV.1', inst, rx.qual, construct if not isinstance(construct, FuncT) else 'def _receive', what, site(rx, construct))
        else:
            R.ok('C10.PRV.1', inst, site(rx, rx.f.node), f'{len(uses)} uses of the packet, all from param data / Fragment')
    # ------------------------------------------------------------------ PRV.2 + MPT.1 Nack
    R.ob('C10.PRV.2', 'the Nack reason handed to _on_nack / InterestNack is the NackReason of the envelope, unmodified (NONE when the field is absent)')
    R.ob('C10.MPT.1', 'an envelope is treated as a Nack iff it carries a Nack header: the discriminator cannot be None when the header is present')
    rx = ctx(R, 'ndn.appv2.NDNApp._receive')
    nk = calls_in_ctx(rx, attr='_on_nack')
    R.need(len(nk) == 1, 'v2 _receive: _on_nack call not found')
    (nn, nc) = nk[0]
    rvar = nc.args[1]
    inst = rx.qual + ' :: reason passed to _on_nack'
    bad = []
    field_defs = []
    for s in rx.sources(nn, rvar):
        t = s.text()
        if s.kind == 'expr' and alias_text(s.ctx, s.expr).endswith('.nack.nack_reason'):
            field_defs.append(s)
        elif s.kind == 'expr' and (ast.unparse(s.expr).endswith('NackReason.NONE') or (isinstance(s.expr, ast.Constant) and s.expr.value in (None, 0))):
            pass
        else:
            bad.append(t)
    if bad or not field_defs:
        R.fail('C10.PRV.2', inst, rx.qual, nc, f'the reason comes from {bad or "nowhere"} instead of the envelope\'s NackReason', site(rx, nc))
    else:
        R.ok('C10.PRV.2', inst, site(rx, nc), 'lp_pkt.nack.nack_reason | NONE')
    # discriminator
    disc = [t for t in rx.cfg.nodes if t.kind == 'test' and truthy_label(t.ast, ast.unparse(rvar)) is not None
            and any(x.id in reach_from_succ(rx.cfg, t, truthy_label(t.ast, ast.unparse(rvar))) for x in [nn])]
    inst = rx.qual + ' :: Nack discriminator'
    if not disc:
        R.fail('C10.MPT.1', inst, rx.qual, nc, 'no test decides whether the envelope is a Nack', site(rx, nc))
    else:
        T = disc[-1]
        var = ast.unparse(rvar)
        nn_edges = nonnull_edges(rx, var)
        viol = None
        for s in field_defs:
            if not nullable_field_expr(P, M, s.expr):
                continue
            # `DEFAULT if x.reason is None else x.reason` (either way round): this alternative is only taken when the element is present
            whole = s.node.ast.value if s.node.kind == 'stmt' and isinstance(s.node.ast, ast.Assign) else None
            if isinstance(whole, ast.IfExp):
                lab = truthy_label(whole.test, ast.unparse(s.expr))
                if (lab is True and whole.body is s.expr) or (lab is False and whole.orelse is s.expr):
                    continue
            # the binding is made only where the element is known to be present: every path to it takes a `<field> is not None` edge
            fe = nonnull_edges(rx, ast.unparse(s.expr))
            if fe and s.node.id not in rx.cfg.reachable(removed_edges=set(fe), follow_exc=False):
                continue
            others = [n for n in rx.cfg.nodes if n is not s.node and any(nm == var for nm, _ in rx.cfg.defs_of(n))]
            # from the nullable definition, can T be reached with the value still possibly None?
            removed = {e for e in nn_edges if e[0] != T.id}
            r = reach_from_succ(rx.cfg, s.node, removed_nodes={o.id for o in others}, removed_edges=removed, follow_exc=False)
            if T.id in r:
                viol = s
        if viol is not None:
            R.fail('C10.MPT.1', inst, rx.qual, viol.node.ast, 'Nack-ness is decided by the NackReason value, which is None when a Nack header '
                   'carries no reason: such a Nack is dispatched as a fresh Interest to the local handlers', site(rx, viol.node.ast))
        else:
            R.ok('C10.MPT.1', inst, site(rx, T.ast), 'reason defaulted when absent')
    # v1 goes through parse_lp_packet
    pl = ctx(R, LP + '.parse_lp_packet')
    inst = pl.qual + ' :: reason returned for a Nack header'
    # the parsed envelope is the local bound to parse_lp_packet_v2(...); its Nack header may be read through an alias
    envs = [nm for n in pl.cfg.nodes for (nm, v) in pl.cfg.defs_of(n) if isinstance(v, ast.Call) and ast.unparse(v.func).endswith('parse_lp_packet_v2')]
    R.need(len(set(envs)) == 1, 'parse_lp_packet: the parsed envelope is not bound to one local')
    env_ = envs[0]

    def al(e):
        return ast.parse(alias_text(pl, e), mode='eval').body
    nack_tests = [t for t in pl.cfg.nodes if t.kind == 'test' and truthy_label(al(t.ast), f'{env_}.nack') is not None]
    R.need(nack_tests, f'parse_lp_packet: no test of {env_}.nack')
    t0 = nack_tests[0]
    lab = truthy_label(al(t0.ast), f'{env_}.nack')
    rT = reach_from_succ(pl.cfg, t0, lab, follow_exc=False)
    viol = None
    okcount = 0
    for r in returns(pl):
        if r.id not in rT or not isinstance(r.ast.value, ast.Tuple):
            continue
        first = r.ast.value.elts[0]
        bad = False
        # `<default> if <reason> is None else <reason>` (either orientation): the conditional expression is itself the not-None guard
        guarded_alts = set()
        if isinstance(first, ast.IfExp):
            tl_ = None
            for cand in (first.body, first.orelse):
                l_ = truthy_label(first.test, ast.unparse(cand))
                if l_ is not None and ((l_ is True and cand is first.body) or (l_ is False and cand is first.orelse)):
                    tl_ = cand
            if tl_ is not None:
                guarded_alts.add(ast.unparse(tl_))
        for s_ in pl.sources(r, first):
            if s_.kind == 'expr' and isinstance(first, ast.IfExp) and guarded_alts:
                # the alternative that is the tested value itself is only taken when it is not None
                names_ = {ast.unparse(x) for x in (first.body, first.orelse)}
                src_txt = ast.unparse(s_.expr)
                if any(g in names_ for g in guarded_alts) and (src_txt in guarded_alts or any(
                        isinstance(x, ast.Name) and x.id in guarded_alts and any(ast.unparse(y.expr) == src_txt for y in pl.sources(r, x) if y.kind == 'expr')
                        for x in (first.body, first.orelse))):
                    continue
            e_ = s_.expr if s_.kind == 'expr' else None
            if isinstance(e_, ast.Constant) and e_.value is None:
                bad = True
            elif isinstance(e_, ast.Attribute) and e_.attr == 'nack_reason':
                # a nullable element: every path from where it was read to this return must pass a not-None edge of a test on it
                edges = set(nonnull_edges(pl, ast.unparse(e_)))
                if isinstance(first, ast.Name):
                    edges |= set(nonnull_edges(pl, first.id))
                start = s_.node if s_.node is not r else None
                redefs = {n.id for n in pl.cfg.nodes if isinstance(first, ast.Name) and n is not s_.node and any(nm == first.id for (nm, _) in pl.cfg.defs_of(n))}
                reach = reach_from_succ(pl.cfg, start, removed_nodes=redefs, removed_edges=edges, follow_exc=False) if start is not None \
                    else pl.cfg.reachable(removed_edges=edges)
                if not edges or r.id in reach:
                    bad = True
        if bad:
            viol = r
        else:
            okcount += 1
        if alias_text(pl, r.ast.value.elts[1]) != f'{env_}.fragment':
            R.fail('C10.PRV.1', pl.qual + ' :: fragment returned', pl.qual, r.ast, 'the Fragment is not returned unmodified', site(pl, r.ast))
    if viol is not None:
        R.fail('C10.MPT.1', inst, pl.qual, viol.ast, 'a Nack header without NackReason is reported as "not a Nack" (reason None): the v1 front-end '
               'dispatches it as a fresh Interest', site(pl, viol.ast))
    else:
        R.ok('C10.MPT.1', inst, site(pl, t0.ast), f'{okcount} non-null reason return(s)')
    for r in returns(pl):
        if r.id not in rT and isinstance(r.ast.value, ast.Tuple):
            first = r.ast.value.elts[0]
            inst2 = pl.qual + ' :: no Nack header -> reason None'
            if isinstance(first, ast.Constant) and first.value is None:
                R.ok('C10.MPT.1', inst2, site(pl, r.ast))
            else:
                R.fail('C10.MPT.1', inst2, pl.qual, r.ast, 'an envelope without Nack header reports a reason', site(pl, r.ast))
    # reason reaches InterestNack unmodified in both front-ends
    for app, nodeq in (('ndn.appv2.NDNApp', 'ndn.appv2.InterestTreeNode'), ('ndn.app.NDNApp', 'ndn.name_tree.InterestTreeNode')):
        on = ctx(R, app + '._on_nack')
        inst = f'{on.qual} :: reason forwarded'
        cs = calls_in_ctx(on, attr='nack_interest')
        pn = on.f.node.args.args[2].arg
        if cs and all(c.args and ast.unparse(c.args[0]) == pn for (n, c) in cs):
            R.ok('C10.PRV.2', inst, site(on, cs[0][1]))
        else:
            R.fail('C10.PRV.2', inst, on.qual, cs[0][1] if cs else 'def _on_nack', 'the received reason is not forwarded to the pending Interests', site(on, on.f.node))
        rxx = ctx(R, app + '._receive')
        cs = calls_in_ctx(rxx, attr='_on_nack')
        # the reason decides Nack-ness by being present, not by being truthy: NackReason.NONE is 0
        if cs and len(cs[0][1].args) > 1 and isinstance(cs[0][1].args[1], ast.Name):
            rv = cs[0][1].args[1].id
            inst = f'{rxx.qual} :: Nack-ness is `{rv} is not None`'
            truthy = [t for t in rxx.cfg.nodes if t.kind == 'test' and truthy_label(t.ast, rv) is not None and not isinstance(t.ast, ast.Compare)]
            nonecmp = [t for t in rxx.cfg.nodes if t.kind == 'test' and truthy_label(t.ast, rv) is not None and isinstance(t.ast, ast.Compare)]
            if truthy:
                R.fail('C10.MPT.1', inst, rxx.qual, truthy[0].ast, f'Nack-ness is decided by the truthiness of `{rv}`: a Nack whose reason is NackReason.NONE (0, also what '
                       'a Nack header without reason is mapped to) is falsy and is dispatched as a fresh Interest instead of failing the pending one', site(rxx, truthy[0].ast))
            elif nonecmp:
                R.ok('C10.MPT.1', inst, site(rxx, nonecmp[0].ast))
        if app.endswith('app.NDNApp'):
            inst = f'{rxx.qual} :: reason passed to _on_nack'
            good = False
            if cs:
                srcs = rxx.sources(cs[0][0], cs[0][1].args[1])
                good = bool(srcs) and all((s.kind == 'unpack' and s.extra == 0 and 'parse_lp_packet' in ast.unparse(s.expr)) or
                                          (s.kind == 'expr' and isinstance(s.expr, ast.Constant) and s.expr.value is None) for s in srcs)
            if good:
                R.ok('C10.PRV.2', inst, site(rxx, cs[0][1]))
            else:
                R.fail('C10.PRV.2', inst, rxx.qual, cs[0][1] if cs else 'def _receive', 'the reason does not come from parse_lp_packet', site(rxx, rxx.f.node))
        # the nacked name comes from the Interest inside the envelope
        if cs:
            srcs = rxx.sources(cs[0][0], cs[0][1].args[0])
            inst = f'{rxx.qual} :: nacked name'
            if srcs and all(s.kind == 'unpack' and s.extra == 0 and 'parse_interest(data' in ast.unparse(s.expr) for s in srcs):
                R.ok('C10.PRV.2', inst, site(rxx, cs[0][1]))
            else:
                R.fail('C10.PRV.2', inst, rxx.qual, cs[0][1], f'the nacked name is {srcs_text(srcs)}, not the name of the Interest in the envelope', site(rxx, cs[0][1]))
    # ------------------------------------------------------------------ PRV.3 PIT token
    R.ob('C10.PRV.3', 'PIT token: taken from the envelope, handed to the reply closure, echoed unmodified together with the unmodified Data; '
                      'bare send exactly when there is no token')
    rx = ctx(R, 'ndn.appv2.NDNApp._receive')
    oi = calls_in_ctx(rx, attr='_on_interest')
    inst = rx.qual + ' :: token handed to _on_interest'
    good = False
    if oi:
        srcs = rx.sources(oi[0][0], oi[0][1].args[1])
        good = bool(srcs) and all((s.kind == 'expr' and ast.unparse(s.expr).endswith('.pit_token')) or
                                  (s.kind == 'expr' and isinstance(s.expr, ast.Constant) and s.expr.value is None) for s in srcs) \
            and any(s.kind == 'expr' and ast.unparse(s.expr).endswith('.pit_token') for s in srcs)
    if good:
        R.ok('C10.PRV.3', inst, site(rx, oi[0][1]))
    else:
        R.fail('C10.PRV.3', inst, rx.qual, oi[0][1] if oi else 'def _receive', 'the PIT token given to the Interest pipeline is not the envelope\'s token',
               site(rx, rx.f.node))
    rp = ctx(R, 'ndn.appv2.NDNApp._on_interest.<reply>')
    tok = calls_in_ctx(rp, attr='_put_raw_packet_with_pit_token')
    bare = calls_in_ctx(rp, attr='_put_raw_packet')
    tests = [t for t in rp.cfg.nodes if t.kind == 'test' and truthy_label(t.ast, 'pit_token') is not None]
    inst = rp.qual + ' :: token / bare send'
    probs = []
    if len(tok) != 1 or len(bare) != 1 or not tests:
        probs.append((f'{len(tok)} token sends, {len(bare)} bare sends, {len(tests)} token tests', rp.f.node))
    else:
        has = {(t.id, truthy_label(t.ast, 'pit_token')) for t in tests}
        hasnot = {(t.id, not truthy_label(t.ast, 'pit_token')) for t in tests}
        if tok[0][0].id in rp.cfg.reachable(removed_edges=has):
            probs.append(('an envelope with token is sent although no token was received', tok[0][1]))
        if bare[0][0].id in rp.cfg.reachable(removed_edges=hasnot):
            probs.append(('a reply to an Interest that carried a token can be sent bare', bare[0][1]))
        for t in tests:
            if ast.unparse(t.ast) == 'pit_token':
                probs.append(('token presence tested by truthiness: an empty token (length 0) would be answered bare', t.ast))
        a = [ast.unparse(x) for x in tok[0][1].args]
        if a != ['data', 'pit_token']:
            probs.append((f'token send called with {a}', tok[0][1]))
        else:
            srcs = rp.sources(tok[0][0], tok[0][1].args[1])
            if not all(s.kind == 'param' and s.expr == 'pit_token' for s in srcs):
                probs.append((f'token echoed is {srcs_text(srcs)}', tok[0][1]))
            srcs = rp.sources(tok[0][0], tok[0][1].args[0])
            if not all(s.kind == 'param' and s.expr == 'data' for s in srcs):
                probs.append((f'Data echoed is {srcs_text(srcs)}', tok[0][1]))
        if [ast.unparse(x) for x in bare[0][1].args] != ['data']:
            probs.append(('bare send does not send the Data as given', bare[0][1]))
    if probs:
        for (what, construct) in probs:
            R.fail('C10.PRV.3', inst, rp.qual, construct if not isinstance(construct, FuncT) else 'def reply', what, site(rp, construct))
    else:
        R.ok('C10.PRV.3', inst, site(rp, tok[0][1]))
    pt = ctx(R, 'ndn.appv2.NDNApp._put_raw_packet_with_pit_token')
    inst = pt.qual + ' :: envelope fields'
    stores = {}
    for n in pt.cfg.nodes:
        if n.kind == 'stmt' and isinstance(n.ast, ast.Assign):
            for t in n.ast.targets:
                if isinstance(t, ast.Attribute):
                    stores[t.attr] = ast.unparse(n.ast.value)
    sends = calls_in_ctx(pt, attr='send')
    okp = stores.get('pit_token') == 'pit_token' and stores.get('fragment') == 'data' and len(sends) == 1
    if okp:
        srcs = pt.sources(sends[0][0], sends[0][1].args[0])
        okp = all(s.kind == 'expr' and ast.unparse(s.expr).endswith('.encode()') for s in srcs)
        extra = [k for k in stores if k not in ('pit_token', 'fragment', 'lp_packet')]
        if extra:
            okp = False
    if okp:
        R.ok('C10.PRV.3', inst, site(pt, sends[0][1]))
    else:
        R.fail('C10.PRV.3', inst, pt.qual, 'def _put_raw_packet_with_pit_token', f'the envelope is not built as (pit_token=token, fragment=data) and sent once: {stores}',
               site(pt, pt.f.node))
    # ------------------------------------------------------------------ GRD.1 + FLD
    R.ob('C10.GRD.1', 'parse_lp_packet_v2 checks the outer type, ignores unknown headers and rejects fragmented envelopes')
    p2 = ctx(R, LP + '.parse_lp_packet_v2')
    inst = p2.qual + ' :: guards'
    probs = []
    chk = [c for (n, c) in calls_in_ctx(p2) if ast.unparse(c.func).endswith('parse_and_check_tl')]
    if len(chk) != 1 or P.const_value(p2.f.mod, chk[0].args[1]) != 0x64:
        probs.append('outer type 0x64 is not checked')
    prs = [c for (n, c) in calls_in_ctx(p2, attr='parse')]
    if len(prs) != 1 or ast.unparse(prs[0].func.value) != 'LpPacketValue' or not any(
            isinstance(v_, ast.Constant) and v_.value is True for v_ in [call_arg(P, p2, prs[0], 'ignore_critical')]):
        probs.append('unknown envelope headers are not ignored (ignore_critical=True)')
    for fld in ('frag_index', 'frag_count'):
        ts = [t for t in p2.cfg.nodes if t.kind == 'test' and truthy_label(t.ast, f'ret.{fld}') is not None] + \
             [n for n in p2.cfg.nodes if n.kind == 'stmt' and isinstance(n.ast, ast.Assign) and truthy_label(n.ast.value, f'ret.{fld}') is not None]
        if not ts:
            probs.append(f'{fld} is not examined')
            continue
        if any(ast.unparse(t.ast) == f'ret.{fld}' for t in ts if t.kind == 'test'):
            probs.append(f'{fld} tested by truthiness (index 0 would pass)')
        # valuation "this header is present" (the other one unknown): followed path-sensitively, also through a boolean local

        def present(e, fld=fld):
            lab = truthy_label(e, f'ret.{fld}')
            if lab is None or ast.unparse(e) == f'ret.{fld}':
                return None
            return lab
        reach = explore(p2, present)
        rs = [n for n in p2.cfg.nodes if n.kind == 'raise' and n.id in reach]
        normal = [n for n in returns(p2) if n.id in reach] + ([p2.cfg.falloff] if p2.cfg.falloff.id in reach else [])
        if normal or not rs or any(P.exc_name(p2.f.mod, n.ast.exc) != 'ndn.encoding.tlv_model.DecodeError' for n in rs):
            probs.append(f'an envelope with {fld} is not rejected with DecodeError')
    if probs:
        R.fail('C10.GRD.1', inst, p2.qual, 'def parse_lp_packet_v2', '; '.join(probs), site(p2, p2.f.node))
    else:
        R.ok('C10.GRD.1', inst, site(p2, p2.f.node))
    R.ob('C10.FLD.1', 'NDNLPv2 model: header type numbers, Fragment last, NackReason inside Nack, LpPacket 0x64')
    lv = M.fields(LP + '.LpPacketValue')
    byname = {f.name: f for f in lv}
    inst = 'LpPacketValue :: type numbers'
    bad = {k: byname[k].type if k in byname else None for k, v in NDNLP.items() if k not in byname or byname[k].type != v}
    wire = [f for f in lv if f.wire]
    if bad:
        R.fail('C10.FLD.1', inst, LP + '.LpPacketValue', 'class LpPacketValue', f'wrong NDNLPv2 type numbers: {bad}', P.path_of(LP))
    elif wire[-1].name != 'fragment':
        R.fail('C10.FLD.1', inst, LP + '.LpPacketValue', 'class LpPacketValue', f'Fragment is not the last field (last is {wire[-1].name}): headers after it are never parsed', P.path_of(LP))
    else:
        R.ok('C10.FLD.1', inst, P.path_of(LP))
    # the decoder walks the declared fields in order and (with ignore_critical) silently skips what it cannot place: a header the receive
    # pipeline relies on must be declared after every header with a smaller type number (senders emit ascending order)
    for fld in ('frag_index', 'frag_count', 'pit_token', 'nack'):
        inst = f'LpPacketValue.{fld} :: declared after all smaller header types'
        if fld not in byname:
            continue
        idx = [f.name for f in wire].index(fld)
        late = [f for f in wire[idx + 1:] if f.name != 'fragment' and f.type is not None and f.type < byname[fld].type]
        if late:
            R.fail('C10.FLD.1', inst, LP + '.LpPacketValue', fld, f'`{late[0].name}` (type 0x{late[0].type:x}) is declared after `{fld}` (type 0x{byname[fld].type:x}): in an '
                   f'envelope carrying both in ascending order the decoder moves past `{fld}` and then skips it as unknown', P.path_of(LP))
        else:
            R.ok('C10.FLD.1', inst, P.path_of(LP))
    nk_f = M.fields(LP + '.NetworkNack')
    lp_f = M.fields(LP + '.LpPacket')
    inst = 'NetworkNack / LpPacket :: nesting'
    if [(f.name, f.type) for f in nk_f] == [('nack_reason', 0x0321)] and [(f.type, f.nested) for f in lp_f] == [(0x64, (LP, 'LpPacketValue'))] \
            and byname['nack'].nested == (LP, 'NetworkNack'):
        R.ok('C10.FLD.1', inst, P.path_of(LP))
    else:
        R.fail('C10.FLD.1', inst, LP + '.NetworkNack', 'class NetworkNack', 'Nack / LpPacket nesting differs from NDNLPv2', P.path_of(LP))
    mk = ctx(R, LP + '.make_network_nack')
    stores = {}
    for n in mk.cfg.nodes:
        if n.kind == 'stmt' and isinstance(n.ast, ast.Assign):
            for t in n.ast.targets:
                if isinstance(t, ast.Attribute):
                    stores[t.attr] = ast.unparse(n.ast.value)
    inst = mk.qual + ' :: reason and Interest placed'
    if stores.get('nack_reason') == 'nack_reason' and stores.get('fragment') == 'encoded_interest':
        R.ok('C10.FLD.1', inst, site(mk, mk.f.node))
    else:
        R.fail('C10.FLD.1', inst, mk.qual, 'def make_network_nack', f'make_network_nack builds {stores}', site(mk, mk.f.node))
    R.ob('C10.SHR.1', 'shared with C03: completing the Interests pending under a nacked name cannot fail on one that is already finished (guarded completion)')
    shared_obligations(R, 'C10.SHR.1', 'C03', {'C03.FUT.1': lambda i_: 'nack_interest' in i_})
    R.assumptions += ['NDNLPv2 type numbers as transcribed', 'TlvModel encode/parse (C08)', 'value-level behaviour for all header combinations is not decided']
