"""Shared rule code for the Light VerSec properties C11 / C12 / C13."""
import ast
import os
import re

from .common import ctx, returns, calls_in_ctx, reach_from_succ, site, srcs_text, truthy_label
from ..flow import callee_attr
from ..loader import AnalysisError, norm, FuncT

CK = 'ndn.app_support.light_versec.checker'
CP = 'ndn.app_support.light_versec.compiler'


def cmp_sides(t):
    if isinstance(t, ast.Compare) and len(t.ops) == 1:
        return ast.unparse(t.left), type(t.ops[0]), ast.unparse(t.comparators[0])
    return None


def eq_label(test, a, b):
    """label of the edge on which a == b holds for a test `a == b` / `a != b` (either order); else None"""
    s = cmp_sides(test)
    if not s:
        return None
    l, op, r = s
    if {l, r} != {a, b}:
        return None
    if op is ast.Eq:
        return True
    if op is ast.NotEq:
        return False
    return None


def raising_edge(cx, t, label, exc, P):
    """the edge (t, label) leads to an unconditional raise of `exc`: only plain statements in between, and tests whose outcome is fixed
    by a boolean the path itself has just set (the `ret = False .. if not ret: raise` of an expanded predicate helper)"""
    from .common import explore
    succ = [m for (m, l) in t.succ if l == label]
    if not succ:
        return False
    byid = {n.id: n for n in cx.cfg.nodes}
    forks = []

    def no_atoms(e):
        return None
    # follow the boolean locals: a test that still forks is a condition
    r = set()
    for s0 in succ:
        r |= explore(cx, no_atoms, start=s0)
    nodes = [byid[i] for i in r]
    for n in nodes:
        if n.kind == 'test':
            outs = {l for (m, l) in n.succ if l != 'exc' and m.id in r}
            if len(outs) > 1:
                return False        # a genuine condition between the guard and the raise
    if any(n.kind in ('for', 'exit', 'falloff', 'return', 'with') or (n.kind == 'stmt' and n.ast is None and getattr(n, 'label', '') != 'inline-exit'
                                                                       and type(n.stmt).__name__ != 'InlineExit') for n in nodes):
        return False
    rs = [n for n in nodes if n.kind == 'raise']
    return bool(rs) and all(n.ast.exc is not None and P.exc_name(cx.f.mod, n.ast.exc) == exc for n in rs)


def _pattern_step_table(R, m, SP, oids):
    """Abstract execution of one pattern-edge step of Checker._match for the 16 valuations of
       A = the edge's tag is already bound, E = the component equals the binding, C = the edge's constraints hold on the component,
       N = the tag is a named pattern (<= named_pattern_cnt)
    (path-sensitive, boolean locals followed). Expected: the edge is followed iff C and (not A or E); the component is bound iff it is
    followed, not A and N; a followed edge pushes exactly one undo record, the tag iff it was bound. Returns False when the step cannot
    be delimited (the older, shape-based rules then decide)."""
    from .common import explore, orient
    pes = [n for n in m.cfg.nodes for (nm, v) in m.cfg.defs_of(n) if isinstance(v, ast.Subscript) and ast.unparse(v.value).endswith('.p_edges')] + \
          [n for n in m.cfg.nodes if n.kind == 'for' and ast.unparse(n.ast.iter).endswith('.p_edges')]
    if len(pes) != 1:
        return False
    start = pes[0]
    pe = [nm for (nm, v) in m.cfg.defs_of(start)][0]
    ctxn = m.f.node.args.args[2].arg
    vals = [nm for n in m.cfg.nodes for (nm, v) in m.cfg.defs_of(n) if isinstance(v, ast.Subscript) and ast.unparse(v) .startswith(m.f.node.args.args[1].arg + '[')]
    val = vals[0] if vals else None
    stores = [n for n in m.cfg.nodes if n.kind == 'stmt' and isinstance(n.ast, ast.Assign) and ast.unparse(n.ast.targets[0]) == f'{ctxn}[{pe}.tag]']
    pushes = [(n, c) for n in m.cfg.nodes for c in n.calls() if callee_attr(c) == 'append' and len(c.args) == 1 and ast.unparse(c.args[0]) in (f'{pe}.tag', '-1')]
    heads = {n.id for n in m.cfg.nodes if n.kind == 'stmt' and n.ast is None}            # loop heads
    if val is None or not pushes:
        return False

    def atoms(A, E, C, N):
        def ev(e):
            t = ast.unparse(e)
            if isinstance(e, ast.Compare) and len(e.ops) == 1:
                l, r = ast.unparse(e.left), ast.unparse(e.comparators[0])
                op = e.ops[0]
                if l == f'{pe}.tag' and r == ctxn and isinstance(op, (ast.In, ast.NotIn)):
                    return A if isinstance(op, ast.In) else not A
                if {l, r} == {val, f'{ctxn}[{pe}.tag]'} and isinstance(op, (ast.Eq, ast.NotEq)):
                    if not A:
                        return None
                    return E if isinstance(op, ast.Eq) else not E
                o = orient(e, lambda x: ast.unparse(x) == f'{pe}.tag')
                if o is not None and ast.unparse(o.comparators[0]).endswith('named_pattern_cnt'):
                    if isinstance(o.ops[0], ast.LtE):
                        return N
                    if isinstance(o.ops[0], ast.Gt):
                        return not N
                    return None
            if isinstance(e, ast.Call) and callee_attr(e) == '_check_cons' and len(e.args) == 3 and ast.unparse(e.args[0]) == val \
                    and ast.unparse(e.args[2]) == f'{pe}.cons_sets':
                return C
            if isinstance(e, ast.Call) and callee_attr(e) == 'get' and ast.unparse(e.func.value) == ctxn:
                return None
            return None
        return ev
    stop = heads | {SP.id}
    probs = {}
    for A in (False, True):
        for E in ((False, True) if A else (None,)):
            for C in (False, True):
                for N in (False, True):
                    reach = explore(m, atoms(A, bool(E), C, N), start=start, stop=stop)
                    trav = SP.id in reach
                    st = any(x.id in reach for x in stores)
                    ptag = any(n.id in reach and ast.unparse(c.args[0]) != '-1' for (n, c) in pushes)
                    pneg = any(n.id in reach and ast.unparse(c.args[0]) == '-1' for (n, c) in pushes)
                    want_trav = C and ((not A) or E)
                    want_store = want_trav and (not A) and N
                    v = f'bound={A} equal={E} constraints={C} named={N}'
                    if trav and not C:
                        probs.setdefault('MPT.3', []).append(f'followed although the edge constraints do not hold ({v})')
                    if trav and A and not E:
                        probs.setdefault('MPT.4', []).append(f'followed although the component differs from the binding ({v})')
                    if want_trav and not trav:
                        probs.setdefault('MPT.3', []).append(f'not followed although the component satisfies the edge ({v})')
                    if st and A:
                        probs.setdefault('REL.1', []).append(f'an existing binding is overwritten ({v})')
                    if st != want_store and not (st and A):
                        probs.setdefault('TBL.1c', []).append(('a named pattern is not bound' if want_store else 'a temporary pattern (or a rejected component) is bound') + f' ({v})')
                    if want_trav and trav:
                        if want_store and st and not ptag:
                            probs.setdefault('REL.1', []).append(f'a new binding is not recorded for undo ({v})')
                        if not ptag and not pneg:
                            probs.setdefault('REL.1', []).append(f'an edge is followed without pushing an undo record ({v})')
                        if ptag and not st:
                            probs.setdefault('REL.1', []).append(f'an undo record names a tag that was not bound by this step ({v})')
    R.paths_examined += 12
    for key in ('MPT.3', 'MPT.4', 'TBL.1c', 'REL.1'):
        if key not in oids:
            continue
        inst = m.qual + {'MPT.3': ' :: pattern edge followed iff its constraints hold (12 valuations)', 'MPT.4': ' :: bound pattern requires an equal component (12 valuations)',
                         'TBL.1c': ' :: named tags are bound, temporaries are not (12 valuations)', 'REL.1': ' :: bindings are made once and recorded for undo (12 valuations)'}[key]
        if probs.get(key):
            R.fail(oids[key], inst, m.qual, SP.ast, 'pattern-edge step: ' + probs[key][0], site(m, SP.ast))
        else:
            R.ok(oids[key], inst, site(m, SP.ast))
    return True


def match_rules(R, oids):
    """obligations on Checker._match / _check_cons shared by C11 (MPT.1-4, REL.1, LOP.1) and C12 (MPT.1).
    oids: dict rule-key -> obligation id (only the given ones are reported)"""
    P = R.P
    m = ctx(R, CK + '.Checker._match')
    pname = m.f.node.args.args[1].arg       # name
    steps_v = [n for n in m.cfg.nodes if n.kind == 'stmt' and isinstance(n.ast, ast.Assign) and ast.unparse(n.ast.targets[0]) == 'cur'
               and ast.unparse(n.ast.value) == 've.dest']
    steps_p = [n for n in m.cfg.nodes if n.kind == 'stmt' and isinstance(n.ast, ast.Assign) and ast.unparse(n.ast.targets[0]) == 'cur'
               and ast.unparse(n.ast.value) == 'pe.dest']
    R.need(len(steps_v) == 1 and len(steps_p) == 1, '_match: edge traversal statements (cur = ve.dest / cur = pe.dest) not found')
    SV, SP = steps_v[0], steps_p[0]
    value_defs = [v for n in m.cfg.nodes for (nm, v) in m.cfg.defs_of(n) if nm == 'value']
    depth_defs = [v for n in m.cfg.nodes for (nm, v) in m.cfg.defs_of(n) if nm == 'depth']
    R.need(all(isinstance(v, ast.AST) and ast.unparse(v) == f'{pname}[depth]' for v in value_defs) and value_defs,
           '_match: `value` is not name[depth]')
    R.need(all(isinstance(v, ast.AST) and ast.unparse(v) == 'len(edge_indices)' for v in depth_defs) and depth_defs,
           '_match: `depth` is not len(edge_indices)')
    if 'MPT.1' in oids:
        ys = [n for n in m.cfg.nodes if any(isinstance(x, ast.Yield) for x in n.walk())]
        ts = [(t.id, eq_label(t.ast, 'depth', f'len({pname})')) for t in m.cfg.nodes if t.kind == 'test' and eq_label(t.ast, 'depth', f'len({pname})') is not None]
        inst = m.qual + ' :: yield only at full length'
        if not ys:
            R.fail(oids['MPT.1'], inst, m.qual, 'def _match', 'no match is ever reported', site(m, m.f.node))
        elif not ts or any(y.id in m.cfg.reachable(removed_edges=set(ts)) for y in ys):
            R.fail(oids['MPT.1'], inst, m.qual, ys[0].ast, 'a match can be reported for a name whose length differs from the depth of the node '
                   '(prefixes / longer names would match a rule)', site(m, ys[0].ast))
        else:
            yv = [x for x in ys[0].walk() if isinstance(x, ast.Yield)][0].value
            if ast.unparse(yv) != '(cur, context)':
                R.fail(oids['MPT.1'], inst, m.qual, ys[0].ast, f'the match reports {ast.unparse(yv)} instead of (node, bindings)', site(m, ys[0].ast))
            else:
                R.ok(oids['MPT.1'], inst, site(m, ys[0].ast))
    if 'MPT.2' in oids:
        ts = [(t.id, eq_label(t.ast, f'{pname}[depth]', 've.value')) for t in m.cfg.nodes if t.kind == 'test' and eq_label(t.ast, f'{pname}[depth]', 've.value') is not None]
        ts += [(t.id, eq_label(t.ast, 'value', 've.value')) for t in m.cfg.nodes if t.kind == 'test' and eq_label(t.ast, 'value', 've.value') is not None]
        inst = m.qual + ' :: value edge needs an equal component'
        if not ts or SV.id in m.cfg.reachable(removed_edges=set(ts)):
            R.fail(oids['MPT.2'], inst, m.qual, SV.ast, 'a literal (value) edge can be followed although the component differs from the literal', site(m, SV.ast))
        else:
            R.ok(oids['MPT.2'], inst, site(m, SV.ast))
        # value edges are tried over all v_edges of the node
        loops = [n for n in m.cfg.nodes if n.kind == 'for' and ast.unparse(n.ast.iter) == 'node.v_edges']
        inst = m.qual + ' :: all value edges tried'
        if len(loops) == 1:
            R.ok(oids['MPT.2'], inst, site(m, loops[0].ast))
        else:
            R.fail(oids['MPT.2'], inst, m.qual, 'def _match', 'value edges of the node are not all examined', site(m, m.f.node))
    # ---- one step over a pattern edge, decided for every valuation of (already bound, equal to binding, constraints hold, named tag)
    table_done = _pattern_step_table(R, m, SP, oids)
    if table_done:
        oids = {k: v for k, v in oids.items() if k not in ('MPT.3', 'MPT.4', 'TBL.1c')}
    # constraint evaluation on every pattern-edge traversal
    cons_tests = []
    for t in m.cfg.nodes:
        if t.kind == 'test' and isinstance(t.ast, ast.Call) and callee_attr(t.ast) == '_check_cons':
            a = [ast.unparse(x) for x in t.ast.args]
            if a == ['value', 'context', 'pe.cons_sets']:
                cons_tests.append(t)
    if 'MPT.3' in oids:
        inst = m.qual + ' :: constraints evaluated on every pattern-edge traversal'
        if not cons_tests or SP.id in m.cfg.reachable(removed_edges={(t.id, True) for t in cons_tests}):
            R.fail(oids['MPT.3'], inst, m.qual, SP.ast, 'a pattern edge can be followed without evaluating its constraint sets on the component '
                   '(when the pattern is already bound the constraints of this rule are skipped)', site(m, SP.ast))
        else:
            R.ok(oids['MPT.3'], inst, site(m, SP.ast), f'{len(cons_tests)} _check_cons test(s) dominate the move')
    bound_tests = [t for t in m.cfg.nodes if t.kind == 'test' and isinstance(t.ast, ast.Compare) and isinstance(t.ast.ops[0], (ast.In, ast.NotIn))
                   and ast.unparse(t.ast.left) == 'pe.tag' and ast.unparse(t.ast.comparators[0]) == 'context']
    if 'MPT.4' in oids:
        inst = m.qual + ' :: bound pattern requires an equal component'
        if len(bound_tests) != 1:
            R.fail(oids['MPT.4'], inst, m.qual, 'def _match', 'no test whether the pattern is already bound', site(m, m.f.node))
        else:
            bt = bound_tests[0]
            bound_lab = isinstance(bt.ast.ops[0], ast.In)
            eqs = [(t.id, eq_label(t.ast, 'value', 'context[pe.tag]')) for t in m.cfg.nodes if t.kind == 'test' and eq_label(t.ast, 'value', 'context[pe.tag]') is not None]
            removed = set(eqs) | {(bt.id, not bound_lab)}
            if not eqs or SP.id in m.cfg.reachable(removed_edges=removed):
                R.fail(oids['MPT.4'], inst, m.qual, SP.ast, 'a repeated named pattern can match a component different from its binding', site(m, SP.ast))
            else:
                R.ok(oids['MPT.4'], inst, site(m, SP.ast))
    if 'REL.1' in oids and len(bound_tests) == 1:
        bt = bound_tests[0]
        bound_lab = isinstance(bt.ast.ops[0], ast.In)
        stores = [n for n in m.cfg.nodes if n.kind == 'stmt' and isinstance(n.ast, ast.Assign) and ast.unparse(n.ast.targets[0]) == 'context[pe.tag]']
        inst = m.qual + ' :: bind / undo pairing'
        probs = []
        if len(stores) != 1 or ast.unparse(stores[0].ast.value) != 'value':
            probs.append(('named patterns are not bound to the matched component', SP.ast))
        else:
            st = stores[0]
            if st.id in m.cfg.reachable(removed_edges={(bt.id, not bound_lab)}):
                probs.append(('an existing binding can be overwritten', st.ast))
            pushes = [(n, c) for (n, c) in calls_in_ctx(m, attr='append') if ast.unparse(c.func.value) == 'matches']
            tagp = [n for (n, c) in pushes if ast.unparse(c.args[0]) == 'pe.tag']
            negp = [n for (n, c) in pushes if ast.unparse(c.args[0]) == '-1']
            if len(tagp) != 1 or not (m.cfg.dominates(st, tagp[0]) or m.cfg.dominates(tagp[0], st)):
                probs.append(('a new binding is not recorded for undo on backtrack', st.ast))
            # every traversal pushes exactly one undo record
            for step in (SV, SP):
                r = m.cfg.reachable(removed_nodes={n.id for (n, c) in pushes})
                if step.id in r:
                    probs.append(('an edge can be followed without pushing an undo record (backtracking would undo the wrong binding)', step.ast))
            dels = [n for n in m.cfg.nodes if n.kind == 'stmt' and isinstance(n.ast, ast.Delete) and ast.unparse(n.ast.targets[0]) == 'context[last_tag]']
            gt = [t for t in m.cfg.nodes if t.kind == 'test' and ast.unparse(t.ast) in ('last_tag >= 0', 'last_tag > -1', 'last_tag != -1')]
            if len(dels) != 1 or not gt or dels[0].id in m.cfg.reachable(removed_edges={(gt[0].id, True)}):
                probs.append(('backtracking does not remove exactly the bindings made on the abandoned edge', dels[0].ast if dels else m.f.node))
        if probs:
            for (what, construct) in probs:
                R.fail(oids['REL.1'], inst, m.qual, construct if not isinstance(construct, FuncT) else 'def _match', what, site(m, construct))
        else:
            R.ok(oids['REL.1'], inst, site(m, stores[0].ast))
    if 'TBL.1c' in oids:
        ts = [t for t in m.cfg.nodes if t.kind == 'test' and 'named_pattern_cnt' in ast.unparse(t.ast)]
        inst = m.qual + ' :: named / temporary boundary'
        good = len(ts) == 1 and cmp_sides(ts[0].ast) in (('pe.tag', ast.LtE, 'self.model.named_pattern_cnt'),
                                                       ('self.model.named_pattern_cnt', ast.GtE, 'pe.tag'))
        stores = [n for n in m.cfg.nodes if n.kind == 'stmt' and isinstance(n.ast, ast.Assign) and ast.unparse(n.ast.targets[0]) == 'context[pe.tag]']
        if good and stores and stores[0].id not in m.cfg.reachable(removed_edges={(ts[0].id, True)}):
            R.ok(oids['TBL.1c'], inst, site(m, ts[0].ast), 'tag <= named_pattern_cnt binds')
        else:
            R.fail(oids['TBL.1c'], inst, m.qual, ts[0].ast if ts else 'def _match', 'the checker does not bind exactly the tags 1..named_pattern_cnt '
                   '(compiler numbers named patterns 1..n and temporaries from n+1)', site(m, m.f.node))
    if 'LOP.1' in oids:
        cc = ctx(R, CK + '.Checker._check_cons')
        consp = cc.f.node.args.args[3].arg
        outer = [n for n in cc.cfg.nodes if n.kind == 'for' and ast.unparse(n.ast.iter) == consp]
        inner = [n for n in cc.cfg.nodes if n.kind == 'for' and ast.unparse(n.ast.iter).endswith('.options')]
        inst = cc.qual + ' :: every constraint satisfied by some option (CNF)'
        probs = []
        if len(outer) != 1 or len(inner) != 1:
            raise AnalysisError('_check_cons: the loop over constraints / the loop over the options of a constraint is not recognised '
                                '(a comprehension, any()/all() or a helper is read back only when it can be expanded)')
        else:
            from .common import explore
            O, I = outer[0], inner[0]
            valp = cc.f.node.args.args[1].arg
            ctxp = cc.f.node.args.args[2].arg
            trues = [r for r in returns(cc) if isinstance(r.ast.value, ast.Constant) and r.ast.value.value is True]
            falses = [r for r in returns(cc) if isinstance(r.ast.value, ast.Constant) and r.ast.value.value is False]
            if not trues or not falses or len(trues) + len(falses) != len(returns(cc)):
                raise AnalysisError('_check_cons: does not return True/False constants')
            if any(r.id in cc.cfg.reachable(removed_edges={(O.id, False)}) for r in trues):
                probs.append(('satisfaction is reported before every constraint was examined (exists instead of for-all over constraints)', trues[0].ast))
            ntests = [0]

            def holds(H):
                def ev(e):
                    if isinstance(e, ast.Compare) and len(e.ops) == 1 and isinstance(e.ops[0], (ast.Eq, ast.NotEq)):
                        sides = [ast.unparse(e.left), ast.unparse(e.comparators[0])]
                        if valp in sides:
                            other = sides[1] if sides[0] == valp else sides[0]
                            if other.endswith('.value') or other.startswith(f'{ctxp}.get(') or other.startswith(f'{ctxp}['):
                                ntests[0] += 1
                                return H if isinstance(e.ops[0], ast.Eq) else not H
                    if isinstance(e, ast.Call) and 'user_fns' in ast.unparse(e.func) and e.args and ast.unparse(e.args[0]) == valp:
                        ntests[0] += 1
                        return H
                    return None
                return ev
            body0 = [s_ for (s_, l_) in O.succ if l_ is True]
            ibody0 = [s_ for (s_, l_) in I.succ if l_ is True]
            # (1) no option of the constraint holds: the check fails, before the next constraint is looked at
            r1 = explore(cc, holds(False), start=body0[0], stop={O.id})
            if O.id in r1 or any(t.id in r1 for t in trues) or not any(f.id in r1 for f in falses):
                probs.append(('a constraint none of whose options holds does not fail the check', O.ast))
            # (2) the option examined holds: the constraint is satisfied (no failure from here, the next constraint is reached)
            r2 = explore(cc, holds(True), start=ibody0[0], stop={O.id})
            if any(f.id in r2 for f in falses):
                probs.append(('a constraint fails although one of its options holds', I.ast))
            if O.id not in r2:
                probs.append(('after a satisfied constraint the remaining constraints are not examined', I.ast))
            # every option kind is compared with the component
            if ntests[0] == 0:
                raise AnalysisError('_check_cons: no comparison of the component with an option recognised')
            r3 = explore(cc, holds(False), start=ibody0[0], stop={O.id, I.id})
            if I.id not in r3 and not any(n.kind == 'raise' for n in cc.cfg.nodes if n.id in r3):
                probs.append(('the option loop can stop after an option that did not hold: the remaining options are never tried', I.ast))
            # an option that does not hold never ends the option loop early (break / return True)
            after_break = {n.id for n in cc.cfg.nodes if n.kind == 'stmt' and isinstance(n.ast, ast.Break)}
            if after_break & r3:
                probs.append(('the option loop can stop after an option that did not hold: the remaining options are never tried', I.ast))
        if probs:
            for (what, construct) in probs:
                R.fail(oids['LOP.1'], inst, cc.qual, construct if not isinstance(construct, FuncT) else 'def _check_cons', what, site(cc, construct))
        else:
            R.ok(oids['LOP.1'], inst, site(cc, outer[0].ast))


def docs_sanity_bullets(P):
    p = os.path.join(P.repo, 'docs', 'src', 'lvs', 'binary-format.rst')
    if not os.path.exists(p):
        raise AnalysisError('docs/src/lvs/binary-format.rst not found (anchor of the documented sanity rules)')
    txt = open(p, encoding='utf-8').read()
    m = re.search(r'Sanity Check\n~+\n(.*?)The following sanity checks are recommended', txt, re.S)
    if not m:
        raise AnalysisError('binary-format.rst: "Sanity Check" section not found')
    bullets = re.findall(r'^- (.*?)(?=^\S|\Z)', m.group(1), re.S | re.M)
    return [' '.join(b.split()) for b in bullets]


def last_component_guarded(R, oid, cx):
    """every `<name>[-1]` in cx is evaluated only when <name> is known to be non-empty"""
    n_acc = 0
    for n in cx.cfg.nodes:
        for x in n.walk():
            if isinstance(x, ast.Subscript) and isinstance(x.slice, ast.UnaryOp) and isinstance(x.slice.op, ast.USub) and isinstance(x.value, ast.Name):
                var = x.value.id
                n_acc += 1
                inst = f'{cx.qual} :: {ast.unparse(x)}'
                edges = set()
                for t in cx.cfg.nodes:
                    if t.kind == 'test':
                        txt = ast.unparse(t.ast)
                        if txt in (var, f'len({var}) > 0', f'len({var}) != 0', f'len({var})', f'len({var}) >= 1'):
                            edges.add((t.id, True))
                        elif txt in (f'len({var}) == 0', f'not {var}'):
                            edges.add((t.id, False))
                if edges and n.id not in cx.cfg.reachable(removed_edges=edges):
                    R.ok(oid, inst, site(cx, x), 'guarded by a non-emptiness test')
                else:
                    R.fail(oid, inst, cx.qual, x, f'the last component of `{var}` is read without checking that the name is not empty: '
                           'the empty name raises IndexError instead of being matched', site(cx, x))
    return n_acc


def merge_key_rule(R, oid):
    """RuleChain.pattern_movement returns (tag, encoded constraints, key text); chains that agree on the key share one trie edge and
    only the first chain's constraints are kept. The key must therefore spell out everything that is stored in the encoded
    constraints: every value written into an encoded option / argument also goes into the key in the same branch, and every
    nested list (options of a constraint, arguments of a user function) is bracketed."""
    import ast
    from .common import ctx, site
    from ..loader import AnalysisError, norm
    P = R.P
    cx = ctx(R, CP + '.Compiler.RuleChain.pattern_movement')
    fn = cx.f.node
    rets = [r for r in ast.walk(fn) if isinstance(r, ast.Return) and isinstance(r.value, ast.Tuple) and len(r.value.elts) == 3]
    keys = {r.value.elts[2].id for r in rets if isinstance(r.value.elts[2], ast.Name)}
    # a key assembled with str.join at two nesting levels: the inner groups must be told apart in the outer text - joined with another separator
    # or enclosed in delimiters. `','.join(groups)` over groups that are themselves `','.join(items)` reads the same for {a|b} and {a},{b}.
    def _join_of(e):
        """(separator, list name) when e is SEP.join(L) / SEP.join(sorted(L))"""
        if isinstance(e, ast.Call) and isinstance(e.func, ast.Attribute) and e.func.attr == 'join' and isinstance(e.func.value, ast.Constant) \
                and isinstance(e.func.value.value, str) and len(e.args) == 1:
            a_ = e.args[0]
            if isinstance(a_, ast.Call) and isinstance(a_.func, ast.Name) and a_.func.id == 'sorted' and a_.args:
                a_ = a_.args[0]
            if isinstance(a_, ast.Name):
                return e.func.value.value, a_.id
        return None
    outer = [(j, x) for x in ast.walk(fn) for j in [_join_of(x)] if j]
    for (sep, lst), call in outer:
        for ap in ast.walk(fn):
            if isinstance(ap, ast.Call) and isinstance(ap.func, ast.Attribute) and ap.func.attr == 'append' and isinstance(ap.func.value, ast.Name) \
                    and ap.func.value.id == lst and ap.args:
                inner = _join_of(ap.args[0])
                if inner and inner[0] == sep:
                    R.fail(oid, f'{cx.qual} :: groups of `{inner[1]}` are delimited in the key', cx.qual, ap,
                           f'the items of `{inner[1]}` are joined with {sep!r} and the groups are joined with {sep!r} again, without delimiters around a group: different '
                           'groupings of the same items (one constraint with two options / two constraints with one option each) give the same key, the chains '
                           'are merged into one edge and only the first chain\'s constraints are kept', site(cx, ap))
    if len(keys) != 1:
        raise AnalysisError('pattern_movement: the merge key is not one local returned as third element')
    key = keys.pop()

    def blocks(node):
        for n in ast.walk(node):
            for fld in ('body', 'orelse'):
                b = getattr(n, fld, None)
                if isinstance(b, list) and b and isinstance(b[0], ast.stmt):
                    yield b

    # text pieces: every local whose value ends up in the key (`piece = ..; key += piece`, `parts.append(..); key += ''.join(parts)`, also
    # through the result names of an expanded helper)
    K = {key}
    changed = True
    while changed:
        changed = False
        for n in ast.walk(fn):
            tgt = val = None
            if isinstance(n, ast.AugAssign) and isinstance(n.target, ast.Name) and isinstance(n.op, ast.Add):
                tgt, val = [n.target.id], n.value
            elif isinstance(n, ast.Assign) and len(n.targets) == 1 and isinstance(n.targets[0], ast.Name):
                tgt, val = [n.targets[0].id], n.value
            elif isinstance(n, ast.Assign) and len(n.targets) == 1 and isinstance(n.targets[0], ast.Tuple) and isinstance(n.value, ast.Tuple) \
                    and len(n.targets[0].elts) == len(n.value.elts):
                for t_, v_ in zip(n.targets[0].elts, n.value.elts):
                    if isinstance(t_, ast.Name) and t_.id in K:
                        for x in ast.walk(v_):
                            if isinstance(x, ast.Name) and x.id not in K and x.id not in ('opt', 'arg', 'cons', 'self', 'str', 'int'):
                                K.add(x.id)
                                changed = True
                continue
            elif isinstance(n, ast.Call) and isinstance(n.func, ast.Attribute) and n.func.attr == 'append' and isinstance(n.func.value, ast.Name) and len(n.args) == 1:
                tgt, val = [n.func.value.id], n.args[0]
            if tgt and tgt[0] in K:
                for x in ast.walk(val):
                    if isinstance(x, ast.Name) and isinstance(x.ctx, ast.Load) and x.id not in K and x.id not in ('opt', 'arg', 'cons', 'self', 'str', 'int', 'tag'):
                        K.add(x.id)
                        changed = True

    def piece_value(s, k=None):
        """the text added to a key piece by statement s (piece k if given), else None"""
        if isinstance(s, ast.AugAssign) and isinstance(s.target, ast.Name) and s.target.id in K and isinstance(s.op, ast.Add) and (k is None or s.target.id == k):
            return s.value
        if isinstance(s, ast.Assign) and len(s.targets) == 1 and isinstance(s.targets[0], ast.Name) and s.targets[0].id in K and (k is None or s.targets[0].id == k):
            return s.value
        if isinstance(s, ast.Assign) and len(s.targets) == 1 and isinstance(s.targets[0], ast.Tuple) and isinstance(s.value, ast.Tuple) \
                and len(s.targets[0].elts) == len(s.value.elts):
            for t_, v_ in zip(s.targets[0].elts, s.value.elts):
                if isinstance(t_, ast.Name) and t_.id in K and (k is None or t_.id == k):
                    return v_
        if isinstance(s, ast.Expr) and isinstance(s.value, ast.Call) and isinstance(s.value.func, ast.Attribute) and s.value.func.attr == 'append' \
                and isinstance(s.value.func.value, ast.Name) and s.value.func.value.id in K and len(s.value.args) == 1 and (k is None or s.value.func.value.id == k):
            return s.value.args[0]
        return None

    def is_key_add(s):
        return piece_value(s) is not None
    n_data = n_loops = 0
    for b in blocks(fn):
        for i, s in enumerate(b):
            # A. data written into the encoded structure
            if isinstance(s, ast.Assign) and len(s.targets) == 1 and isinstance(s.targets[0], ast.Attribute) \
                    and ast.unparse(s.targets[0]).startswith('encoded_') and s.targets[0].attr in ('value', 'tag', 'fn_id'):
                srcs = {ast.unparse(x) for x in ast.walk(s.value) if isinstance(x, ast.Attribute) and isinstance(x.value, ast.Name) and x.value.id in ('opt', 'arg')}
                if not srcs:
                    continue
                n_data += 1
                inst = f'{cx.qual} :: `{norm(s)}` is part of the key'
                adds = [t for t in b if is_key_add(t) and any(ast.unparse(x) in srcs for x in ast.walk(piece_value(t)))]
                if adds:
                    R.ok(oid, inst, site(cx, s))
                else:
                    R.fail(oid, inst, cx.qual, s, f'{sorted(srcs)[0]} is stored in the encoded constraint but does not go into the key text `{key}`: two rule chains '
                           'that differ only there are merged into one edge and the second one\'s constraint is lost', site(cx, s))
            # B. nested lists are bracketed
            if isinstance(s, ast.For) and ast.unparse(s.iter) in ('cons.options', 'opt.args') and any(
                    isinstance(t, ast.Assign) and ast.unparse(t.targets[0]).startswith('encoded_') for t in ast.walk(s)):
                n_loops += 1
                inst = f'{cx.qual} :: items of `{ast.unparse(s.iter)}` are bracketed in the key'
                # the piece the loop body feeds
                def own(stmts):
                    for x in stmts:
                        yield x
                        if isinstance(x, ast.If):
                            yield from own(x.body)
                            yield from own(x.orelse)
                        elif type(x).__name__ == 'InlineBlock':
                            yield from own(x.body)
                body_ = list(own(s.body))
                reinit = {t.targets[0].id for t in body_ if isinstance(t, ast.Assign) and len(t.targets) == 1 and isinstance(t.targets[0], ast.Name)} | \
                         {e_.id for t in body_ if isinstance(t, ast.Assign) and len(t.targets) == 1 and isinstance(t.targets[0], ast.Tuple)
                          for e_ in t.targets[0].elts if isinstance(e_, ast.Name)}
                # the accumulator the loop feeds: a key piece extended in the body (outside nested loops) and not started afresh there
                lists = {t.value.func.value.id for t in body_ if isinstance(t, ast.Expr) and is_key_add(t)} - reinit
                def strs(e):
                    return [x.value for x in ast.walk(e) if isinstance(x, ast.Constant) and isinstance(x.value, str)]
                if lists:
                    # the items are collected in a list: where the list is joined into the key, the join stands between an opening and a closing delimiter
                    lst = sorted(lists)[0]
                    use = [(t, piece_value(t)) for t in b[i + 1:] if is_key_add(t) and any(isinstance(x, ast.Name) and x.id == lst for x in ast.walk(piece_value(t)))]
                    opened = closed = False
                    if use:
                        v = use[0][1]
                        parts = []

                        def flat(x):
                            if isinstance(x, ast.BinOp) and isinstance(x.op, ast.Add):
                                flat(x.left)
                                flat(x.right)
                            elif isinstance(x, ast.JoinedStr):
                                for y in x.values:
                                    parts.append(y.value if isinstance(y, ast.FormattedValue) else y)
                            else:
                                parts.append(x)
                        flat(v)
                        j = [k_ for k_, x in enumerate(parts) if any(isinstance(y, ast.Name) and y.id == lst for y in ast.walk(x))]
                        if len(j) == 1:
                            k_ = j[0]
                            opened = k_ > 0 and isinstance(parts[k_ - 1], ast.Constant) and str(parts[k_ - 1].value)[-1:] in ('{', '(', '[') and str(parts[k_ - 1].value) != ''
                            closed = k_ + 1 < len(parts) and isinstance(parts[k_ + 1], ast.Constant) and str(parts[k_ + 1].value)[:1] in ('}', ')', ']') \
                                and str(parts[k_ + 1].value) != ''
                else:
                    before = [t for t in b[:i] if is_key_add(t)]
                    after = [t for t in b[i + 1:] if is_key_add(t)]
                    lb = strs(piece_value(before[-1])) if before else []
                    opened = bool(lb) and lb[-1][-1:] in ('{', '(', '[') and lb[-1] != ''
                    closed = bool(after) and isinstance(piece_value(after[0]), ast.Constant) and str(piece_value(after[0]).value)[:1] in ('}', ')', ']') \
                        and str(piece_value(after[0]).value) != ''
                if opened and closed:
                    R.ok(oid, inst, site(cx, s))
                else:
                    R.fail(oid, inst, cx.qual, s, f'the items of `{ast.unparse(s.iter)}` are not enclosed by an opening and a closing delimiter in the key: '
                           'different groupings of the same items (two constraints vs one with two options; different argument lists) give the same key and are merged',
                           site(cx, s))
    R.need(n_data >= 5 and n_loops >= 2, f'pattern_movement: only {n_data} stored values / {n_loops} nested lists recognised')


def digest_strip_types(R, oid, cx):
    """the component types for which `cx` drops the last component of a name before matching must be exactly {ImplicitSha256Digest}: the implicit
    digest is not part of the name a schema describes, every other component (also the parameters digest) is"""
    import ast
    from .common import site, full_text, inline_ast
    from ..loader import NOVALUE
    P = R.P
    n = 0
    for t in cx.cfg.nodes:
        if t.kind != 'test' or not isinstance(t.ast, ast.Compare) or len(t.ast.ops) != 1 or 'get_type(' not in full_text(cx, t.ast):
            continue
        e = inline_ast(cx, t.ast)
        op, comp = e.ops[0], e.comparators[0]
        if 'get_type(' not in ast.unparse(e.left):
            if 'get_type(' in ast.unparse(comp) and isinstance(op, (ast.Eq, ast.NotEq)):
                comp = e.left
            else:
                continue
        v = P.const_value(cx.f.mod, comp)
        if v is NOVALUE:
            try:
                from ..fold import Folder
                v = Folder(P, cx.f.mod).ev(comp, {})
            except Exception:
                raise AnalysisError(f'{cx.qual}: cannot fold the component type(s) in `{ast.unparse(t.ast)}`')
        types = {v} if isinstance(v, int) else set(v)
        n += 1
        inst = f'{cx.qual} :: `{ast.unparse(t.ast)[:60]}` drops the implicit digest only'
        if types == {1}:
            R.ok(oid, inst, site(cx, t.ast))
        else:
            extra = sorted(types - {1})
            R.fail(oid, inst, cx.qual, t.ast, f'the last component is dropped for component type(s) {sorted(types)}, not for the implicit digest (type 1) only'
                   + (f': type {extra[0]}' + (' (ParametersSha256Digest)' if extra[0] == 2 else '') + ' is an ordinary component of the name a rule describes - '
                      'a name one component longer than the rule matches, and a rule with a pattern at that place no longer does' if extra else ''), site(cx, t.ast))
    return n
