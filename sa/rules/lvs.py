"""Shared rule code for the Light VerSec properties C11 / C12 / C13."""
import ast
import os
import re

from .common import ctx, returns, calls_in_ctx, reach_from_succ, site, srcs_text, truthy_label
from ..flow import callee_attr
from ..loader import AnalysisError, norm, FuncT

CK = 'ndn.app_support.light_versec.checker'
CP = 'ndn.app_support.light_versec.compiler'


def cmp_sides(t):
    if isinstance(t, ast.Compare) and len(t.ops) == 1:
        return ast.unparse(t.left), type(t.ops[0]), ast.unparse(t.comparators[0])
    return None


def eq_label(test, a, b):
    """label of the edge on which a == b holds for a test `a == b` / `a != b` (either order); else None"""
    s = cmp_sides(test)
    if not s:
        return None
    l, op, r = s
    if {l, r} != {a, b}:
        return None
    if op is ast.Eq:
        return True
    if op is ast.NotEq:
        return False
    return None


def raising_edge(cx, t, label, exc, P):
    """the edge (t, label) leads to an unconditional raise of `exc` (only plain statements in between)"""
    r = reach_from_succ(cx.cfg, t, label, follow_exc=False)
    byid = {n.id: n for n in cx.cfg.nodes}
    nodes = [byid[i] for i in r]
    if not nodes:
        return False
    if any(n.kind in ('test', 'for', 'exit', 'falloff', 'return', 'with') or (n.kind == 'stmt' and n.ast is None) for n in nodes):
        return False
    rs = [n for n in nodes if n.kind == 'raise']
    return bool(rs) and all(n.ast.exc is not None and P.exc_name(cx.f.mod, n.ast.exc) == exc for n in rs)


def match_rules(R, oids):
    """obligations on Checker._match / _check_cons shared by C11 (MPT.1-4, REL.1, LOP.1) and C12 (MPT.1).
    oids: dict rule-key -> obligation id (only the given ones are reported)"""
    P = R.P
    m = ctx(R, CK + '.Checker._match')
    pname = m.f.node.args.args[1].arg       # name
    steps_v = [n for n in m.cfg.nodes if n.kind == 'stmt' and isinstance(n.ast, ast.Assign) and ast.unparse(n.ast.targets[0]) == 'cur'
               and ast.unparse(n.ast.value) == 've.dest']
    steps_p = [n for n in m.cfg.nodes if n.kind == 'stmt' and isinstance(n.ast, ast.Assign) and ast.unparse(n.ast.targets[0]) == 'cur'
               and ast.unparse(n.ast.value) == 'pe.dest']
    R.need(len(steps_v) == 1 and len(steps_p) == 1, '_match: edge traversal statements (cur = ve.dest / cur = pe.dest) not found')
    SV, SP = steps_v[0], steps_p[0]
    value_defs = [v for n in m.cfg.nodes for (nm, v) in m.cfg.defs_of(n) if nm == 'value']
    depth_defs = [v for n in m.cfg.nodes for (nm, v) in m.cfg.defs_of(n) if nm == 'depth']
    R.need(all(isinstance(v, ast.AST) and ast.unparse(v) == f'{pname}[depth]' for v in value_defs) and value_defs,
           '_match: `value` is not name[depth]')
    R.need(all(isinstance(v, ast.AST) and ast.unparse(v) == 'len(edge_indices)' for v in depth_defs) and depth_defs,
           '_match: `depth` is not len(edge_indices)')
    if 'MPT.1' in oids:
        ys = [n for n in m.cfg.nodes if any(isinstance(x, ast.Yield) for x in n.walk())]
        ts = [(t.id, eq_label(t.ast, 'depth', f'len({pname})')) for t in m.cfg.nodes if t.kind == 'test' and eq_label(t.ast, 'depth', f'len({pname})') is not None]
        inst = m.qual + ' :: yield only at full length'
        if not ys:
            R.fail(oids['MPT.1'], inst, m.qual, 'def _match', 'no match is ever reported', site(m, m.f.node))
        elif not ts or any(y.id in m.cfg.reachable(removed_edges=set(ts)) for y in ys):
            R.fail(oids['MPT.1'], inst, m.qual, ys[0].ast, 'a match can be reported for a name whose length differs from the depth of the node '
                   '(prefixes / longer names would match a rule)', site(m, ys[0].ast))
        else:
            yv = [x for x in ys[0].walk() if isinstance(x, ast.Yield)][0].value
            if ast.unparse(yv) != '(cur, context)':
                R.fail(oids['MPT.1'], inst, m.qual, ys[0].ast, f'the match reports {ast.unparse(yv)} instead of (node, bindings)', site(m, ys[0].ast))
            else:
                R.ok(oids['MPT.1'], inst, site(m, ys[0].ast))
    if 'MPT.2' in oids:
        ts = [(t.id, eq_label(t.ast, f'{pname}[depth]', 've.value')) for t in m.cfg.nodes if t.kind == 'test' and eq_label(t.ast, f'{pname}[depth]', 've.value') is not None]
        ts += [(t.id, eq_label(t.ast, 'value', 've.value')) for t in m.cfg.nodes if t.kind == 'test' and eq_label(t.ast, 'value', 've.value') is not None]
        inst = m.qual + ' :: value edge needs an equal component'
        if not ts or SV.id in m.cfg.reachable(removed_edges=set(ts)):
            R.fail(oids['MPT.2'], inst, m.qual, SV.ast, 'a literal (value) edge can be followed although the component differs from the literal', site(m, SV.ast))
        else:
            R.ok(oids['MPT.2'], inst, site(m, SV.ast))
        # value edges are tried over all v_edges of the node
        loops = [n for n in m.cfg.nodes if n.kind == 'for' and ast.unparse(n.ast.iter) == 'node.v_edges']
        inst = m.qual + ' :: all value edges tried'
        if len(loops) == 1:
            R.ok(oids['MPT.2'], inst, site(m, loops[0].ast))
        else:
            R.fail(oids['MPT.2'], inst, m.qual, 'def _match', 'value edges of the node are not all examined', site(m, m.f.node))
    # constraint evaluation on every pattern-edge traversal
    cons_tests = []
    for t in m.cfg.nodes:
        if t.kind == 'test' and isinstance(t.ast, ast.Call) and callee_attr(t.ast) == '_check_cons':
            a = [ast.unparse(x) for x in t.ast.args]
            if a == ['value', 'context', 'pe.cons_sets']:
                cons_tests.append(t)
    if 'MPT.3' in oids:
        inst = m.qual + ' :: constraints evaluated on every pattern-edge traversal'
        if not cons_tests or SP.id in m.cfg.reachable(removed_edges={(t.id, True) for t in cons_tests}):
            R.fail(oids['MPT.3'], inst, m.qual, SP.ast, 'a pattern edge can be followed without evaluating its constraint sets on the component '
                   '(when the pattern is already bound the constraints of this rule are skipped)', site(m, SP.ast))
        else:
            R.ok(oids['MPT.3'], inst, site(m, SP.ast), f'{len(cons_tests)} _check_cons test(s) dominate the move')
    bound_tests = [t for t in m.cfg.nodes if t.kind == 'test' and isinstance(t.ast, ast.Compare) and isinstance(t.ast.ops[0], (ast.In, ast.NotIn))
                   and ast.unparse(t.ast.left) == 'pe.tag' and ast.unparse(t.ast.comparators[0]) == 'context']
    if 'MPT.4' in oids:
        inst = m.qual + ' :: bound pattern requires an equal component'
        if len(bound_tests) != 1:
            R.fail(oids['MPT.4'], inst, m.qual, 'def _match', 'no test whether the pattern is already bound', site(m, m.f.node))
        else:
            bt = bound_tests[0]
            bound_lab = isinstance(bt.ast.ops[0], ast.In)
            eqs = [(t.id, eq_label(t.ast, 'value', 'context[pe.tag]')) for t in m.cfg.nodes if t.kind == 'test' and eq_label(t.ast, 'value', 'context[pe.tag]') is not None]
            removed = set(eqs) | {(bt.id, not bound_lab)}
            if not eqs or SP.id in m.cfg.reachable(removed_edges=removed):
                R.fail(oids['MPT.4'], inst, m.qual, SP.ast, 'a repeated named pattern can match a component different from its binding', site(m, SP.ast))
            else:
                R.ok(oids['MPT.4'], inst, site(m, SP.ast))
    if 'REL.1' in oids and len(bound_tests) == 1:
        bt = bound_tests[0]
        bound_lab = isinstance(bt.ast.ops[0], ast.In)
        stores = [n for n in m.cfg.nodes if n.kind == 'stmt' and isinstance(n.ast, ast.Assign) and ast.unparse(n.ast.targets[0]) == 'context[pe.tag]']
        inst = m.qual + ' :: bind / undo pairing'
        probs = []
        if len(stores) != 1 or ast.unparse(stores[0].ast.value) != 'value':
            probs.append(('named patterns are not bound to the matched component', SP.ast))
        else:
            st = stores[0]
            if st.id in m.cfg.reachable(removed_edges={(bt.id, not bound_lab)}):
                probs.append(('an existing binding can be overwritten', st.ast))
            pushes = [(n, c) for (n, c) in calls_in_ctx(m, attr='append') if ast.unparse(c.func.value) == 'matches']
            tagp = [n for (n, c) in pushes if ast.unparse(c.args[0]) == 'pe.tag']
            negp = [n for (n, c) in pushes if ast.unparse(c.args[0]) == '-1']
            if len(tagp) != 1 or not (m.cfg.dominates(st, tagp[0]) or m.cfg.dominates(tagp[0], st)):
                probs.append(('a new binding is not recorded for undo on backtrack', st.ast))
            # every traversal pushes exactly one undo record
            for step in (SV, SP):
                r = m.cfg.reachable(removed_nodes={n.id for (n, c) in pushes})
                if step.id in r:
                    probs.append(('an edge can be followed without pushing an undo record (backtracking would undo the wrong binding)', step.ast))
            dels = [n for n in m.cfg.nodes if n.kind == 'stmt' and isinstance(n.ast, ast.Delete) and ast.unparse(n.ast.targets[0]) == 'context[last_tag]']
            gt = [t for t in m.cfg.nodes if t.kind == 'test' and ast.unparse(t.ast) in ('last_tag >= 0', 'last_tag > -1', 'last_tag != -1')]
            if len(dels) != 1 or not gt or dels[0].id in m.cfg.reachable(removed_edges={(gt[0].id, True)}):
                probs.append(('backtracking does not remove exactly the bindings made on the abandoned edge', dels[0].ast if dels else m.f.node))
        if probs:
            for (what, construct) in probs:
                R.fail(oids['REL.1'], inst, m.qual, construct if not isinstance(construct, FuncT) else 'def _match', what, site(m, construct))
        else:
            R.ok(oids['REL.1'], inst, site(m, stores[0].ast))
    if 'TBL.1c' in oids:
        ts = [t for t in m.cfg.nodes if t.kind == 'test' and 'named_pattern_cnt' in ast.unparse(t.ast)]
        inst = m.qual + ' :: named / temporary boundary'
        good = len(ts) == 1 and cmp_sides(ts[0].ast) in (('pe.tag', ast.LtE, 'self.model.named_pattern_cnt'),
                                                       ('self.model.named_pattern_cnt', ast.GtE, 'pe.tag'))
        stores = [n for n in m.cfg.nodes if n.kind == 'stmt' and isinstance(n.ast, ast.Assign) and ast.unparse(n.ast.targets[0]) == 'context[pe.tag]']
        if good and stores and stores[0].id not in m.cfg.reachable(removed_edges={(ts[0].id, True)}):
            R.ok(oids['TBL.1c'], inst, site(m, ts[0].ast), 'tag <= named_pattern_cnt binds')
        else:
            R.fail(oids['TBL.1c'], inst, m.qual, ts[0].ast if ts else 'def _match', 'the checker does not bind exactly the tags 1..named_pattern_cnt '
                   '(compiler numbers named patterns 1..n and temporaries from n+1)', site(m, m.f.node))
    if 'LOP.1' in oids:
        cc = ctx(R, CK + '.Checker._check_cons')
        consp = cc.f.node.args.args[3].arg
        outer = [n for n in cc.cfg.nodes if n.kind == 'for' and ast.unparse(n.ast.iter) == consp]
        inner = [n for n in cc.cfg.nodes if n.kind == 'for' and ast.unparse(n.ast.iter).endswith('.options')]
        inst = cc.qual + ' :: every constraint satisfied by some option (CNF)'
        probs = []
        if len(outer) != 1 or len(inner) != 1:
            probs.append(('constraint sets are not evaluated as all-constraints / any-option loops', cc.f.node))
        else:
            O, I = outer[0], inner[0]
            trues = [r for r in returns(cc) if isinstance(r.ast.value, ast.Constant) and r.ast.value.value is True]
            falses = [r for r in returns(cc) if isinstance(r.ast.value, ast.Constant) and r.ast.value.value is False]
            sat_true = [n for n in cc.cfg.nodes if n.kind == 'stmt' and isinstance(n.ast, ast.Assign) and ast.unparse(n.ast.targets[0]) == 'satisfied'
                        and isinstance(n.ast.value, ast.Constant) and n.ast.value.value is True]
            sat_false = [n for n in cc.cfg.nodes if n.kind == 'stmt' and isinstance(n.ast, ast.Assign) and ast.unparse(n.ast.targets[0]) == 'satisfied'
                         and isinstance(n.ast.value, ast.Constant) and n.ast.value.value is False]
            if not trues or not falses or len(trues) + len(falses) != len(returns(cc)):
                probs.append(('_check_cons does not return True/False constants', cc.f.node))
            else:
                if any(r.id in cc.cfg.reachable(removed_edges={(O.id, False)}) for r in trues):
                    probs.append(('satisfaction is reported before every constraint was examined (exists instead of for-all over constraints)', trues[0].ast))
                # an unsatisfied constraint (no option matched) must lead to return False, not to the next constraint
                # (with the `satisfied = True` statements removed the flag is false: prune the truthy edges of its tests)
                flag_true = {(t.id, truthy_label(t.ast, 'satisfied')) for t in cc.cfg.nodes if t.kind == 'test' and truthy_label(t.ast, 'satisfied') is not None}
                r = reach_from_succ(cc.cfg, O, True, removed_nodes={n.id for n in sat_true} | {f.id for f in falses}, removed_edges=flag_true, follow_exc=False)
                if O.id in r or any(t.id in r for t in trues):
                    probs.append(('a constraint none of whose options holds does not fail the check', O.ast))
                if not sat_false or not all(cc.cfg.dominates(O, n) for n in sat_false) or any(not cc.cfg.path_exists(O, n) for n in sat_false):
                    probs.append(('the per-constraint flag is not reset for each constraint', O.ast))
                # the option loop is left early only after an option held (otherwise later options are never tried)
                brks = [n for n in cc.cfg.nodes if n.kind == 'stmt' and isinstance(n.ast, ast.Break)]
                r_nosat = cc.cfg.reachable(removed_nodes={n.id for n in sat_true})
                for b in brks:
                    if b.id in r_nosat:
                        probs.append(('the option loop can stop after an option that did not hold: the remaining options are never tried', b.ast))
                # each `satisfied = True` is under a comparison of the component with the option
                for n in sat_true:
                    guards = []
                    for t in cc.cfg.nodes:
                        if t.kind != 'test':
                            continue
                        lab = eq_label(t.ast, 'value', 'op.value')
                        if lab is None:
                            lab = eq_label(t.ast, 'value', 'context.get(op.tag, None)')
                        if lab is None:
                            lab = eq_label(t.ast, 'value', 'context.get(op.tag)')
                        if lab is None and isinstance(t.ast, ast.Call) and 'user_fns' in ast.unparse(t.ast.func) and \
                                [ast.unparse(a) for a in t.ast.args][:1] == ['value']:
                            lab = True
                        if lab is not None:
                            guards.append((t.id, lab))
                    if not guards or n.id in cc.cfg.reachable(removed_edges=set(guards)):
                        probs.append(('an option counts as satisfied without comparing the component', n.ast))
        if probs:
            for (what, construct) in probs:
                R.fail(oids['LOP.1'], inst, cc.qual, construct if not isinstance(construct, FuncT) else 'def _check_cons', what, site(cc, construct))
        else:
            R.ok(oids['LOP.1'], inst, site(cc, outer[0].ast))


def docs_sanity_bullets(P):
    p = os.path.join(P.repo, 'docs', 'src', 'lvs', 'binary-format.rst')
    if not os.path.exists(p):
        raise AnalysisError('docs/src/lvs/binary-format.rst not found (anchor of the documented sanity rules)')
    txt = open(p, encoding='utf-8').read()
    m = re.search(r'Sanity Check\n~+\n(.*?)The following sanity checks are recommended', txt, re.S)
    if not m:
        raise AnalysisError('binary-format.rst: "Sanity Check" section not found')
    bullets = re.findall(r'^- (.*?)(?=^\S|\Z)', m.group(1), re.S | re.M)
    return [' '.join(b.split()) for b in bullets]


def last_component_guarded(R, oid, cx):
    """every `<name>[-1]` in cx is evaluated only when <name> is known to be non-empty"""
    n_acc = 0
    for n in cx.cfg.nodes:
        for x in n.walk():
            if isinstance(x, ast.Subscript) and isinstance(x.slice, ast.UnaryOp) and isinstance(x.slice.op, ast.USub) and isinstance(x.value, ast.Name):
                var = x.value.id
                n_acc += 1
                inst = f'{cx.qual} :: {ast.unparse(x)}'
                edges = set()
                for t in cx.cfg.nodes:
                    if t.kind == 'test':
                        txt = ast.unparse(t.ast)
                        if txt in (var, f'len({var}) > 0', f'len({var}) != 0', f'len({var})', f'len({var}) >= 1'):
                            edges.add((t.id, True))
                        elif txt in (f'len({var}) == 0', f'not {var}'):
                            edges.add((t.id, False))
                if edges and n.id not in cx.cfg.reachable(removed_edges=edges):
                    R.ok(oid, inst, site(cx, x), 'guarded by a non-emptiness test')
                else:
                    R.fail(oid, inst, cx.qual, x, f'the last component of `{var}` is read without checking that the name is not empty: '
                           'the empty name raises IndexError instead of being matched', site(cx, x))
    return n_acc


def merge_key_rule(R, oid):
    """RuleChain.pattern_movement returns (tag, encoded constraints, key text); chains that agree on the key share one trie edge and
    only the first chain's constraints are kept. The key must therefore spell out everything that is stored in the encoded
    constraints: every value written into an encoded option / argument also goes into the key in the same branch, and every
    nested list (options of a constraint, arguments of a user function) is bracketed."""
    import ast
    from .common import ctx, site
    from ..loader import AnalysisError, norm
    P = R.P
    cx = ctx(R, CP + '.Compiler.RuleChain.pattern_movement')
    fn = cx.f.node
    rets = [r for r in ast.walk(fn) if isinstance(r, ast.Return) and isinstance(r.value, ast.Tuple) and len(r.value.elts) == 3]
    keys = {r.value.elts[2].id for r in rets if isinstance(r.value.elts[2], ast.Name)}
    if len(keys) != 1:
        raise AnalysisError('pattern_movement: the merge key is not one local returned as third element')
    key = keys.pop()

    def blocks(node):
        for n in ast.walk(node):
            for fld in ('body', 'orelse'):
                b = getattr(n, fld, None)
                if isinstance(b, list) and b and isinstance(b[0], ast.stmt):
                    yield b

    def is_key_add(s):
        return isinstance(s, ast.AugAssign) and isinstance(s.target, ast.Name) and s.target.id == key and isinstance(s.op, ast.Add)
    n_data = n_loops = 0
    for b in blocks(fn):
        for i, s in enumerate(b):
            # A. data written into the encoded structure
            if isinstance(s, ast.Assign) and len(s.targets) == 1 and isinstance(s.targets[0], ast.Attribute) \
                    and ast.unparse(s.targets[0]).startswith('encoded_') and s.targets[0].attr in ('value', 'tag', 'fn_id'):
                srcs = {ast.unparse(x) for x in ast.walk(s.value) if isinstance(x, ast.Attribute) and isinstance(x.value, ast.Name) and x.value.id in ('opt', 'arg')}
                if not srcs:
                    continue
                n_data += 1
                inst = f'{cx.qual} :: `{norm(s)}` is part of the key'
                adds = [t for t in b if is_key_add(t) and any(ast.unparse(x) in srcs for x in ast.walk(t.value))]
                if adds:
                    R.ok(oid, inst, site(cx, s))
                else:
                    R.fail(oid, inst, cx.qual, s, f'{sorted(srcs)[0]} is stored in the encoded constraint but does not go into the key text `{key}`: two rule chains '
                           'that differ only there are merged into one edge and the second one\'s constraint is lost', site(cx, s))
            # B. nested lists are bracketed
            if isinstance(s, ast.For) and ast.unparse(s.iter) in ('cons.options', 'opt.args') and any(
                    isinstance(t, ast.Assign) and ast.unparse(t.targets[0]).startswith('encoded_') for t in ast.walk(s)):
                n_loops += 1
                inst = f'{cx.qual} :: items of `{ast.unparse(s.iter)}` are bracketed in the key'
                before = [t for t in b[:i] if is_key_add(t)]
                after = [t for t in b[i + 1:] if is_key_add(t)]

                def last_const(t):
                    cs = [x.value for x in ast.walk(t.value) if isinstance(x, ast.Constant) and isinstance(x.value, str)]
                    return cs[-1] if cs else ''
                opened = bool(before) and last_const(before[-1])[-1:] in '{(['
                closed = bool(after) and isinstance(after[0].value, ast.Constant) and str(after[0].value.value)[:1] in '})]'
                if opened and closed:
                    R.ok(oid, inst, site(cx, s))
                else:
                    R.fail(oid, inst, cx.qual, s, f'the items of `{ast.unparse(s.iter)}` are not enclosed by an opening and a closing delimiter in the key: '
                           'different groupings of the same items (two constraints vs one with two options; different argument lists) give the same key and are merged',
                           site(cx, s))
    R.need(n_data >= 5 and n_loops >= 2, f'pattern_movement: only {n_data} stored values / {n_loops} nested lists recognised')
