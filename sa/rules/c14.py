"""C14 — schema validator accepts exactly valid chains (structural part). DESIGN §4 C14."""
import ast

from .common import self_attr, inline_ast, ctx, returns, calls_in_ctx, reach_from_succ, site, srcs_text, const_bool, resolve_call, bound_args, test_awaited_call, explore, full_text, alias_text
from ..flow import callee_attr
from ..loader import AnalysisError, norm, FuncT
from ..verdict import EnumDomain, enum_members, pruned_edges

CC = 'ndn.security.validator.cascade_validator.CascadeChecker'
LV = 'ndn.app_support.light_versec.validator.lvs_validator'
# public-key signature types -> verifier. HMAC is deliberately absent: the key material of the cascade comes from certificates
# (public), so a MAC keyed with it can be forged by anyone (algorithm confusion) and must be refused.
VERIFIER = {'SHA256_WITH_RSA': 'verify_rsa', 'SHA256_WITH_ECDSA': 'verify_ecdsa', 'ED25519': 'verify_ed25519'}
SYMMETRIC = {'HMAC_WITH_SHA256'}
MDA_MODULES = ('ndn.security.validator', 'ndn.app_support.light_versec.validator')


def stateful_default(e):
    if isinstance(e, (ast.List, ast.Dict, ast.Set, ast.ListComp, ast.DictComp, ast.SetComp)):
        return 'mutable literal'
    if isinstance(e, ast.Call):
        fn = ast.unparse(e.func)
        if fn in ('frozenset', 'tuple', 'bytes', 'str', 'int', 'float', 'bool'):
            return None
        return f'object constructed once at definition time: {fn}()'
    return None


def shipped_signer_types(P):
    """SignatureType members written by the signer classes under ndn.security.signer"""
    out = {}
    for q, f in P.funcs.items():
        if q.startswith('ndn.security.signer.') and q.endswith('.write_signature_info'):
            for x in ast.walk(f.node):
                if isinstance(x, ast.Assign) and any(isinstance(t, ast.Attribute) and t.attr == 'signature_type' for t in x.targets) \
                        and isinstance(x.value, ast.Attribute):
                    out[x.value.attr] = q
    return out


def run(R):
    P = R.P
    # ------------------------------------------------------------------ MDA.1
    R.ob('C14.MDA.1', 'no validator constructor/factory has a stateful default argument (one key cache shared by all instances)')
    n = 0
    for q, f in sorted(P.funcs.items()):
        if not q.startswith(MDA_MODULES):
            if R.tier != 'thorough':
                continue
        a = f.node.args
        defaults = list(zip([x.arg for x in (a.posonlyargs + a.args)][-len(a.defaults):], a.defaults)) if a.defaults else []
        defaults += [(k.arg, d) for k, d in zip(a.kwonlyargs, a.kw_defaults) if d is not None]
        for (name, d) in defaults:
            why = stateful_default(d)
            own = q.startswith(MDA_MODULES)
            if own:
                n += 1
            inst = f'{q} :: {name}={norm(d)[:50]}'
            if why and own:
                R.fail('C14.MDA.1', inst, q, f'{name}={ast.unparse(d)}', f'default argument `{name}` is a {why}; every validator built without an '
                       'explicit storage shares it, so a verdict depends on what other instances validated before', f.loc(d))
            elif why:
                R.advisory('C14.MDA.1', f'{q}: default `{name}` is a {why}', f.loc(d))
            elif own:
                R.ok('C14.MDA.1', inst, f.loc(d))
    R.need(n >= 2, f'only {n} default arguments examined in the validator modules')
    R.touch(*(f for q, f in P.funcs.items() if q.startswith(MDA_MODULES)))

    # ------------------------------------------------------------------ EXH.1 / RET.1
    R.ob('C14.EXH.1', '_verify_sig returns the matching verifier\'s result for every key-based signature type with a shipped signer, False otherwise')
    R.ob('C14.RET.1', '_verify_sig -> bool returns a bool on every path')
    vs = ctx(R, CC + '._verify_sig')
    members = enum_members(P, 'ndn.encoding.ndn_format_0_3.SignatureType')
    shipped = shipped_signer_types(P)
    key_based = sorted(m for m in shipped if m not in ('DIGEST_SHA256', 'NULL') and m not in SYMMETRIC)
    R.need(set(key_based) == set(VERIFIER), f'key-based signer types {key_based} differ from the verifier table {sorted(VERIFIER)}')
    R.extra['signature_types'] = {'members': members, 'with_shipped_signer': shipped}
    dom = EnumDomain('SignatureType', members + ['<other>'])
    var = None
    for t in vs.cfg.nodes:
        if t.kind == 'test' and isinstance(t.ast, ast.Compare) and full_text(vs, t.ast.left).endswith('.signature_type'):
            var = ast.unparse(t.ast.left)      # (possibly a local holding it)
    R.need(var, '_verify_sig: no dispatch on signature_type found')
    for m in dom.values:
        removed = pruned_edges(vs, var, dom, m)
        reach = vs.cfg.reachable(removed_edges=removed, follow_exc=False)
        # path-sensitive refinement: under this signature type, locals that are None / not None on the path decide the tests on them
        # (a dispatch helper that returns `None` for "no scheme" and a pair of functions otherwise)
        def _atom(e, m=m):
            if isinstance(e, ast.Compare) and len(e.ops) == 1 and isinstance(e.ops[0], (ast.Eq, ast.NotEq)) and ast.unparse(e.left) == var:
                member = ast.unparse(e.comparators[0]).split('.')[-1]
                if member in dom.values:
                    return (member == m) == isinstance(e.ops[0], ast.Eq)
            return None
        reach = reach & explore(vs, _atom)
        outs = []
        for r in returns(vs):
            if r.id in reach:
                v = r.ast.value
                if isinstance(v, ast.Call) and isinstance(v.func, ast.Name) and vs.cfg.defs_reaching(r, v.func.id):
                    # the function called is a local: which function it is under this signature type (carried in a tuple by the dispatch)
                    srcs_ = vs.sources(r, v.func, live=reach)
                    names_ = sorted({s_.expr if s_.kind == 'free' else (ast.unparse(s_.expr).split('.')[-1] if s_.kind == 'expr' else '?') for s_ in srcs_})
                    outs += names_ or ['?']
                    continue
                outs.append(ast.unparse(v.func).split('.')[-1] if isinstance(v, ast.Call) else ('None' if v is None else ast.unparse(v)))
        if vs.cfg.falloff.id in reach:
            outs.append('<falls off: None>')
        inst = f'{vs.qual} :: {m}'
        want = [VERIFIER[m]] if m in VERIFIER else ['False']
        if sorted(set(outs)) != want:
            R.fail('C14.EXH.1', inst, vs.qual, 'def _verify_sig', f'signature type {m} yields {sorted(set(outs))}, expected {want} '
                   + ('(the verifier\'s verdict must be returned)' if m in VERIFIER else
                      '(a MAC keyed with public certificate content can be forged by anyone: must be refused)' if m in SYMMETRIC else '(must be refused)'),
                   site(vs, vs.f.node))
        else:
            R.ok('C14.EXH.1', inst, site(vs, vs.f.node), str(want))
    R.paths_examined += len(dom.values)
    # verifier arguments: (key derived from pub_key_bits, sig_ptrs)
    for r in returns(vs):
        v = r.ast.value
        if isinstance(v, ast.Call) and ast.unparse(v.func).split('.')[-1] in VERIFIER.values():
            inst = f'{vs.qual} :: {norm(v)}'
            a0 = vs.sources(r, v.args[0]) if v.args else []
            okk = bool(a0) and all((s.kind == 'param' and s.expr == 'pub_key_bits') or
                                   (s.kind == 'expr' and 'import_key' in ast.unparse(s.expr) and 'pub_key_bits' in ast.unparse(s.expr)) for s in a0)
            oks = len(v.args) > 1 and ast.unparse(v.args[1]) == 'sig_ptrs'
            if okk and oks:
                R.ok('C14.EXH.1', inst, site(vs, v))
            else:
                R.fail('C14.EXH.1', inst, vs.qual, v, f'verifier is not applied to (the given key bits, the packet\'s signature pointers): {srcs_text(a0)}',
                       site(vs, v))
    inst = vs.qual + ' :: bool on every path'
    bad = []
    if vs.cfg.falloff.id in vs.cfg.reachable(follow_exc=False):
        bad.append('a path falls off the end (returns None)')
    for r in returns(vs):
        if r.ast.value is None or (isinstance(r.ast.value, ast.Constant) and not isinstance(r.ast.value.value, bool)):
            bad.append(f'`{norm(r.ast)}` is not a bool')
    if bad:
        R.fail('C14.RET.1', inst, vs.qual, 'def _verify_sig', '; '.join(bad), site(vs, vs.f.node))
    else:
        R.ok('C14.RET.1', inst, site(vs, vs.f.node))

    # ------------------------------------------------------------------ MPT.1 validate
    R.ob('C14.MPT.1', 'CascadeChecker.validate: acceptance only through _verify_sig(key_bits, sig_ptrs); key_bits only from the anchor '
                      '(under cert_name == anchor_name), the storage, or a fetch validated by next_level; fetch failures return False')
    va = ctx(R, CC + '.validate')
    inst = va.qual + ' :: returns'
    probs = []
    final = []
    for r in returns(va):
        cb = const_bool(r.ast.value)
        if cb is False:
            continue
        v = r.ast.value
        if isinstance(v, ast.Call) and callee_attr(v) == '_verify_sig' and [ast.unparse(a) for a in v.args] == ['key_bits', 'sig_ptrs']:
            final.append((r, v))
        else:
            probs.append((f'`{norm(r.ast)}` accepts without verifying the signature with the obtained key', r.ast))
    if not final:
        probs.append(('the signature is never verified', va.f.node))
    if va.cfg.falloff.id in va.cfg.reachable(follow_exc=False):
        probs.append(('a path falls off the end', va.f.node))
    for (r, v) in final:
        for s in va.sources(r, v.args[0]):
            t = s.text()
            if s.kind == 'expr' and ast.unparse(s.expr) == 'self.anchor_key':
                tests = [tn for tn in va.cfg.nodes if tn.kind == 'test' and ast.unparse(tn.ast) in ('cert_name == self.anchor_name', 'self.anchor_name == cert_name')]
                if not tests or s.node.id in va.cfg.reachable(removed_edges={(tn.id, True) for tn in tests}):
                    probs.append(('the trust-anchor key is used for a key locator that is not the anchor\'s name', s.node.ast))
            elif s.kind == 'expr' and isinstance(s.expr, ast.Call) and callee_attr(s.expr) == 'load' and ast.unparse(s.expr.func.value) == 'self.storage' \
                    and [ast.unparse(a) for a in s.expr.args] == ['cert_name']:
                pass
            elif s.kind == 'unpack' and s.extra == 2 and 'express_interest' in ast.unparse(s.expr):
                call = [c for c in ast.walk(s.expr) if isinstance(c, ast.Call) and callee_attr(c) == 'express_interest'][0]
                kw = {k_: ast.unparse(v_) for k_, v_ in bound_args(P, s.ctx, call).items()}
                if kw.get('validator') != 'self.next_level':
                    probs.append((f'fetched certificates are validated with {kw.get("validator")}, not with next_level', call))
                if kw.get('name', ast.unparse(call.args[0]) if call.args else None) != 'cert_name':
                    probs.append(('the certificate fetched is not the one named by the key locator', call))
                if kw.get('can_be_prefix') not in (None, 'False'):
                    probs.append(('certificate fetched with CanBePrefix (another certificate could answer)', call))
                # failures
                fn = s.node
                hs = [h for (h, l) in fn.succ if l == 'exc' and h.kind == 'handler']
                names = []
                for h in hs:
                    names += P.handler_names(va.f.mod, h.ast)
                    # from the handler on (path-sensitively: the handler may leave the verdict to a later `if not key_bits: return False`)
                    # only `return False` may be reached, and no signature verification
                    hr = explore(va, lambda e: None, start=h)
                    rr = [x for x in returns(va) if x.id in hr]
                    verif = [n_ for n_ in va.cfg.nodes if n_.id in hr and any(callee_attr(c_) == '_verify_sig' for c_ in n_.calls())]
                    if not rr or any(const_bool(x.ast.value) is not False for x in rr) or verif or va.cfg.falloff.id in hr:
                        probs.append(('a failed certificate fetch does not end in rejection', h.ast))
                for need in ('ndn.types.ValidationFailure', 'ndn.types.InterestTimeout', 'ndn.types.InterestNack'):
                    if not P.caught_by(need, names):
                        probs.append((f'{need.rsplit(".", 1)[1]} of the certificate fetch is not turned into a rejection', call))
            else:
                probs.append((f'key material comes from {t}', s.node.ast if s.node.ast is not None else va.f.node))
    # cert_name = key locator name of the packet being validated
    cds = [v for n_ in va.cfg.nodes for (nm, v) in va.cfg.defs_of(n_) if nm == 'cert_name']
    # (a `cert_name = None` that a following `if cert_name is None: return False` turns into a rejection is the "no key locator" answer of an
    #  expanded helper, not a name)
    none_defs = [v for v in cds if isinstance(v, ast.Constant) and v.value is None]
    if none_defs:
        nt = [t for t in va.cfg.nodes if t.kind == 'test' and ast.unparse(t.ast) in ('cert_name is None', 'cert_name is not None', 'cert_name', 'not cert_name')]
        okn = bool(nt) and all(const_bool(r_.ast.value) is False for t in nt
                               for r_ in returns(va) if r_.id in reach_from_succ(va.cfg, t, ast.unparse(t.ast) in ('cert_name is None', 'not cert_name'),
                                                                                   removed_nodes={x.id for x in va.cfg.nodes if x.kind == 'test' and x is not t}, follow_exc=False))
        if okn:
            cds = [v for v in cds if v not in none_defs]
    if not cds or any(not (isinstance(v, ast.AST) and alias_text(va, v) == 'sig_ptrs.signature_info.key_locator.name') for v in cds):
        probs.append(('cert_name is not the key locator name of the packet', va.f.node))
    # storage.save only with (cert_name, fetched bits)
    for (n_, c) in calls_in_ctx(va, attr='save'):
        fetched = len(c.args) == 2 and all(s_.kind == 'unpack' and s_.extra == 2 and 'express_interest' in ast.unparse(s_.expr) for s_ in va.sources(n_, c.args[1])) \
            and bool(va.sources(n_, c.args[1]))
        if len(c.args) != 2 or ast.unparse(c.args[0]) != 'cert_name' or not (fetched or ast.unparse(c.args[1]) == 'key_bits'):
            probs.append((f'key stored as {norm(c)}', c))
    if probs:
        for (what, construct) in probs:
            R.fail('C14.MPT.1', inst, va.qual, construct if not isinstance(construct, FuncT) else 'def validate', what, site(va, construct))
    else:
        R.ok('C14.MPT.1', inst, site(va, final[0][1]), f'{len(returns(va))} returns; key sources anchor/storage/fetch(next_level)')
    # an unsigned packet / missing key locator is rejected before anything else
    inst = va.qual + ' :: missing key locator rejected'
    first = [t for t in va.cfg.nodes if t.kind == 'test' and not isinstance(t.ast, ast.Compare)
             and ('key_locator' in alias_text(va, t.ast) or alias_text(va, t.ast) == 'sig_ptrs.signature_info')]
    dnode = [n_ for n_ in va.cfg.nodes if any(nm == 'cert_name' and not (isinstance(v_, ast.Constant) and v_.value is None) for nm, v_ in va.cfg.defs_of(n_))]
    if dnode and first and all(dnode[0].id not in va.cfg.reachable(removed_edges={(t.id, True)}) for t in first):
        R.ok('C14.MPT.1', inst, site(va, first[0].ast), f'{len(first)} presence tests')
    else:
        R.fail('C14.MPT.1', inst, va.qual, 'def validate', 'signature info / key locator / name are not all required before the key locator is used',
               site(va, va.f.node))

    # ------------------------------------------------------------------ PRV.1 lvs_validator wiring
    R.ob('C14.PRV.1', 'lvs_validator returns union_checker(validate_name, cascade) and fetched certificates go through that same union; '
                      'union_checker is a conjunction; validate_name is the schema signing check on (name, key locator name)')
    lv = ctx(R, LV)
    inst = LV + ' :: wiring'
    probs = []
    rets = returns(lv)
    unions = [(n_, c) for (n_, c) in calls_in_ctx(lv) if ast.unparse(c.func).endswith('union_checker')]
    if len(unions) != 1:
        probs.append((f'{len(unions)} union_checker calls', lv.f.node))
    else:
        (un, uc) = unions[0]
        args = [ast.unparse(a) for a in uc.args]
        casdefs = [nm for n_ in lv.cfg.nodes for (nm, v) in lv.cfg.defs_of(n_) if isinstance(v, ast.Call) and ast.unparse(v.func).endswith('CascadeChecker')]
        if len(casdefs) != 1 or 'validate_name' not in args or casdefs[0] not in args or len(args) != 2:
            probs.append((f'the union combines {args}, expected the schema name check and the cascade checker', uc))
        uvar = [nm for (nm, v) in lv.cfg.defs_of(un)]
        for r in rets:
            if not uvar or ast.unparse(r.ast.value) != uvar[0]:
                probs.append((f'lvs_validator returns {norm(r.ast)} instead of the union', r.ast))
        nl = [n_ for n_ in lv.cfg.nodes if n_.kind == 'stmt' and isinstance(n_.ast, ast.Assign)
              and any(isinstance(t, ast.Attribute) and t.attr == 'next_level' for t in n_.ast.targets)]
        if not nl or not uvar or ast.unparse(nl[0].ast.value) != uvar[0] or (casdefs and ast.unparse(nl[0].ast.targets[0].value) != casdefs[0]):
            probs.append(('certificates fetched while walking the chain are not checked against the schema (next_level is not the union)',
                          nl[0].ast if nl else lv.f.node))
        elif lv.cfg.exit.id in lv.cfg.reachable(removed_nodes={nl[0].id}, follow_exc=False):
            probs.append(('next_level is not set on every path', nl[0].ast))
        cas = [c for (n_, c) in calls_in_ctx(lv) if ast.unparse(c.func).endswith('CascadeChecker')]
        def _from_param(a_, pname):
            if ast.unparse(a_) == pname:
                return True
            ss_ = lv.sources(lv.node_of(cas[0]), a_) if isinstance(a_, ast.Name) else []
            return bool(ss_) and all((s_.kind == 'param' and s_.expr == pname) or
                                     (pname == 'storage' and s_.kind == 'expr' and isinstance(s_.expr, ast.Call) and ast.unparse(s_.expr.func).endswith('MemoryKeyStorage'))
                                     for s_ in ss_)
        if cas and not (len(cas[0].args) == 3 and all(_from_param(a_, p_) for a_, p_ in zip(cas[0].args, ('app', 'trust_anchor', 'storage')))):
            probs.append((f'cascade checker built from {norm(cas[0])}', cas[0]))
    if probs:
        for (what, construct) in probs:
            R.fail('C14.PRV.1', inst, LV, construct if not isinstance(construct, FuncT) else 'def lvs_validator', what, site(lv, construct))
    else:
        R.ok('C14.PRV.1', inst, site(lv, unions[0][1]))
    def _kl_name(cx_, node_, e_):
        """every binding of e_ that is not None is <..>.key_locator.name"""
        ss_ = [s_ for s_ in cx_.sources(node_, e_) if not (s_.kind == 'expr' and isinstance(s_.expr, ast.Constant) and s_.expr.value is None)] \
            if isinstance(e_, ast.Name) else []
        return bool(ss_) and all(s_.kind == 'expr' and ast.unparse(s_.expr).endswith('.key_locator.name') for s_ in ss_)
    vn = ctx(R, LV + '.<validate_name>')
    inst = vn.qual + ' :: schema signing check'
    probs = []
    for r in returns(vn):
        cb = const_bool(r.ast.value)
        if cb is False:
            continue
        v = r.ast.value
        if not (isinstance(v, ast.Call) and alias_text(vn, v.func) == 'checker.check' and [alias_text(vn, a) for a in v.args][:1] == ['name'] and len(v.args) == 2
                and (alias_text(vn, v.args[1]) == 'cert_name' or 'key_locator.name' in full_text(vn, v.args[1]) or _kl_name(vn, r, v.args[1]))):
            probs.append((f'`{norm(r.ast)}` is not checker.check(name, cert_name)', r.ast))
    # the certificate name handed to the schema check: every binding that can reach the call (bindings to None excluded by the None-test
    # that guards it) is the key locator name of the packet
    for r in returns(vn):
        v = r.ast.value
        if isinstance(v, ast.Call) and ast.unparse(v.func) == 'checker.check' and len(v.args) == 2:
            ss = vn.sources(r, v.args[1])
            if not ss or any(not (s_.kind == 'expr' and alias_text(s_.ctx, s_.expr) == 'sig_ptrs.signature_info.key_locator.name') for s_ in ss):
                probs.append(('cert_name is not the key locator name', vn.f.node))
    if vn.cfg.falloff.id in vn.cfg.reachable(follow_exc=False):
        probs.append(('a path falls off the end', vn.f.node))
    if probs:
        for (what, construct) in probs:
            R.fail('C14.PRV.1', inst, vn.qual, construct if not isinstance(construct, FuncT) else 'def validate_name', what, site(vn, construct))
    else:
        R.ok('C14.PRV.1', inst, site(vn, vn.f.node))
    uw = ctx(R, 'ndn.security.validator.digest_validator.union_checker.<wrapper>')
    inst = uw.qual + ' :: conjunction'
    loops = [n_ for n_ in uw.cfg.nodes if n_.kind == 'for']
    okc = False
    if len(loops) == 1 and ast.unparse(loops[0].ast.iter) == 'args':
        cv = ast.unparse(loops[0].ast.target)
        tests = [t for t in uw.cfg.nodes if t.kind == 'test' and test_awaited_call(uw, t) is not None
                 and ast.unparse(test_awaited_call(uw, t).func) == cv and [ast.unparse(a) for a in test_awaited_call(uw, t).args] == ['name', 'sig']]
        trues = [r for r in returns(uw) if const_bool(r.ast.value) is True]
        falses = [r for r in returns(uw) if const_bool(r.ast.value) is False]
        if len(tests) == 1 and trues and falses and len(trues) + len(falses) == len(returns(uw)):
            # True only after the loop is exhausted; a falsy checker returns False at once
            t = tests[0]
            ok1 = all(r.id not in reach_from_succ(uw.cfg, t, False, removed_nodes={loops[0].id}, follow_exc=False) for r in trues)
            ok2 = all(r.id in uw.cfg.reachable() for r in falses) and \
                loops[0].id not in reach_from_succ(uw.cfg, t, False, follow_exc=False)
            ok3 = all(r.id not in uw.cfg.reachable(removed_edges={(loops[0].id, False)}) for r in trues)
            okc = ok1 and ok2 and ok3
    if okc:
        R.ok('C14.PRV.1', inst, site(uw, loops[0].ast))
    else:
        R.fail('C14.PRV.1', inst, uw.qual, 'def wrapper', 'union_checker does not require every checker to accept (all, in order, stop at the first refusal)',
               site(uw, uw.f.node))

    # ------------------------------------------------------------------ GRD.1 constructor refusals
    R.ob('C14.GRD.1', 'construction is refused unless the anchor is self-signed (verified with its own key) and matches every root of trust; '
                      'user functions must be present')
    ini = ctx(R, CC + '.__init__')
    inst = ini.qual + ' :: anchor self-signature'
    tests = [t for t in ini.cfg.nodes if t.kind == 'test' and isinstance(t.ast, ast.Call) and callee_attr(t.ast) == '_verify_sig']
    probs = []
    if len(tests) != 1:
        probs.append(('the trust anchor\'s own signature is not verified', ini.f.node))
    else:
        t = tests[0]
        rF = reach_from_succ(ini.cfg, t, False, follow_exc=False)
        if ini.cfg.exit.id in rF:
            probs.append(('an anchor that fails verification is accepted', t.ast))
        a = [ast.unparse(x) for x in t.ast.args]
        keysrc = ini.sources(t, t.ast.args[0]) if t.ast.args else []
        okkey = any(s.kind == 'expr' and 'key_bits' in ast.unparse(s.expr) for s in keysrc) or a[:1] == ['self.anchor_key']
        if not okkey or a[1:] != ['sig_ptrs']:
            probs.append((f'anchor verified with {a}', t.ast))
        pd = [v for n_ in ini.cfg.nodes for (nm, v) in ini.cfg.defs_of(n_) if nm == 'key_bits']
        if not pd or not all(isinstance(v, tuple) and v[0] == 'unpack' and v[2] == 2 and 'parse_data(trust_anchor)' in ast.unparse(v[1]) for v in pd):
            probs.append(('the anchor key is not the Content of the trust anchor packet', ini.f.node))
    if probs:
        for (what, construct) in probs:
            R.fail('C14.GRD.1', inst, ini.qual, construct if not isinstance(construct, FuncT) else 'def __init__', what, site(ini, construct))
    else:
        R.ok('C14.GRD.1', inst, site(ini, tests[0].ast))
    sc = ctx(R, LV + '.<sanity_check>')
    inst = sc.qual + ' :: roots of trust and user functions'
    probs = []
    raises = [n_ for n_ in sc.cfg.nodes if n_.kind == 'raise']
    tfn = [t for t in sc.cfg.nodes if t.kind == 'test' and 'validate_user_fns' in ast.unparse(t.ast)]
    tsub = [t for t in sc.cfg.nodes if t.kind == 'test' and 'issubset' in ast.unparse(t.ast)]
    # `<roots of trust>.issubset(<rules the anchor's name matches>)`, whatever the locals are called
    mv = None
    oksub = False
    if tsub and isinstance(tsub[0].ast, ast.Call) and isinstance(tsub[0].ast.func, ast.Attribute) and len(tsub[0].ast.args) == 1 \
            and isinstance(tsub[0].ast.args[0], ast.Name):
        mv = tsub[0].ast.args[0].id
        # the anchor's name: first element of parse_data(trust_anchor)
        nv = [nm for n_ in sc.cfg.nodes for (nm, v) in sc.cfg.defs_of(n_) if isinstance(v, tuple) and len(v) == 3 and v[0] == 'unpack' and v[2] == 0
              and isinstance(v[1], ast.AST) and ast.unparse(v[1]) == 'parse_data(trust_anchor)']
        if len(nv) != 1:
            # ... or its first element taken by subscript: `name = parse_data(trust_anchor)[0]`
            nv = [nm for n_ in sc.cfg.nodes for (nm, v) in sc.cfg.defs_of(n_) if isinstance(v, ast.Subscript) and ast.unparse(v) == 'parse_data(trust_anchor)[0]']
        nv = nv[0] if len(nv) == 1 else 'cert_name'

        def _fills(tree):
            return any((isinstance(x, ast.Call) and callee_attr(x) in ('append', 'extend') and ast.unparse(x.func.value) == mv) or
                       (isinstance(x, ast.AugAssign) and ast.unparse(x.target) == mv) or
                       (isinstance(x, ast.Assign) and any(ast.unparse(t_) == mv for t_ in x.targets)) for x in ast.walk(tree))
        built = [n_ for n_ in sc.cfg.nodes if n_.ast is not None and f'checker.match({nv})' in ast.unparse(n_.ast) and (
            any(nm == mv for (nm, _) in sc.cfg.defs_of(n_)) or _fills(n_.stmt if n_.stmt is not None else n_.ast))]
        oksub = full_text(sc, tsub[0].ast.func.value) == 'checker.root_of_trust()' and bool(built)
    tnon = [t for t in sc.cfg.nodes if t.kind == 'test' and mv is not None and ast.unparse(t.ast) == mv]
    if not tfn or sc.cfg.exit.id in reach_from_succ(sc.cfg, tfn[0], False, follow_exc=False):
        probs.append('missing user functions are not refused')
    if not tsub or not oksub or sc.cfg.exit.id in reach_from_succ(sc.cfg, tsub[0], False, follow_exc=False):
        probs.append('an anchor that does not match every root of trust is not refused')
    if not tnon or sc.cfg.exit.id in reach_from_succ(sc.cfg, tnon[0], False, follow_exc=False):
        probs.append('an anchor matching no rule is not refused')
    calls = [c for (n_, c) in calls_in_ctx(lv) if isinstance(c.func, ast.Name) and c.func.id in ('sanity_check', sc.f.node.name)]
    cas = [n_ for (n_, c) in calls_in_ctx(lv) if ast.unparse(c.func).endswith('CascadeChecker')]
    if len(calls) != 1 or not cas or not lv.cfg.dominates(lv.node_of(calls[0]), cas[0]):
        probs.append('sanity_check() is not run before the validator is built')
    if probs:
        R.fail('C14.GRD.1', inst, sc.qual, 'def sanity_check', '; '.join(probs), site(sc, sc.f.node))
    else:
        R.ok('C14.GRD.1', inst, site(sc, sc.f.node))
    # the per-link schema test is Checker.check: the structural obligations of the matcher it relies on (shared with C11 / C12)
    from .lvs import match_rules
    R.ob('C14.LVS.1', 'the schema check applied to every link binds every named pattern, compares repeated patterns, evaluates edge constraints and '
                      'undoes bindings on backtracking (obligations of Checker._match shared with C11 / C12)')
    match_rules(R, {'MPT.3': 'C14.LVS.1', 'MPT.4': 'C14.LVS.1', 'TBL.1c': 'C14.LVS.1', 'REL.1': 'C14.LVS.1'})
    # validated keys are remembered per validator: the key store a CascadeChecker falls back to keeps its state on the instance
    R.ob('C14.PRV.2', 'a key store remembers validated keys per instance (no cache shared between validators with different anchors or schemas)')
    CV = 'ndn.security.validator.cascade_validator'
    nst = 0
    for (m_, c_), cls in sorted(P.classes.items()):
        if m_ != CV or not any(b == (CV, 'PublicKeyStorage') for b in P.mro(m_, c_)[1:]):
            continue
        nst += 1
        inst = f'{m_}.{c_} :: per-instance state'
        init = [f_ for f_ in cls.body if isinstance(f_, ast.FunctionDef) and f_.name == '__init__']
        own = {t.attr for f_ in init for x in ast.walk(f_) if isinstance(x, ast.Assign) for t in x.targets
               if isinstance(t, ast.Attribute) and isinstance(t.value, ast.Name) and t.value.id == 'self'}

        def tname(s_):
            t = s_.targets[0] if isinstance(s_, ast.Assign) else s_.target
            return t.id if isinstance(t, ast.Name) else None
        shared = [s_ for s_ in cls.body if isinstance(s_, (ast.Assign, ast.AnnAssign)) and getattr(s_, 'value', None) is not None
                  and isinstance(s_.value, (ast.Dict, ast.List, ast.Set, ast.Call, ast.DictComp, ast.ListComp)) and tname(s_) not in own]
        if shared:
            R.fail('C14.PRV.2', inst, f'{m_}.{c_}', shared[0], f'`{ast.unparse(shared[0])[:60]}` is a class attribute: every {c_} (and so every validator built '
                   'with the default storage) shares it, and a key validated under one trust anchor / schema is accepted under another', P.path_of(m_))
        else:
            R.ok('C14.PRV.2', inst, P.path_of(m_))
    # ... and under the full certificate name: a cache entry stands for "this certificate was fetched and validated", so the key it is filed
    # under must distinguish every certificate name (no slice / truncation of the name), and load and save must file alike
    for (m_, c_), cls in sorted(P.classes.items()):
        if m_ != CV or not any(b == (CV, 'PublicKeyStorage') for b in P.mro(m_, c_)[1:]):
            continue
        keys = {}
        for meth in ('load', 'save'):
            q = f'{m_}.{c_}.{meth}'
            if q not in P.funcs:
                continue
            mx = ctx(R, q)
            pname = mx.f.node.args.args[1].arg if len(mx.f.node.args.args) > 1 else None
            for n_ in mx.cfg.nodes:
                if n_.ast is None:
                    continue
                for x in ast.walk(n_.ast):
                    k = None
                    if isinstance(x, ast.Subscript) and self_attr(x.value):
                        k = x.slice
                    elif isinstance(x, ast.Call) and callee_attr(x) in ('get', 'pop', 'setdefault') and self_attr(x.func.value) and x.args:
                        k = x.args[0]
                    if k is not None:
                        keys.setdefault(meth, []).append((mx, n_, k, pname))
        if not keys:
            continue        # a store without a table (EmptyKeyStorage)
        inst = f'{m_}.{c_} :: filed under the full certificate name'
        probs = []
        texts = {}
        for meth, lst in keys.items():
            for (mx, n_, k, pname) in lst:
                t = full_text(mx, k)
                kk = inline_ast(mx, k)
                if isinstance(kk, ast.Call) and self_attr(kk.func) and len(kk.args) == 1:
                    # a one-expression helper method of the store (`def _key(self, name): return Name.to_bytes(name)`) used in expression position
                    hq = f'{m_}.{c_}.{kk.func.attr}'
                    hf = P.funcs.get(hq) or (getattr(P, 'absorbed_funcs', {}) or {}).get(hq)
                    body_ = [b_ for b_ in hf.node.body if not (isinstance(b_, ast.Expr) and isinstance(b_.value, ast.Constant))] if hf else []
                    hps = [a_.arg for a_ in hf.node.args.args if a_.arg not in ('self', 'cls')] if hf else []
                    if len(body_) == 1 and isinstance(body_[0], ast.Return) and len(hps) == 1:
                        hp = hps[0]
                        import copy as _cp

                        class _S(ast.NodeTransformer):
                            def visit_Name(self, n):
                                return _cp.deepcopy(kk.args[0]) if n.id == hp else n
                        k = _S().visit(_cp.deepcopy(body_[0].value))
                        t = full_text(mx, k)
                texts.setdefault(meth, set()).add(t.replace(pname or '\0', '<name>'))
                cut = [y for y in ast.walk(inline_ast(mx, k)) if isinstance(y, ast.Subscript) and isinstance(y.value, ast.Name) and y.value.id == pname]
                if pname is None or pname not in {y.id for y in ast.walk(inline_ast(mx, k)) if isinstance(y, ast.Name)}:
                    probs.append((mx, k, f'{meth}: the table key `{t}` does not depend on the certificate name'))
                elif cut:
                    probs.append((mx, k, f'{meth}: the table key `{t}` is computed from a part of the certificate name (`{ast.unparse(cut[0])}`): certificates '
                                  'that differ only in the rest share an entry, so a certificate that was never fetched (or cannot be retrieved) is taken '
                                  'as validated once another certificate of the same key was'))
        if not probs and len(texts) == 2 and texts['load'] != texts['save']:
            probs.append((keys['load'][0][0], keys['load'][0][2], f'load looks under {sorted(texts["load"])}, save files under {sorted(texts["save"])}'))
        if probs:
            for (mx, k, what) in probs:
                R.fail('C14.PRV.2', inst, mx.qual, k, what, site(mx, k))
        else:
            R.ok('C14.PRV.2', inst, P.path_of(m_))
    # the verdict depends on the packet, the schema, the anchor and the retrievable certificates only: validate() keeps no working state on the
    # checker object that its own decisions read (validations run concurrently - every fetch is an await - and would see each other's state)
    R.ob('C14.PRV.3', 'CascadeChecker.validate decides nothing by instance state that it writes itself (concurrent validations of one validator are independent)')
    vx = ctx(R, CC + '.validate')
    written = {}
    for n_ in vx.cfg.nodes:
        if n_.kind == 'stmt' and isinstance(n_.ast, (ast.Assign, ast.AugAssign, ast.AnnAssign)):
            tg = n_.ast.targets if isinstance(n_.ast, ast.Assign) else [n_.ast.target]
            for t in tg:
                if self_attr(t):
                    written.setdefault(t.attr, n_)
    read_in_tests = {}
    for n_ in vx.cfg.nodes:
        if n_.kind == 'test':
            for x in ast.walk(n_.ast):
                if self_attr(x) and x.attr in written:
                    read_in_tests.setdefault(x.attr, n_)
    inst = f'{CC}.validate :: no self-written state decides the verdict'
    if read_in_tests:
        a = sorted(read_in_tests)[0]
        R.fail('C14.PRV.3', inst, CC + '.validate', read_in_tests[a].ast, f'self.{a} is written by validate() (`{norm(written[a].ast)}`) and tested by it '
               f'(`{norm(read_in_tests[a].ast)}`): the state belongs to the checker, not to the chain being walked, so validations that overlap in time '
               '(each certificate fetch is an await) count into each other and the verdict for a packet depends on what else is being validated',
               site(vx, read_in_tests[a].ast))
    else:
        R.ok('C14.PRV.3', inst, site(vx, vx.f.node), f'attributes written: {sorted(written)}')
    R.need(nst >= 2, f'only {nst} key storage classes found')
    R.assumptions += ['Cryptodome verifiers are sound', 'Checker.check / match semantics (C11, C12)', 'certificate retrieval behaviour is not decided']
