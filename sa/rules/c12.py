"""C12 — the signing check (DESIGN §4 C12)."""
import ast

from .common import ctx, returns, calls_in_ctx, site, reach_from_succ, bulk_appends, explore, full_text, root_params
from .lvs import merge_key_rule, match_rules, CK, CP, last_component_guarded, eq_label
from ..flow import callee_attr
from ..loader import AnalysisError, norm


def run(R):
    P = R.P
    R.ob('C12.MPT.1', 'every pattern-edge traversal (also for a pattern bound while matching the packet) evaluates the edge\'s constraints')
    R.ob('C12.MPT.4', 'a pattern bound by the packet match only matches an equal component of the key name')
    R.ob('C12.TBL.1', 'every named pattern (tags 1..named_pattern_cnt) bound by the packet match is carried into the key match')
    R.ob('C12.REL.1', 'bindings made while matching are undone exactly when the matcher backs out of the edge that made them (a later alternative is '
                      'neither matched under a stale binding nor without one it should have)')
    match_rules(R, {'MPT.3': 'C12.MPT.1', 'MPT.4': 'C12.MPT.4', 'TBL.1c': 'C12.TBL.1', 'REL.1': 'C12.REL.1'})
    ck = ctx(R, CK + '.Checker.check')
    R.ob('C12.PRV.1', 'check(): the key name is matched under the bindings of the packet match; yes only if the key node is a signer of the packet node')
    loops = [n for n in ck.cfg.nodes if n.kind == 'for' and isinstance(n.ast.iter, ast.Call) and callee_attr(n.ast.iter) == '_match']
    inst = ck.qual + ' :: nested match'
    probs = []
    # role-based, whatever the shape: no match of the *key* name may start from an empty context (it must start from what a packet match bound)
    ckp0 = [a_.arg for a_ in ck.f.node.args.args][1:3]
    for (n_, c_) in calls_in_ctx(ck, attr='_match'):
        if len(c_.args) == 2 and root_params(ck, n_, c_.args[0]) == {ckp0[1]}:
            ca = c_.args[1]
            fresh = (isinstance(ca, ast.Dict) and not ca.keys) or (isinstance(ca, ast.Call) and ast.unparse(ca.func) == 'dict' and not ca.args and not ca.keywords)
            if isinstance(ca, ast.Name):
                srcs = ck.sources(n_, ca)
                fresh = bool(srcs) and all(s_.kind == 'expr' and isinstance(s_.expr, ast.Dict) and not s_.expr.keys for s_ in srcs)
            if fresh:
                R.fail('C12.PRV.1', inst + ' (key matched without the packet\'s bindings)', ck.qual, c_, f'`{ast.unparse(c_)}` matches the key name under an empty '
                       'context: a key rule whose constraints refer to a pattern bound by the packet name cannot be satisfied (or is satisfied by a key that '
                       'disagrees with the packet) when that pattern is unbound, so the answer is decided without the bindings the signing relation is about',
                       site(ck, c_))
    if len(loops) != 2:
        raise AnalysisError(f'Checker.check: {len(loops)} loops over _match(...) found; the nested packet / key match is not in a recognised form')
    else:
        outer, inner = sorted(loops, key=lambda n: n.id)
        oa = [ast.unparse(a) for a in outer.ast.iter.args]
        ia = [ast.unparse(a) for a in inner.ast.iter.args]
        ot = [ast.unparse(e) for e in outer.ast.target.elts] if isinstance(outer.ast.target, ast.Tuple) else []
        it = [ast.unparse(e) for e in inner.ast.target.elts] if isinstance(inner.ast.target, ast.Tuple) else []
        ckp = [a_.arg for a_ in ck.f.node.args.args][1:3]      # (packet name, key name) parameters
        orp = root_params(ck, outer, outer.ast.iter.args[0]) if outer.ast.iter.args else set()
        irp = root_params(ck, inner, inner.ast.iter.args[0]) if inner.ast.iter.args else set()
        if len(oa) != 2 or orp != {ckp[0]} or oa[1] != '{}':
            probs.append((f'the packet name is matched as _match({", ".join(oa)})', outer.ast.iter))
        if len(ot) != 2 or len(ia) != 2 or irp != {ckp[1]} or ia[1] != (ot[1] if len(ot) == 2 else '?'):
            probs.append((f'the key name is matched as _match({", ".join(ia)}) instead of under the bindings of the packet match', inner.ast.iter))
        if not any(x is inner.ast for x in ast.walk(outer.ast)):
            probs.append(('the key match is not nested in the packet match', inner.ast))
        trues = [r for r in returns(ck) if isinstance(r.ast.value, ast.Constant) and r.ast.value.value is True]
        others = [r for r in returns(ck) if r not in trues]
        mem = [t for t in ck.cfg.nodes if t.kind == 'test' and isinstance(t.ast, ast.Compare) and isinstance(t.ast.ops[0], ast.In)]
        if len(it) == 2 and len(ot) == 2:
            # read through locals (`pkt_node = self.model.nodes[id]`, `allowed = pkt_node.sign_cons`)
            okmem = len(mem) == 1 and ast.unparse(mem[0].ast.left) == it[0] and full_text(ck, mem[0].ast.comparators[0]) == f'self.model.nodes[{ot[0]}].sign_cons'
            if not okmem:
                probs.append(('the signer test is not `<key node> in <packet node>.sign_cons`', mem[0].ast if mem else ck.f.node))
            elif not trues or any(r.id in explore(ck, lambda e: False if e is mem[0].ast else None) for r in trues):
                # (path-sensitive: with the membership test false - boolean flags followed - no `return True` is reachable)
                probs.append(('yes can be answered without the key node being a listed signer', trues[0].ast if trues else ck.f.node))
        if not others or any(not (isinstance(r.ast.value, ast.Constant) and r.ast.value.value is False) for r in others):
            probs.append(('the default answer is not False', ck.f.node))
        if ck.cfg.falloff.id in ck.cfg.reachable(follow_exc=False):
            probs.append(('a path falls off the end', ck.f.node))
    if probs:
        for (what, construct) in probs:
            R.fail('C12.PRV.1', inst, ck.qual, construct if not isinstance(construct, ast.FunctionDef) else 'def check', what, site(ck, construct))
    else:
        R.ok('C12.PRV.1', inst, site(ck, loops[0].ast))
    # ------------------------------------------------------------------ SIB.1 normalisation and digest strip
    R.ob('C12.SIB.1', 'both names are normalised and a trailing implicit-digest component is ignored on either')
    params = [a_.arg for a_ in ck.f.node.args.args][1:3]
    calls2 = sorted(loops, key=lambda n: n.id)
    for par, lp in zip(params, calls2):
        inst = f'{ck.qual} :: {par}'
        arg = lp.ast.iter.args[0]
        srcs = ck.sources(lp, arg)
        strips, plain, bad = [], [], []
        for s_ in srcs:
            e_ = s_.expr if s_.kind == 'expr' else None
            if isinstance(e_, ast.Subscript) and isinstance(e_.slice, ast.Slice) and e_.slice.lower is None and ast.unparse(e_.slice.upper or ast.Constant(0)) == '-1':
                inner_ = s_.ctx.sources(s_.node, e_.value)
                if inner_ and all(i_.kind == 'expr' and ast.unparse(i_.expr) == f'Name.normalize({par})' for i_ in inner_):
                    strips.append(s_)
                else:
                    bad.append(s_)
            elif isinstance(e_, ast.Call) and ast.unparse(e_) == f'Name.normalize({par})':
                plain.append(s_)
            else:
                bad.append(s_)
        # with a non-empty name ending in an implicit digest, the match is reached only through the stripping assignment

        def digest_case(e):
            if isinstance(e, ast.Compare) and len(e.ops) == 1 and isinstance(e.ops[0], (ast.In, ast.NotIn)) and 'get_type(' in full_text(ck, e.left):
                from ..loader import NOVALUE
                from .common import inline_ast
                v = P.const_value(ck.f.mod, inline_ast(ck, e).comparators[0])
                if v is not NOVALUE:
                    return (1 in set(v)) == isinstance(e.ops[0], ast.In)
            if isinstance(e, ast.Compare) and len(e.ops) == 1 and isinstance(e.ops[0], (ast.Eq, ast.NotEq)) and 'TYPE_IMPLICIT_SHA256' in full_text(ck, e) \
                    and 'get_type(' in full_text(ck, e):
                return isinstance(e.ops[0], ast.Eq)
            if isinstance(e, ast.Name) and any(i_.kind == 'expr' and 'Name.normalize(' in ast.unparse(i_.expr) for n_ in ck.cfg.nodes if n_.kind == 'test' and n_.ast is e
                                               for i_ in ck.sources(n_, e)):
                return True
            return None
        reach = explore(ck, digest_case, stop={s_.node.id for s_ in strips})
        ok = bool(strips) and not bad and lp.id not in reach
        if ok:
            R.ok('C12.SIB.1', inst, site(ck, strips[0].node.ast))
        else:
            R.fail('C12.SIB.1', inst, ck.qual, lp.ast.iter, f'{par} is not normalised and stripped of a trailing implicit digest before matching', site(ck, ck.f.node))
    from .lvs import digest_strip_types
    digest_strip_types(R, 'C12.SIB.1', ck)
    R.ob('C12.NUL.1', 'the empty name is a name: its (absent) last component is not inspected')
    last_component_guarded(R, 'C12.NUL.1', ck)
    mt = ctx(R, CK + '.Checker.match')
    tests = [t for t in mt.cfg.nodes if t.kind == 'test' and 'TYPE_IMPLICIT_SHA256' in ast.unparse(t.ast)]
    inst = mt.qual + ' :: name'
    if tests and any(ast.unparse(n.ast.value) == 'Name.normalize(name)' for n in mt.cfg.nodes if n.kind == 'stmt' and isinstance(n.ast, ast.Assign)):
        R.ok('C12.SIB.1', inst, site(mt, tests[0].ast))
    else:
        R.fail('C12.SIB.1', inst, mt.qual, 'def match', 'match() does not normalise / strip the implicit digest like check()', site(mt, mt.f.node))
    # ------------------------------------------------------------------ GRD.1 signing references
    R.ob('C12.GRD.1', 'every signer rule name is replaced by all node ids of that rule; an unknown signer rule is an error')
    fx = ctx(R, CP + '.Compiler._fix_signing_references')
    inst = fx.qual + ' :: rule names -> node ids'
    probs = []
    outer = [n for n in fx.cfg.nodes if n.kind == 'for' and ast.unparse(n.ast.iter) == 'self.node_pool']
    if len(outer) != 1 or any(isinstance(x, (ast.Break, ast.Return)) for x in ast.walk(outer[0].ast)):
        probs.append(('not every node has its signing references resolved', fx.f.node))
    ext = bulk_appends(fx)
    if len(ext) != 1 or ast.unparse(ext[0][2]) != 'self.rule_node_ids[rid]':
        probs.append(('a signer rule is not mapped to all of its nodes', ext[0][0].ast if ext else fx.f.node))
    raises = [n for n in fx.cfg.nodes if n.kind == 'raise']
    tests = [t for t in fx.cfg.nodes if t.kind == 'test' and ast.unparse(t.ast) in ('rid not in self.rule_node_ids', 'rid in self.rule_node_ids')]
    if not raises or not tests or any(P.exc_name(fx.f.mod, r.ast.exc) != CP + '.SemanticError' for r in raises):
        probs.append(('an unknown signer rule is not reported as SemanticError', fx.f.node))
    st = [n for n in fx.cfg.nodes if n.kind == 'stmt' and isinstance(n.ast, ast.Assign) and ast.unparse(n.ast.targets[0]) == 'node.sign_cons']
    if len(st) != 1 or 'new_sign_cons' not in ast.unparse(st[0].ast.value):
        probs.append(('resolved ids are not stored back', fx.f.node))
    if probs:
        for (what, construct) in probs:
            R.fail('C12.GRD.1', inst, fx.qual, construct if not isinstance(construct, ast.FunctionDef) else 'def _fix_signing_references', what, site(fx, construct))
    else:
        R.ok('C12.GRD.1', inst, site(fx, outer[0].ast))
    gn = ctx(R, CP + '.Compiler._generate_node')
    inst = gn.qual + ' :: every node ending a rule chain is recorded for that rule'
    rec = [n for n in gn.cfg.nodes if n.kind == 'stmt' and isinstance(n.ast, ast.Assign) and ast.unparse(n.ast.targets[0]) == 'self.rule_node_ids[rc.id]'] + \
          [n for (n, c) in calls_in_ctx(gn, attr='append') if ast.unparse(c.func.value) in ('self.rule_node_ids[rc.id]', 'self.rule_node_ids.setdefault(rc.id, [])')]
    endt = [t for t in gn.cfg.nodes if t.kind == 'test' and eq_label(t.ast, 'depth', 'len(rc.name)') is not None]
    endlab = eq_label(endt[0].ast, 'depth', 'len(rc.name)') if endt else True      # the edge on which the chain ends at this depth
    scn = [n for (n, rv, it) in bulk_appends(gn) if ast.unparse(rv) == 'node.sign_cons' and ast.unparse(it) == 'rc.sign_cons']
    sc = scn
    unconditional = False
    if len(endt) == 1 and scn:
        lp = [n for n in gn.cfg.nodes if n.kind == 'for' and any(x is endt[0].ast for x in ast.walk(n.ast))]
        # every chain ending here contributes its signers: the next iteration cannot be reached without passing the extend
        unconditional = bool(lp) and lp[0].id not in reach_from_succ(gn.cfg, endt[0], endlab, removed_nodes={scn[0].id}, follow_exc=False)
    recorded = False
    if rec and len(endt) == 1:
        lp_ = [n for n in gn.cfg.nodes if n.kind == 'for' and any(x is endt[0].ast for x in ast.walk(n.ast))]
        # every chain ending here is recorded for its rule: the next iteration cannot be reached without passing a recording statement
        recorded = bool(lp_) and lp_[0].id not in reach_from_succ(gn.cfg, endt[0], endlab, removed_nodes={r.id for r in rec}, follow_exc=False)
    if recorded and len(endt) == 1 and sc and unconditional and all(r.id not in gn.cfg.reachable(removed_edges={(endt[0].id, endlab)}) for r in rec):
        R.ok('C12.GRD.1', inst, site(gn, endt[0].ast))
    else:
        R.fail('C12.GRD.1', inst, gn.qual, endt[0].ast if endt else 'def _generate_node', 'nodes where a rule ends are not all recorded / do not inherit the rule\'s signers',
               site(gn, gn.f.node))
    cm = ctx(R, CP + '.Compiler.compile')
    order = [callee_attr(c) for (n, c) in sorted(calls_in_ctx(cm, pred=lambda c: isinstance(c.func, ast.Attribute) and ast.unparse(c.func.value) == 'self'), key=lambda x: x[0].id)]
    inst = cm.qual + ' :: pass order'
    want = ['_sort_rule_references', '_gen_pattern_numbers', '_replicate_rules', '_generate_node', '_fix_signing_references']
    if order == want:
        R.ok('C12.GRD.1', inst, site(cm, cm.f.node), ' -> '.join(order))
    else:
        R.fail('C12.GRD.1', inst, cm.qual, 'def compile', f'compiler passes run as {order}', site(cm, cm.f.node))
    R.ob('C12.SIG.1', 'trie-edge merge key of a rule chain spells out every stored constraint value, with nested lists bracketed (chains are merged only when their constraints are equal)')
    merge_key_rule(R, 'C12.SIG.1')
    # which signers a rule has after rule references are expanded is decided by the C11 rule on _replicate_rules
    from .common import shared_obligations
    R.ob('C12.SHR.1', 'shared with C11: expanding a rule reference keeps the signers of the referring rule only (a referenced rule lends its name '
                      'and constraints, not its signers)')
    shared_obligations(R, 'C12.SHR.1', 'C11', {'C11.PRV.1': None})
    R.assumptions += ['the relation over all schema / name pairs is not decided; only the structure of check() and of the reference fix-up']
