"""C07 — packet decoders accept exactly the well-formed packets (structural part). DESIGN §4 C07."""
import ast

from .common import ctx, returns, calls_in_ctx, reach_from_succ, site, srcs_text, escape_check, resolve_call, truthy_label, full_text, alias_text, orient, explore
from .lvs import raising_edge, cmp_sides
from ..flow import callee_attr
from ..loader import AnalysisError, norm, FuncT
from ..models import models_of
from ..tlvtables import uint_tables, compare_uint, varnum_tables, compare_varnum

TM = 'ndn.encoding.tlv_model'
PARSE = TM + '.TlvModel.parse'
DECODERS = ['ndn.encoding.ndn_format_0_3.parse_interest', 'ndn.encoding.ndn_format_0_3.parse_data',
            'ndn.encoding.ndnlp_v2.parse_lp_packet_v2', 'ndn.app_support.security_v2.parse_certificate', 'ndn.encoding.name.Name.from_bytes']
DOCUMENTED = {'ndn.encoding.tlv_model.DecodeError', 'IndexError', 'ValueError', 'struct.error', 'TypeError'}
# NDN packet format 0.3 element order (wire-emitting fields); compared as order-preserving subsequence
SPEC_ORDER = {
    'ndn.encoding.ndn_format_0_3.InterestPacketValue': [0x07, 0x21, 0x12, 0x1e, 0x0a, 0x0c, 0x22, 0x24, 0x2c, 0x2e],
    'ndn.encoding.ndn_format_0_3.DataPacketValue': [0x07, 0x14, 0x15, 0x16, 0x17],
    'ndn.encoding.ndn_format_0_3.MetaInfo': [0x18, 0x19, 0x1a],
    'ndn.encoding.ndn_format_0_3.SignatureInfo': [0x1b, 0x1c, 0x26, 0x28, 0x2a],
    'ndn.encoding.ndn_format_0_3.KeyLocator': [0x07, 0x1d],
    'ndn.app_support.security_v2.ValidityPeriod': [0xfe, 0xff],
}


def scan_loop_rules(R, oid):
    P = R.P
    pr = ctx(R, PARSE)
    inst = PARSE + ' :: field search starts at field_pos and stops at the first field of that type'
    # the type comparison `<fields>[<idx>].type_num == typ`; <idx> starts at field_pos: `idx = field_pos` before a counting loop, or
    # `for idx in range(field_pos, len(<fields>))`
    eqs, starts_ok, exhausted_bad = [], False, False
    nfields0 = full_text(pr, ast.parse('len(ret._encoded_fields)', mode='eval').body)
    for t in pr.cfg.nodes:
        if t.kind != 'test' or not (isinstance(t.ast, ast.Compare) and len(t.ast.ops) == 1 and isinstance(t.ast.ops[0], ast.Eq)):
            continue
        sides = [t.ast.left, t.ast.comparators[0]]
        tn = [x for x in sides if isinstance(x, ast.Attribute) and x.attr == 'type_num' and isinstance(x.value, ast.Subscript)
              and alias_text(pr, x.value.value) == 'ret._encoded_fields' and isinstance(x.value.slice, ast.Name)]
        ty = [x for x in sides if isinstance(x, ast.Name) and x.id == 'typ']
        if len(tn) == 1 and len(ty) == 1:
            eqs.append(t)
            idx = tn[0].value.slice.id
            for (d, v) in pr.cfg.defs_reaching(t, idx):
                if isinstance(v, ast.Name) and v.id == 'field_pos':
                    starts_ok = True
                elif isinstance(v, tuple) and v and v[0] == 'iter' and isinstance(v[1], ast.Call) and ast.unparse(v[1].func) == 'range' and len(v[1].args) == 2 \
                        and ast.unparse(v[1].args[0]) == 'field_pos' and full_text(pr, v[1].args[1]) == nfields0:
                    # a `for` over the range leaves the index on the last field when nothing matched: on the way from the exhausted loop to
                    # the found-test the index has to be set to "not found" (`else: i = len(fields)`, or the same after the loop)
                    starts_ok = True
                    marks = {n_.id for n_ in pr.cfg.nodes if n_.kind == 'stmt' and isinstance(n_.ast, ast.Assign) and len(n_.ast.targets) == 1
                             and isinstance(n_.ast.targets[0], ast.Name) and full_text(pr, n_.ast.value) == nfields0}
                    after = reach_from_succ(pr.cfg, d, False, removed_nodes=marks, follow_exc=False)
                    for t2 in pr.cfg.nodes:
                        if t2.kind == 'test' and isinstance(t2.ast, ast.Compare) and len(t2.ast.ops) == 1 and t2.id in after:
                            sides2 = [t2.ast.left, t2.ast.comparators[0]]
                            if any(full_text(pr, a_) == nfields0 and isinstance(b_, ast.Name) and b_.id == idx and full_text(pr, b_) != nfields0
                                   for (a_, b_) in (sides2, sides2[::-1])):
                                exhausted_bad = True
    if exhausted_bad and len(eqs) == 1:
        R.fail(oid, inst, PARSE, eqs[0].ast, 'the search is a `for` over the remaining fields that does not mark "not found" when it is exhausted: the index is left '
               'on the last field, so an unknown element is decoded as that field instead of being skipped / refused', site(pr, eqs[0].ast))
    elif starts_ok and len(eqs) == 1:
        R.ok(oid, inst, site(pr, eqs[0].ast))
    else:
        R.fail(oid, inst, PARSE, eqs[0].ast if eqs else 'def parse', 'the search for the field of a received type does not start at the current position '
               '(a repeated or out-of-order element would be accepted as a known field)', site(pr, pr.f.node))
    adv = [n for n in pr.cfg.nodes if n.kind == 'stmt' and isinstance(n.ast, ast.Assign) and ast.unparse(n.ast.targets[0]) == 'field_pos']
    rep_t = [t for t in pr.cfg.nodes if t.kind == 'test' and ast.unparse(t.ast) == 'isinstance(cur_field, RepeatedField)']
    map_t = [t for t in pr.cfg.nodes if t.kind == 'test' and ast.unparse(t.ast) == 'isinstance(cur_field, MapField)']
    inst = PARSE + ' :: position advances past a found field unless it is repeated / a map'
    probs = []
    plus = [n for n in adv if ast.unparse(n.ast.value) == 'i + 1']
    keep = [n for n in adv if ast.unparse(n.ast.value) == 'i']
    zero = [n for n in adv if ast.unparse(n.ast.value) == '0']
    other = [n for n in adv if n not in plus + keep + zero]
    if not rep_t or not map_t:
        probs.append(('repeated / map fields are not told apart from single ones', pr.f.node))
    else:
        rm = {(rep_t[0].id, True), (map_t[0].id, True)}
        for n in plus:
            if n.id not in pr.cfg.reachable(removed_edges=rm):
                probs.append(('a repeated or map field moves the position past itself (a second element would be refused)', n.ast))
        for n in keep:
            if n.id in pr.cfg.reachable(removed_edges=rm):
                probs.append(('a single-valued field does not advance the position: the same critical element is accepted twice', n.ast))
        if not plus:
            probs.append(('the position never advances past a decoded field: duplicates are accepted', pr.f.node))
        for n in other:
            probs.append((f'position set to {ast.unparse(n.ast.value)}', n.ast))
    if probs:
        for (what, construct) in probs:
            R.fail(oid, inst, PARSE, construct if not isinstance(construct, FuncT) else 'def parse', what, site(pr, construct))
    else:
        R.ok(oid, inst, site(pr, plus[0].ast))
    # critical rule in the not-found branch
    # "found" test: the search index against the number of fields, either polarity; found_lab = edge taken when a field was found
    nfields = full_text(pr, ast.parse('len(ret._encoded_fields)', mode='eval').body)
    found_t, found_lab = [], {}
    for t in pr.cfg.nodes:
        o = orient(t.ast, lambda e: isinstance(e, ast.Name) and e.id == 'i') if t.kind == 'test' and isinstance(t.stmt, ast.If) else None
        if o is not None and full_text(pr, o.comparators[0]) == nfields:
            if isinstance(o.ops[0], ast.Lt):
                found_t.append(t)
                found_lab[t.id] = True
            elif isinstance(o.ops[0], (ast.GtE, ast.Eq)):
                found_t.append(t)
                found_lab[t.id] = False
    ODD = {'typ & 1 == 1': True, 'typ & 1': True, 'typ % 2 == 1': True, 'typ % 2': True, 'typ & 1 != 0': True, 'typ % 2 != 0': True,
           'typ & 1 != 1': False, 'typ & 1 == 0': False, 'typ % 2 == 0': False, 'typ % 2 != 1': False}      # edge on which the type is critical (odd)
    crit = [t for t in pr.cfg.nodes if t.kind == 'test' and ast.unparse(t.ast) in ODD]
    odd = ODD[ast.unparse(crit[0].ast)] if crit else True
    ign = [t for t in pr.cfg.nodes if t.kind == 'test' and ast.unparse(t.ast) == 'ignore_critical']
    inst = PARSE + ' :: unknown critical element raises DecodeError, non-critical is skipped'
    probs = []
    if len(found_t) == 0 and len(crit) == 1 and len(ign) == 1:
        R.defer(f'TlvModel.parse: the found / not-found test of the field search was not recognised ({oid} undecided)')
    elif len(found_t) != 1 or len(crit) != 1 or len(ign) != 1:
        probs.append((f'critical-bit rule not found ({len(found_t)} found-tests, {len(crit)} odd-type tests, {len(ign)} ignore_critical tests)', pr.f.node))
    else:
        rs = [n for n in pr.cfg.nodes if n.kind == 'raise' and n.ast.exc is not None and P.exc_name(pr.f.mod, n.ast.exc) == TM + '.DecodeError']
        if not rs:
            probs.append(('no DecodeError for an unrecognised critical element', pr.f.node))
        else:
            r = rs[0]
            # reachable only via: not found (False), odd (True), not ignore (False)
            for (t, lab, what) in ((found_t[0], not found_lab[found_t[0].id], 'a recognised field'), (crit[0], odd, 'a non-critical (even) type'),
                                   (ign[0], False, 'ignore_critical=True')):
                if r.id in pr.cfg.reachable(removed_edges={(t.id, lab)}):
                    probs.append((f'DecodeError can be raised for {what}', r.ast))
            # and it is unavoidable there
            rm = {(crit[0].id, not odd), (ign[0].id, True)}
            rr = (reach_from_succ(pr.cfg, ign[0], False, removed_edges=rm, follow_exc=False) &
                  reach_from_succ(pr.cfg, crit[0], odd, removed_edges=rm, follow_exc=False)) - {crit[0].id, ign[0].id}
            if any(n.kind != 'raise' for n in pr.cfg.nodes if n.id in rr and n.kind in ('stmt', 'test', 'for')) or r.id not in rr:
                probs.append(('an unrecognised critical element does not always raise', ign[0].ast))
            if not pr.cfg.path_exists(found_t[0], crit[0]):
                probs.append(('the critical test is not in the not-found branch', crit[0].ast))
    if probs:
        for (what, construct) in probs:
            R.fail(oid, inst, PARSE, construct if not isinstance(construct, FuncT) else 'def parse', what, site(pr, construct))
    else:
        R.ok(oid, inst, site(pr, crit[0].ast))
    # every element is skipped by its length (loop variant) whether or not it was recognised
    inst = PARSE + ' :: every element advances the offset by its length'
    loopt = [t for t in pr.cfg.nodes if t.kind == 'test' and cmp_sides(t.ast) in (('offset', ast.Lt, 'len(wire)'),)]
    advs = [n for n in pr.cfg.nodes if n.kind == 'stmt' and isinstance(n.ast, ast.AugAssign) and ast.unparse(n.ast.target) == 'offset' and ast.unparse(n.ast.value) == 'length']
    if len(loopt) == 1 and advs:
        # from the loop test (True) back to the loop test, every path passes an `offset += length`
        r = reach_from_succ(pr.cfg, loopt[0], True, removed_nodes={n.id for n in advs}, follow_exc=False)
        if loopt[0].id in r:
            R.fail(oid, inst, PARSE, loopt[0].ast, 'an element can be processed without skipping its value (the scan would re-read value bytes as TLVs)', site(pr, loopt[0].ast))
        else:
            R.ok(oid, inst, site(pr, advs[-1].ast))
    else:
        R.defer('TlvModel.parse: scan loop shape not recognised (' + oid + ' cannot be read)')
    # the scan stops only when the buffer is exhausted: elements behind the last declared field are still examined
    inst = PARSE + ' :: the scan ends only at the end of the buffer'
    if len(loopt) == 1:
        early = [r for r in returns(pr) if r.id in pr.cfg.reachable(removed_edges={(loopt[0].id, False)}, follow_exc=False)]
        if early:
            R.fail(oid, inst, PARSE, loopt[0].stmt.test if isinstance(loopt[0].stmt, ast.While) else early[0].ast,
                   'the decoder can return before offset reaches len(wire): trailing elements (an unknown critical one, a repeated one) are accepted unexamined',
                   site(pr, early[0].ast))
        else:
            R.ok(oid, inst, site(pr, loopt[0].ast))
    else:
        R.defer('TlvModel.parse: scan loop shape not recognised (' + oid + ' cannot be read)')


def map_value_rule(R, oid):
    pr = ctx(R, PARSE)
    pv = calls_in_ctx(pr, attr='parse_value')
    R.need(len(pv) == 1, 'TlvModel.parse: parse_value call not found')
    (n, c) = pv[0]
    inst = PARSE + ' :: map value element type'
    tests = [t for t in pr.cfg.nodes if t.kind == 'test' and 'value_type.type_num' in ast.unparse(t.ast) and 'typ' in ast.unparse(t.ast)]
    ok = False
    for t in tests:
        s = cmp_sides(t.ast)
        if s and s[1] in (ast.NotEq, ast.Eq):
            lab = s[1] is ast.Eq
            if n.id not in pr.cfg.reachable(removed_edges={(t.id, lab)}):
                ok = True
    if ok:
        R.ok(oid, inst, site(pr, c))
    else:
        R.fail(oid, inst, PARSE, c, 'the element following a map key is parsed as the value whatever its type: an unknown element inserted between key and '
               'value is stored as the value (and the real value then fails as unrecognised)', site(pr, c))


def tainted_lengths(cx):
    """(def node, var) for every local bound to element 0 of parse_tl_num(...)"""
    out = []
    for n in cx.cfg.nodes:
        if n.kind == 'stmt' and isinstance(n.ast, ast.Assign) and isinstance(n.ast.value, ast.Call) and ast.unparse(n.ast.value.func).endswith('parse_tl_num') \
                and isinstance(n.ast.targets[0], ast.Tuple) and isinstance(n.ast.targets[0].elts[0], ast.Name):
            out.append((n, n.ast.targets[0].elts[0].id))
    return out


def bounds_rule(R, oid, qual, length_vars, sink_kinds):
    """BND.1: a wire-derived length is compared (raising on failure) with the enclosing buffer before it bounds a slice or is
    handed on as `length`"""
    P = R.P
    cx = ctx(R, qual)
    defs = [(n, v) for (n, v) in tainted_lengths(cx) if v in length_vars]
    R.need(defs, f'{qual}: no length read from the wire found for {length_vars}')
    for (dn, var) in defs:
        # variables derived from the tainted one
        derived = {var}
        changed = True
        while changed:
            changed = False
            for n in cx.cfg.nodes:
                if n.kind == 'stmt' and isinstance(n.ast, (ast.Assign, ast.AugAssign)) and cx.cfg.path_exists(dn, n):
                    val = n.ast.value
                    if any(isinstance(x, ast.Name) and x.id in derived for x in ast.walk(val)):
                        for t in (n.ast.targets if isinstance(n.ast, ast.Assign) else [n.ast.target]):
                            if isinstance(t, ast.Name) and t.id not in derived:
                                derived.add(t.id)
                                changed = True
        # sinks reachable from the definition before the variable is redefined
        redefs = [n for (n, v) in tainted_lengths(cx) if v == var and n is not dn]
        sinks = []
        for n in cx.cfg.nodes:
            if n is dn:
                continue
            for x in n.walk():
                if 'slice' in sink_kinds and isinstance(x, ast.Subscript) and isinstance(x.slice, ast.Slice) and isinstance(x.ctx, ast.Load):
                    bounds = [b for b in (x.slice.lower, x.slice.upper) if b is not None]
                    if any(isinstance(y, ast.Name) and y.id in derived for b in bounds for y in ast.walk(b)):
                        sinks.append((n, x, 'slice bound'))
                if 'arg' in sink_kinds and isinstance(x, ast.Call) and callee_attr(x) in ('parse_from', 'parse_value'):
                    if any(isinstance(a, ast.Name) and a.id == var for a in x.args):
                        sinks.append((n, x, 'length argument of ' + callee_attr(x)))
        # length counters that were themselves compared (raising) with the size of the buffer
        validated = set()
        for t in cx.cfg.nodes:
            if t.kind == 'test' and isinstance(t.ast, ast.Compare) and len(t.ast.ops) == 1 and 'len(' in ast.unparse(t.ast) \
                    and isinstance(t.ast.ops[0], (ast.Lt, ast.LtE, ast.Gt, ast.GtE, ast.NotEq, ast.Eq)) and (_raises(cx, t, True) or _raises(cx, t, False)):
                validated |= {y.id for y in ast.walk(t.ast) if isinstance(y, ast.Name) and y.id in length_vars}
        # a plain copy of a validated counter (`remaining = length`) that is only ever decreased afterwards is bounded the same way
        for n in cx.cfg.nodes:
            if n.kind == 'stmt' and isinstance(n.ast, ast.Assign) and len(n.ast.targets) == 1 and isinstance(n.ast.targets[0], ast.Name) \
                    and isinstance(n.ast.value, ast.Name) and n.ast.value.id in validated:
                cp = n.ast.targets[0].id
                others = [m for m in cx.cfg.nodes if m is not n and any(nm == cp for (nm, _) in cx.cfg.defs_of(m))]
                if all(m.kind == 'stmt' and isinstance(m.ast, ast.AugAssign) and isinstance(m.ast.op, ast.Sub) for m in others):
                    validated.add(cp)
        # bounds tests: ordering / inequality comparison mentioning a derived var whose failing edge raises; the other side is the
        # buffer size or a validated length counter
        good_edges = set()
        for t in cx.cfg.nodes:
            if t.kind == 'test' and isinstance(t.ast, ast.Compare) and len(t.ast.ops) == 1 and isinstance(t.ast.ops[0], (ast.Lt, ast.LtE, ast.Gt, ast.GtE, ast.NotEq, ast.Eq)) \
                    and any(isinstance(y, ast.Name) and y.id in derived for y in ast.walk(t.ast)) \
                    and ('len(' in ast.unparse(t.ast) or any(isinstance(y, ast.Name) and y.id in validated and y.id != var for y in ast.walk(t.ast))):
                for lab in (True, False):
                    if isinstance(t.ast.ops[0], (ast.Eq, ast.NotEq)) and lab != isinstance(t.ast.ops[0], ast.NotEq):
                        continue        # an equality test bounds the length on its "equal" edge only: the raise is on the other one
                    if _raises(cx, t, lab):
                        good_edges.add((t.id, not lab))
        for (sn, x, kind) in sinks:
            if not cx.cfg.path_exists(dn, sn):
                continue
            inst = f'{qual} :: {var} -> {kind} `{norm(x)[:60]}`'
            # is the sink reachable from the definition without passing the ok-edge of some bounds test?
            blocked = {e for e in good_edges}
            # remove the ok edges: if still reachable, no test dominates
            r = reach_from_succ(cx.cfg, dn, removed_edges=blocked, removed_nodes={n.id for n in redefs}, follow_exc=False)
            if sn.id in r:
                R.fail(oid, inst, qual, x, f'the length `{var}` read from the wire is used as {kind} without being checked against the enclosing buffer: '
                       'an element whose Length runs past its parent is accepted (truncated)', site(cx, x))
            else:
                R.ok(oid, inst, site(cx, x), 'bounds-checked')
            R.paths_examined += 1


def extent_rule(R, oid, qual, remaining):
    """BND.2 (quantitative part of the bounds rule for a straight-line scan loop): the quantity compared with the bytes remaining
    covers the whole extent (Type + Length + Value) of the slice taken, and the remaining count is decreased by that extent.
    Symbols: every value read from parse_tl_num is a non-negative unknown; arithmetic is linear (no solver)."""
    from ..linexpr import lin, show, NotLinear, _add
    cx = ctx(R, qual)
    loops = [x for x in ast.walk(cx.f.node) if isinstance(x, ast.While) and any(isinstance(y, ast.Name) and y.id == remaining for y in ast.walk(x.test))]
    R.need(len(loops) == 1, f'{qual}: scan loop over `{remaining}` not found')
    env = {}

    def ev(e):
        d = {}
        try:
            raw = lin(e)
        except NotLinear as ex:
            raise AnalysisError(f'{qual}: cannot follow `{ex}` in the scan loop')
        for t, c in raw.items():
            d = _add(d, env.get(t, {t: 1}) if t != 1 else {1: 1}, c)
        return d
    facts, sinks, decs = [], [], []
    size_syms = set()
    for st in loops[0].body:
        if isinstance(st, ast.Assign) and len(st.targets) == 1:
            t = st.targets[0]
            if isinstance(t, ast.Tuple) and isinstance(st.value, ast.Call) and ast.unparse(st.value.func).endswith('parse_tl_num'):
                for k_, e in enumerate(t.elts):
                    if isinstance(e, ast.Name):
                        env[e.id] = {f'{e.id}': 1} if e.id != '_' else {'_typ': 1}
                        if k_ == 1:
                            size_syms.add(e.id)      # second element of parse_tl_num: bytes consumed, always >= 1
                continue
            if isinstance(t, ast.Name):
                env[t.id] = ev(st.value)
                continue
            raise AnalysisError(f'{qual}: unexpected statement `{norm(st)}` in the scan loop')
        if isinstance(st, ast.AugAssign) and isinstance(st.target, ast.Name) and isinstance(st.op, (ast.Add, ast.Sub)):
            k = 1 if isinstance(st.op, ast.Add) else -1
            if st.target.id == remaining:
                decs.append((st, ev(st.value), k))
            env[st.target.id] = _add(env.get(st.target.id, {st.target.id: 1}), ev(st.value), k)
            continue
        if isinstance(st, ast.If) and not st.orelse and len(st.body) == 1 and isinstance(st.body[0], ast.Raise) and isinstance(st.test, ast.Compare) \
                and len(st.test.ops) == 1 and isinstance(st.test.ops[0], (ast.Gt, ast.GtE, ast.Lt, ast.LtE)):
            l, r = ev(st.test.left), ev(st.test.comparators[0])
            op = st.test.ops[0]
            if isinstance(op, (ast.Lt, ast.LtE)):
                l, r = r, l
            # after the test: l <= r (strict variants only make it stronger / off by one is decided by TBL rules)
            f = _add(l, r, -1)
            if isinstance(op, (ast.GtE, ast.LtE)):
                f = _add(f, {1: 1})      # l >= r raises  =>  l <= r - 1
            facts.append((st, f))
            continue
        if isinstance(st, ast.Expr):
            for x in ast.walk(st.value):
                if isinstance(x, ast.Subscript) and isinstance(x.slice, ast.Slice) and x.slice.lower is not None and x.slice.upper is not None:
                    sinks.append((x, _add(ev(x.slice.upper), ev(x.slice.lower), -1), list(facts)))
            continue
        raise AnalysisError(f'{qual}: unexpected statement `{norm(st)}` in the scan loop')
    R.need(sinks, f'{qual}: no component slice found in the scan loop')
    for (x, extent, fs) in sinks:
        inst = f'{qual} :: the bound covers the whole element `{norm(x)}`'
        need = _add(extent, {remaining: 1}, -1)          # must be <= 0
        good = False
        for (st, f) in fs:
            diff = _add(need, f, -1)                    # need = f + diff, f <= 0, so diff <= 0 suffices (all symbols >= 0)
            if all(c <= 0 for c in diff.values()):
                good = True
        if good:
            R.ok(oid, inst, site(cx, x), f'extent {show(extent)} <= {remaining}')
        else:
            R.fail(oid, inst, qual, x, f'the element sliced out spans `{show(extent)}` bytes but the check before it only bounds '
                   f'{[show(_add(f, {remaining: 1})) for (_, f) in fs] or "nothing"} by `{remaining}`: a component can run past the end of its parent into the next element',
                   site(cx, x))
    inst = f'{qual} :: remaining length decreases by the element extent'
    if len(decs) == 1 and decs[0][2] == -1 and sinks and decs[0][1] == sinks[-1][1]:
        R.ok(oid, inst, site(cx, decs[0][0]), show(decs[0][1]))
    else:
        R.fail(oid, inst, qual, decs[0][0] if decs else 'def decode', f'`{remaining}` is not decreased by exactly the bytes consumed '
               f'({[show(d[1]) for d in decs]} vs {show(sinks[-1][1]) if sinks else "?"})', site(cx, decs[0][0] if decs else cx.f.node))
    return decs, size_syms


def _raises(cx, t, lab):
    r = reach_from_succ(cx.cfg, t, lab, follow_exc=False)
    byid = {n.id: n for n in cx.cfg.nodes}
    nodes = [byid[i] for i in r]
    return bool(nodes) and all(n.kind in ('raise', 'stmt') and not (n.kind == 'stmt' and n.ast is None) for n in nodes) and any(n.kind == 'raise' for n in nodes)


def _outer_checked_by_paths(P, cx, chk, want, always_tl):
    """with with_tl true every path to <Model>.parse(..) passes a parse_and_check_tl call whose expected type folds to `want` there"""
    from .common import explore
    from ..loader import NOVALUE
    parses = [n for (n, c) in calls_in_ctx(cx, attr='parse')]
    chk_nodes = {cx.node_of(c).id for c in chk}
    if not parses:
        return False

    def atom(e):
        return True if ast.unparse(e) == 'with_tl' else None
    # the check written as the argument itself: <Model>.parse(parse_and_check_tl(w, T) if with_tl else w, ..)
    inline_ok = []
    for (n, c) in calls_in_ctx(cx, attr='parse'):
        a0 = c.args[0] if c.args else None
        if isinstance(a0, ast.IfExp) and ast.unparse(a0.test) == 'with_tl' and any(a0.body is k for k in chk):
            inline_ok.append(a0.body)
    if inline_ok and len(inline_ok) == len(chk):
        return all(len(k.args) >= 2 and P.const_value(cx.f.mod, k.args[1]) == want for k in chk)
    reach = explore(cx, atom, stop=chk_nodes)
    if any(n.id in reach for n in parses) and not always_tl:
        return False          # the model parse is reachable without the outer check
    live = explore(cx, atom)
    for c in chk:
        if len(c.args) < 2:
            return False
        vals = set()
        for s_ in cx.sources(cx.node_of(c), c.args[1], live=live):
            e_ = s_.expr if s_.kind == 'expr' else None
            if isinstance(e_, ast.IfExp) and ast.unparse(e_.test) == 'with_tl':
                e_ = e_.body
            v = P.const_value(cx.f.mod, e_) if e_ is not None else NOVALUE
            vals.add(v if v is not NOVALUE else '?')
        if vals - {None} != {want}:
            return False
    return True


def run(R):
    P = R.P
    M = models_of(P)
    # ------------------------------------------------------------------ BND.1
    R.ob('C07.BND.1', 'every Length read from the wire is compared with the enclosing buffer (raising) before it bounds a slice or is passed on as a length')
    bounds_rule(R, 'C07.BND.1', PARSE, {'length'}, {'arg', 'slice'})
    bounds_rule(R, 'C07.BND.1', 'ndn.encoding.name.Name.decode', {'length', 'len_comp'}, {'slice'})
    bounds_rule(R, 'C07.BND.1', 'ndn.encoding.tlv_var.parse_and_check_tl', {'size'}, {'slice'})
    R.ob('C07.BND.2', 'Name.decode: the per-component bound covers Type + Length + Value of the component, and the remaining Name length decreases by exactly that')
    # the count of bytes still to scan: the local the component loop tests against 0 and decreases (the Length itself, or a copy of it)
    nd0 = ctx(R, 'ndn.encoding.name.Name.decode')
    rem = [ast.unparse(t.ast.left) for t in nd0.cfg.nodes if t.kind == 'test' and isinstance(t.stmt, ast.While) and isinstance(t.ast, ast.Compare)
           and len(t.ast.ops) == 1 and isinstance(t.ast.ops[0], ast.Gt) and ast.unparse(t.ast.comparators[0]) == '0' and isinstance(t.ast.left, ast.Name)
           and any(isinstance(x, ast.AugAssign) and isinstance(x.op, ast.Sub) and ast.unparse(x.target) == ast.unparse(t.ast.left) for x in ast.walk(t.stmt))]
    R.need(len(rem) == 1, f'Name.decode: the component loop `while <remaining> > 0` with its decrement was not found ({rem})')
    REM = rem[0]
    name_decs, name_sizes = extent_rule(R, 'C07.BND.2', 'ndn.encoding.name.Name.decode', REM)
    # ------------------------------------------------------------------ ESC.1
    R.ob('C07.ESC.1', 'the decoders raise only the documented decoding errors (DecodeError, IndexError, ValueError, struct.error, TypeError)')
    for q in DECODERS:
        escape_check(R, 'C07.ESC.1', q, DOCUMENTED, 'the decoder')
    # ------------------------------------------------------------------ GRD.1
    R.ob('C07.GRD.1', 'parse_interest / parse_data / parse_certificate refuse a packet without Name (the field default must not stand in for it)')
    for q, model in (('ndn.encoding.ndn_format_0_3.parse_interest', 'InterestPacketValue'), ('ndn.encoding.ndn_format_0_3.parse_data', 'DataPacketValue'),
                     ('ndn.app_support.security_v2.parse_certificate', 'DataPacketValue')):
        cx = ctx(R, q)
        inst = f'{q} :: Name mandatory'
        fld = M.field(('ndn.encoding.ndn_format_0_3', model), 'name')
        has_default = fld is not None and not fld.nullable
        # the decoded object: the local bound to <Model>.parse(..)
        objs = [nm for n_ in cx.cfg.nodes for (nm, v) in cx.cfg.defs_of(n_) if isinstance(v, ast.Call) and callee_attr(v) == 'parse']
        ov = objs[0] if objs else 'ret'
        tests = [t for t in cx.cfg.nodes if t.kind == 'test' and ast.unparse(t.ast) in (f"'name' not in {ov}.__dict__", f"'name' in {ov}.__dict__", f'{ov}.name is None',
                                                                                          f'{ov}.name is not None', f'not {ov}.name', f'{ov}.name')]
        ok = False
        for t in tests:
            txt = ast.unparse(t.ast)
            bad = txt in (f"'name' not in {ov}.__dict__", f'{ov}.name is None', f'not {ov}.name')
            lab = True if bad else False
            if txt in (f'{ov}.name is None', f'{ov}.name is not None', f'not {ov}.name', f'{ov}.name') and has_default:
                continue        # with a non-None default the value test cannot see absence
            if _raises(cx, t, lab):
                ok = True
        if ok:
            R.ok('C07.GRD.1', inst, site(cx, tests[0].ast))
        else:
            R.fail('C07.GRD.1', inst, q, 'def ' + cx.f.node.name, f'a packet without a Name element is accepted: the name returned is the field default '
                   f'{ast.unparse(fld.default) if fld is not None and fld.default is not None else None!r} (a str, which the name tries cannot index)', site(cx, cx.f.node))
        chk = [c for (n, c) in calls_in_ctx(cx) if ast.unparse(c.func).endswith('parse_and_check_tl')]
        want = 0x05 if 'interest' in q else 0x06
        always_tl = q.endswith('parse_certificate')      # (a certificate is always handed over with its outer TL)
        inst = f'{q} :: outer type checked'
        wt = [t for t in cx.cfg.nodes if t.kind == 'test' and ast.unparse(t.ast) == 'with_tl']
        if len(chk) == 1 and P.const_value(cx.f.mod, chk[0].args[1]) == want and (wt or always_tl):
            R.ok('C07.GRD.1', inst, site(cx, chk[0]))
        elif chk and _outer_checked_by_paths(P, cx, chk, want, always_tl):
            R.ok('C07.GRD.1', inst, site(cx, chk[0]), 'by paths: with the outer TL every path to the model parse passes parse_and_check_tl(.., expected type)')
        else:
            R.fail('C07.GRD.1', inst, q, 'def ' + cx.f.node.name, f'outer type 0x{want:02x} / exact length is not checked', site(cx, cx.f.node))
    # ------------------------------------------------------------------ TBL.1
    R.ob('C07.TBL.1', 'UintField.parse_from accepts widths 1,2,4,8 only')
    # whatever the shape of the dispatch: for each Length 0..17 the paths possible with that value either return a number or raise
    pf = ctx(R, 'ndn.encoding.tlv_model.UintField.parse_from')
    lpar = [a.arg for a in pf.f.node.args.args]
    R.need('length' in lpar, 'UintField.parse_from: no `length` parameter')

    def int_test(e, v):
        def val(x):
            if isinstance(x, ast.Name) and x.id == 'length':
                return v
            if isinstance(x, ast.Constant) and isinstance(x.value, int) and not isinstance(x.value, bool):
                return x.value
            return None
        if isinstance(e, ast.Compare):
            cur = val(e.left)
            res = True
            for op, c in zip(e.ops, e.comparators):
                if isinstance(op, (ast.In, ast.NotIn)) and isinstance(c, (ast.Tuple, ast.List, ast.Set, ast.Dict)):
                    ks = [val(k) for k in (c.keys if isinstance(c, ast.Dict) else c.elts)]
                    if cur is None or any(k is None for k in ks):
                        return None
                    r_ = (cur in ks) == isinstance(op, ast.In)
                    nxt = None
                else:
                    nxt = val(c)
                    if cur is None or nxt is None:
                        return None
                    r_ = {ast.Lt: cur < nxt, ast.LtE: cur <= nxt, ast.Gt: cur > nxt, ast.GtE: cur >= nxt, ast.Eq: cur == nxt, ast.NotEq: cur != nxt}.get(type(op))
                    if r_ is None:
                        return None
                res = res and r_
                cur = nxt
            return res
        return None
    accepted = set()
    for v in range(0, 18):
        reach = explore(pf, lambda e, v=v: int_test(e, v))
        rets = [n for n in pf.cfg.nodes if n.id in reach and n.kind == 'return']
        if rets:
            accepted.add(v)
    R.paths_examined += 18
    inst = 'UintField.parse_from :: set of accepted Lengths'
    if accepted == {1, 2, 4, 8}:
        R.ok('C07.TBL.1', inst, pf.f.loc(), 'Lengths 0..17 explored: a value is returned exactly for 1, 2, 4, 8')
    else:
        R.fail('C07.TBL.1', inst, pf.qual, 'def parse_from', f'a NonNegativeInteger is decoded for Lengths {sorted(accepted)} (the format allows 1, 2, 4 and 8 only): '
               f'{sorted(accepted - {1, 2, 4, 8}) or "-"} accepted in addition, {sorted({1, 2, 4, 8} - accepted) or "-"} refused', pf.f.loc())
    ut = uint_tables(P)
    for (what, a, b, okay, detail) in compare_uint({'UintField.parse_from': ut['UintField.parse_from']}):
        inst = f'{a} :: {what}'
        if okay:
            R.ok('C07.TBL.1', inst, ut[a]['site'], detail)
        else:
            R.fail('C07.TBL.1', inst, ut[a]['qual'], what, f'{a}: {what}: {detail}', ut[a]['site'])
    # ------------------------------------------------------------------ FLD.1
    R.ob('C07.FLD.1', 'packet-format models list their elements in the order of the NDN 0.3 / certificate format (recognised critical elements appear in order)')
    for q, spec in SPEC_ORDER.items():
        types = [f.type for f in M.fields(q) if f.wire]
        pos = [spec.index(t) for t in types if t in spec]
        inst = f'{q} :: element order'
        missing = [hex(t) for t in spec if t not in types]
        if pos != sorted(pos) or len(set(pos)) != len(pos):
            R.fail('C07.FLD.1', inst, q, 'class ' + q.rsplit('.', 1)[1], f'elements are declared in the order {[hex(t) for t in types]}, the format prescribes {[hex(t) for t in spec]}',
                   P.path_of(q.rsplit('.', 1)[0]))
        elif missing:
            R.fail('C07.FLD.1', inst, q, 'class ' + q.rsplit('.', 1)[1], f'elements {missing} of the format are not modelled', P.path_of(q.rsplit('.', 1)[0]))
        else:
            R.ok('C07.FLD.1', inst, P.path_of(q.rsplit('.', 1)[0]), str([hex(t) for t in types]))
    # fixed widths of the format
    for q, fname, want in (('ndn.encoding.ndn_format_0_3.InterestPacketValue', 'nonce', 4), ('ndn.encoding.ndn_format_0_3.InterestPacketValue', 'hop_limit', 1)):
        f = M.field(tuple(q.rsplit('.', 1)), fname)
        inst = f'{q}.{fname} :: fixed width {want}'
        if f is not None and f.fixed_len == want:
            R.ok('C07.FLD.1', inst, P.path_of(q.rsplit('.', 1)[0]))
        else:
            R.fail('C07.FLD.1', inst, q, fname, f'{fname} is not encoded with the fixed width {want}', P.path_of(q.rsplit('.', 1)[0]))
    # ------------------------------------------------------------------ TBL.3 Type / Length numbers
    R.ob('C07.TBL.3', 'parse_tl_num reads Type and Length numbers by the VAR-NUMBER table: 1/3/5/9 bytes selected by the first octet, each multi-byte form '
                      'read with a fixed-width unpack that raises on a truncated buffer')
    vt = varnum_tables(P, ('get_tl_num_size', 'write_tl_num', 'parse_tl_num'))
    for (what, a, b, okay, detail) in compare_varnum(vt, only=('parse_tl_num',)):
        inst = f'{a} :: {what}'
        if okay:
            R.ok('C07.TBL.3', inst, vt[a]['site'], detail)
        else:
            R.fail('C07.TBL.3', inst, 'ndn.encoding.tlv_var.' + a, what, f'{a} departs from the VAR-NUMBER table in {what}: {detail}', vt[a]['site'])
    R.minimum('C07.TBL.3', 4)
    # ------------------------------------------------------------------ FLD.2 where critical elements may be ignored
    R.ob('C07.FLD.2', 'unknown / misplaced critical elements are tolerated only where the format says so (Data and certificate SignatureInfo, the LP header, RDR metadata)')
    LENIENT_FIELDS = {('ndn.encoding.ndn_format_0_3', 'DataPacketValue', 'signature_info'), ('ndn.encoding.ndn_format_0_3_2017', 'DataPacketValue', 'signature_info'),
                      ('ndn.app_support.security_v2', 'CertificateV2Value', 'signature_info')}
    LENIENT_CALLS = {('ndn.encoding.ndnlp_v2.parse_network_nack', 'LpPacketValue'), ('ndn.encoding.ndnlp_v2.parse_lp_packet_v2', 'LpPacketValue'),
                     ('ndn.encoding.ndnlp_v2.parse_lp_packet', 'LpPacketValue'), ('ndn.schema.simple_node.RDRNode.need', 'MetaDataValue')}
    nf = 0
    for mc_, fields in sorted(M.all.items()):
        for f in fields:
            for g in (f, f.elem, f.value):
                if g is None or g.kind != 'ModelField':
                    continue
                nf += 1
                key = (mc_[0], mc_[1], f.name)
                inst = f'{mc_[0]}.{mc_[1]}.{f.name} :: critical elements inside are checked'
                if g.ignore_critical and key not in LENIENT_FIELDS:
                    R.fail('C07.FLD.2', inst, f'{mc_[0]}.{mc_[1]}', f.name, f'the nested element `{f.name}` is decoded with ignore_critical=True: duplicated, out-of-order or unknown '
                           'critical elements inside it are skipped instead of refused', P.path_of(mc_[0]))
                else:
                    R.ok('C07.FLD.2', inst, P.path_of(mc_[0]), 'lenient by format' if g.ignore_critical else 'strict')
    R.need(nf >= 30, f'only {nf} nested-model fields found')
    for q, f in sorted(P.funcs.items()):
        if isinstance(f.node, ast.Lambda):
            continue
        for c in ast.walk(f.node):
            if not (isinstance(c, ast.Call) and callee_attr(c) == 'parse'):
                continue
            ic = None
            if len(c.args) >= 3:
                ic = c.args[2]
            for k in c.keywords:
                if k.arg == 'ignore_critical':
                    ic = k.value
            if ic is None or (isinstance(ic, ast.Constant) and not ic.value):
                continue
            if isinstance(ic, ast.Name) and ic.id == 'ignore_critical' or (isinstance(ic, ast.Attribute) and ic.attr == 'ignore_critical'):
                continue    # forwarded flag
            model = ast.unparse(c.func.value).rsplit('.', 1)[-1]
            base = q.split('.<')[0]
            inst = f'{base} :: {model}.parse(ignore_critical=...)'
            if (base, model) in LENIENT_CALLS:
                R.ok('C07.FLD.2', inst, f.loc(), 'lenient by format')
            else:
                R.fail('C07.FLD.2', inst, q, c, f'`{ast.unparse(c)[:80]}` switches the critical-element rule off for {model}', f.loc())
    # ------------------------------------------------------------------ TBL.2 scan loop
    R.ob('C07.TBL.2', 'scan loop: found single field -> next position, repeated/map -> same position; unknown critical -> DecodeError')
    scan_loop_rules(R, 'C07.TBL.2')
    # ------------------------------------------------------------------ LOP.1 termination
    R.ob('C07.LOP.1', 'decode loops make progress on every iteration (positive TL size) and model nesting is acyclic')
    nd = ctx(R, 'ndn.encoding.name.Name.decode')
    wt = [t for t in nd.cfg.nodes if t.kind == 'test' and cmp_sides(t.ast) in ((REM, ast.Gt, '0'),)]
    dec = [n for n in nd.cfg.nodes if n.kind == 'stmt' and isinstance(n.ast, ast.AugAssign) and ast.unparse(n.ast.target) == REM and isinstance(n.ast.op, ast.Sub)]
    inst = nd.qual + ' :: remaining length strictly decreases'
    # the amount subtracted (as a linear form over the sizes read by parse_tl_num, from the extent analysis) is positive
    positive = len(name_decs) == 1 and name_decs[0][2] == -1 and all(c >= 0 for c in name_decs[0][1].values()) and \
        any(name_decs[0][1].get(sy, 0) >= 1 for sy in name_sizes)
    if len(wt) == 1 and len(dec) == 1 and positive and \
            wt[0].id not in reach_from_succ(nd.cfg, wt[0], True, removed_nodes={dec[0].id}, follow_exc=False):
        R.ok('C07.LOP.1', inst, site(nd, dec[0].ast), 'decrement includes the type/length sizes (each >= 1)')
    else:
        R.fail('C07.LOP.1', inst, nd.qual, wt[0].ast if wt else 'def decode', 'the component loop can iterate without consuming input', site(nd, nd.f.node))
    pr = ctx(R, PARSE)
    inst = PARSE + ' :: offset strictly increases'
    # sizes of the Type / Length numbers just read: second element of parse_tl_num(...)
    tl_sizes = {e.id for n in pr.cfg.nodes if n.kind == 'stmt' and isinstance(n.ast, ast.Assign) and isinstance(n.ast.value, ast.Call)
                and ast.unparse(n.ast.value.func).endswith('parse_tl_num') and isinstance(n.ast.targets[0], ast.Tuple) and len(n.ast.targets[0].elts) == 2
                for e in [n.ast.targets[0].elts[1]] if isinstance(e, ast.Name)}
    adds = [n for n in pr.cfg.nodes if n.kind == 'stmt' and isinstance(n.ast, ast.AugAssign) and ast.unparse(n.ast.target) == 'offset'
            and isinstance(n.ast.op, ast.Add) and isinstance(n.ast.value, ast.Name) and n.ast.value.id in tl_sizes]
    lt = [t for t in pr.cfg.nodes if t.kind == 'test' and cmp_sides(t.ast) == ('offset', ast.Lt, 'len(wire)')]
    if not lt:
        # the buffer size hoisted into a local (`n = len(wire); while offset < n`)
        lt = [t for t in pr.cfg.nodes if t.kind == 'test' and isinstance(t.ast, ast.Compare) and len(t.ast.ops) == 1 and isinstance(t.ast.ops[0], ast.Lt)
              and ast.unparse(t.ast.left) == 'offset' and full_text(pr, t.ast.comparators[0]) == 'len(wire)']
    # an advance of the cursor by (at least) the size of a number just read, in either spelling: `offset += sz`, or `offset = <copy of offset
    # advanced by sz> + sz2` (the reads moved into a helper that works on its own cursor)
    def _advances(n_):
        if n_.kind != 'stmt' or not isinstance(n_.ast, ast.Assign) or len(n_.ast.targets) != 1 or ast.unparse(n_.ast.targets[0]) != 'offset':
            return False
        v_ = n_.ast.value
        if not (isinstance(v_, ast.BinOp) and isinstance(v_.op, ast.Add)):
            return False
        names_ = [x for x in (v_.left, v_.right) if isinstance(x, ast.Name)]
        sz_ = [x for x in names_ if x.id in tl_sizes]
        base_ = [x for x in names_ if x.id not in tl_sizes]
        if len(sz_) != 1 or len(base_) != 1:
            return False
        # the base is the cursor itself or a copy of it (possibly advanced already)
        return any(s_.kind == 'expr' and ast.unparse(s_.expr) == 'offset' or s_.kind == 'aug' for s_ in pr.sources(n_, base_[0])) or base_[0].id == 'offset'
    adds2 = [n for n in pr.cfg.nodes if _advances(n)]
    if len(lt) == 1 and len(adds) >= 2 and lt[0].id not in reach_from_succ(pr.cfg, lt[0], True, removed_nodes={adds[0].id}, follow_exc=False):
        R.ok('C07.LOP.1', inst, site(pr, adds[0].ast), 'size_typ in {1,3,5,9}')
    elif len(lt) == 1 and adds2 and lt[0].id not in reach_from_succ(pr.cfg, lt[0], True, removed_nodes={n.id for n in adds2}, follow_exc=False):
        R.ok('C07.LOP.1', inst, site(pr, adds2[0].ast), 'cursor advanced by the sizes read (through a copy)')
    elif not lt or not (adds or adds2):
        R.defer('TlvModel.parse: the loop test on the cursor / the advance by the sizes read was not found in a readable form (C07.LOP.1 undecided)')
    else:
        R.fail('C07.LOP.1', inst, PARSE, lt[0].ast if lt else 'def parse', 'an iteration of the scan loop may not consume the Type/Length it read', site(pr, pr.f.node))
    R.assumptions += ['"every extracted field equals a strict reading" (value equality) is not decided',
                      'the library documents "critical = odd type"; the grandfathered range 0-31 of the NDN spec is not a property clause']
