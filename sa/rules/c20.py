"""C20 — client configuration: environment over file over platform default (DESIGN §4 C20)."""
import ast

from .common import ctx, returns, calls_in_ctx, reach_from_succ, site, srcs_text, full_text, explore_sym, unique_defs
from ..flow import callee_attr
from ..loader import AnalysisError, norm, NOVALUE
from ..verdict import StrDomain, pruned_edges

RC = 'ndn.client_conf.read_client_conf'
KEYS = {'transport', 'pib', 'tpm'}


def classify(e):
    t = ast.unparse(e)
    if 'os.environ' in t or 'getenv' in t:
        return 'env'
    if 'parser' in t or "['DEFAULT']" in t:
        return 'file'
    if 'resolve_location' in t:
        return 'resolve'
    if 'Platform()' in t:
        return 'default'
    return 'other'


def conf_path_local(rc):
    """name of the local of read_client_conf that is opened as the configuration file (`with open(path) as f`)"""
    for n in rc.cfg.nodes:
        for c in n.calls():
            if isinstance(c.func, ast.Name) and c.func.id == 'open' and c.args and isinstance(c.args[0], ast.Name):
                return c.args[0].id
    return None


def _through(cx, e):
    """the expression with single-definition locals read through (`loc = ''; return loc` is `return ''`)"""
    from .common import inline_ast
    try:
        return inline_ast(cx, e) if e is not None else e
    except Exception:
        return e


def run(R):
    P = R.P
    rc = ctx(R, RC)
    R.ob('C20.ORD.1', 'read_client_conf writes each setting in the order platform default, file, environment, location resolution; '
                      'every source covers all its keys')
    R.ob('C20.TBL.1', 'environment variable names are NDN_CLIENT_TRANSPORT / _PIB / _TPM; the configuration file is the first existing candidate')
    R.ob('C20.EXH.1', 'transport URI -> face type table, default port 6363, unknown schemes (transport, pib, tpm) raise')
    R.ob('C20.ESC.1', 'splitting scheme:location cannot fail on a location that contains a colon')
    R.ob('C20.MPT.1', 'resolve_location: an existing location is used as given, else resolved against the file\'s directory, else the platform default')
    # ------------------------------------------------------------------ ORD.1
    writes = []      # (node, kind, loopnode or None)
    for n in rc.cfg.nodes:
        if n.kind == 'stmt' and isinstance(n.ast, ast.Assign):
            for t in n.ast.targets:
                if isinstance(t, ast.Subscript) and ast.unparse(t.value) == 'ret':
                    k_ = classify(n.ast.value)
                    if k_ == 'other':      # through a local (`file_values = parser['DEFAULT']`)
                        k_ = classify(ast.parse(full_text(rc, n.ast.value), mode='eval').body)
                    writes.append((n, k_))
    init = [n for n in rc.cfg.nodes if n.kind == 'stmt' and isinstance(n.ast, ast.Assign) and any(
        isinstance(t, ast.Name) and t.id == 'ret' for t in n.ast.targets) and isinstance(n.ast.value, ast.Dict)]
    # ------------------------------------------------------------------ PRV.1 the settings are collected in a dict of this call's own
    R.ob('C20.PRV.1', 'the settings are layered in a dict created by this call: what one call wrote (an environment override, a value from a file) cannot '
                      'be the "platform default" of a later call')

    def freshness(cx_, e, depth=0):
        """'fresh' | 'shared: <why>' | 'unknown'"""
        if isinstance(e, (ast.Dict, ast.DictComp)):
            return 'fresh'
        if isinstance(e, ast.Call):
            fn_t = ast.unparse(e.func)
            if fn_t == 'dict' or callee_attr(e) == 'copy' or fn_t.endswith('deepcopy'):
                return 'fresh'
            from .common import resolve_call
            q = resolve_call(P, cx_, e)
            if q is None and isinstance(e.func, ast.Attribute):
                # a method of an object built on the spot (`Platform().m()`): all repository methods of that name
                qs = [q_ for q_ in P.funcs if q_.endswith('.' + e.func.attr) and P.funcs[q_].cls]
                q = qs[0] if len(qs) == 1 else None
            if q and q in P.funcs and depth < 3:
                cx2 = ctx(R, q)
                rs = [r for r in returns(cx2) if r.ast.value is not None]
                vs = []
                for r in rs:
                    v = r.ast.value
                    if isinstance(v, ast.Name):
                        srcs = [s_.expr for s_ in cx2.sources(r, v) if s_.kind == 'expr']
                        vs += [freshness(cx2, x, depth + 1) for x in srcs] or ['unknown']
                    elif isinstance(v, ast.Attribute):
                        vs.append(f'shared: {q.rsplit(".", 1)[1]}() returns `{ast.unparse(v)}`, an object kept between calls')
                    else:
                        vs.append(freshness(cx2, v, depth + 1))
                sh = [v for v in vs if v.startswith('shared')]
                return sh[0] if sh else ('fresh' if vs and all(v == 'fresh' for v in vs) else 'unknown')
        if isinstance(e, ast.Attribute):
            return f'shared: `{ast.unparse(e)}` is an object kept between calls'
        return 'unknown'
    ret_defs = [n for n in rc.cfg.nodes if n.kind == 'stmt' and isinstance(n.ast, ast.Assign) and any(isinstance(t, ast.Name) and t.id == 'ret' for t in n.ast.targets)]
    inst = RC + ' :: the result dict is created per call'
    fr = [(n, freshness(rc, n.ast.value)) for n in ret_defs]
    sh = [(n, v) for (n, v) in fr if v.startswith('shared')]
    if sh:
        R.fail('C20.PRV.1', inst, RC, sh[0][0].ast, f'the dict the settings are written into is not created by this call ({sh[0][1][8:]}): file values, environment '
               'overrides and resolved locations of one call stay in it and are what the next call starts from instead of the platform defaults', site(rc, sh[0][0].ast))
    elif fr and all(v == 'fresh' for (_n, v) in fr):
        R.ok('C20.PRV.1', inst, site(rc, fr[0][0].ast))
    else:
        R.defer('read_client_conf: where the result dict comes from could not be read (C20.PRV.1 undecided)')
    R.need(len(init) == 1, 'read_client_conf: the result dict literal was not found')
    d = init[0].ast.value
    keys = {k.value for k in d.keys if isinstance(k, ast.Constant)}
    inst = RC + ' :: platform defaults'
    want_def = {'transport': 'default_transport', 'pib': 'default_pib_scheme', 'tpm': 'default_tpm_scheme'}
    bad = [k.value for k, v in zip(d.keys, d.values) if not (isinstance(v, ast.Call) and callee_attr(v) == want_def.get(k.value))]
    if keys != KEYS or bad:
        R.fail('C20.ORD.1', inst, RC, init[0].ast, f'defaults cover {sorted(keys)} with wrong sources for {bad}', site(rc, init[0].ast))
    else:
        R.ok('C20.ORD.1', inst, site(rc, init[0].ast))
    kinds = [k for (_, k) in writes]
    inst = RC + ' :: layering order'
    probs = []
    for want in ('file', 'env', 'resolve'):
        if kinds.count(want) != 1:
            probs.append((f'{kinds.count(want)} write(s) from source `{want}`', rc.f.node))
    if 'other' in kinds:
        probs.append(('a setting is overwritten from an unrecognised source: ' +
                      ', '.join(norm(n.ast) for (n, k) in writes if k == 'other'), rc.f.node))
    if not probs:
        w = {k: n for (n, k) in writes}
        order = [init[0], w['file'], w['env'], w['resolve']]
        names = ['default', 'file', 'env', 'resolve']
        for i in range(len(order)):
            for j in range(i + 1, len(order)):
                if rc.cfg.path_exists(order[j], order[i]):
                    probs.append((f'a `{names[i]}` write can happen after a `{names[j]}` write (precedence inverted)', order[j].ast))
        # the env and resolve steps are unconditional (reached on every normal path)
        for k in ('env', 'resolve'):
            loops = [n for n in rc.cfg.nodes if n.kind == 'for' and any(x is w[k].ast for x in ast.walk(n.ast))]
            if not loops:
                probs.append((f'`{k}` step is not a loop over the keys', w[k].ast))
                continue
            lp = loops[0]
            if rc.cfg.exit.id in rc.cfg.reachable(removed_nodes={lp.id}, follow_exc=False):
                probs.append((f'the `{k}` step can be skipped', lp.ast))
            it = ast.unparse(lp.ast.iter)
            if k == 'env' and it not in ('ret.keys()', 'ret', 'list(ret.keys())', 'list(ret)'):
                probs.append((f'environment overrides are applied to {it}, not to every key', lp.ast))
            if k == 'resolve':
                v = P.const_value(rc.f.mod, lp.ast.iter)
                if v is NOVALUE or set(v) != {'pib', 'tpm'}:
                    probs.append((f'location resolution applies to {it}, expected pib and tpm only', lp.ast))
        fl = [n for n in rc.cfg.nodes if n.kind == 'for' and any(x is w['file'].ast for x in ast.walk(n.ast))]
        if not fl or ast.unparse(fl[0].ast.iter) not in ('ret.keys()', 'ret', 'list(ret.keys())', 'list(ret)'):
            probs.append(('file values are not applied to every key', w['file'].ast))
        # a missing key in file / env leaves the earlier value: the write sits in try/except KeyError or behind `in`
        for k in ('file', 'env'):
            n = w[k]
            hs = [s for (s, l) in n.succ if l == 'exc' and s.kind == 'handler' and P.caught_by('KeyError', P.handler_names(rc.f.mod, s.ast))]
            v = n.ast.value
            uses_get = isinstance(v, ast.Call) and callee_attr(v) == 'get'
            tests_in = any(t.kind == 'test' and isinstance(t.ast, ast.Compare) and isinstance(t.ast.ops[0], ast.In) for t in rc.cfg.nodes)
            if not hs and not uses_get and not tests_in:
                probs.append((f'an absent `{k}` value is not tolerated (KeyError)', n.ast))
            for h in hs:
                if any(isinstance(x, ast.Assign) for x in ast.walk(h.ast)):
                    probs.append((f'the KeyError handler of the `{k}` step overwrites the setting', h.ast))
                lps = [x for x in rc.cfg.nodes if x.kind == 'for' and any(y is n.ast for y in ast.walk(x.ast))]
                if lps and not rc.cfg.path_exists(h, lps[0]):
                    probs.append((f'a key missing from the `{k}` source aborts the whole step: the remaining keys are not read from it', h.ast))
    if probs:
        for (what, construct) in probs:
            R.fail('C20.ORD.1', inst, RC, construct if not isinstance(construct, ast.FunctionDef) else 'def read_client_conf', what, site(rc, construct))
    else:
        R.ok('C20.ORD.1', inst, site(rc, init[0].ast), 'default < file < env < resolve')
    R.paths_examined += 6
    # ------------------------------------------------------------------ TBL.1
    envw = [n for (n, k) in writes if k == 'env']
    inst = RC + ' :: environment names'
    if envw:
        evalue = ast.parse(full_text(rc, envw[0].ast.value), mode='eval').body
        loopv = [n.ast.target.id for n in rc.cfg.nodes if n.kind == 'for' and isinstance(n.ast.target, ast.Name)
                 and any(x is envw[0].ast for x in ast.walk(n.ast))]

        def str_eval(e, key):
            """value of a string expression built from the loop variable, for one key; None if not understood"""
            if isinstance(e, ast.Constant) and isinstance(e.value, str):
                return e.value
            if isinstance(e, ast.Name) and e.id in loopv:
                return key
            if isinstance(e, ast.Call) and isinstance(e.func, ast.Attribute) and not e.args and not e.keywords and e.func.attr in ('upper', 'lower'):
                v = str_eval(e.func.value, key)
                return None if v is None else getattr(v, e.func.attr)()
            if isinstance(e, ast.Call) and ast.unparse(e.func) == 'str' and len(e.args) == 1:
                return str_eval(e.args[0], key)
            if isinstance(e, ast.BinOp) and isinstance(e.op, ast.Add):
                a_, b_ = str_eval(e.left, key), str_eval(e.right, key)
                return None if a_ is None or b_ is None else a_ + b_
            if isinstance(e, ast.BinOp) and isinstance(e.op, ast.Mod) and isinstance(e.left, ast.Constant) and isinstance(e.left.value, str) \
                    and e.left.value.count('%s') == 1 and e.left.value.count('%') == 1:
                b_ = str_eval(e.right.elts[0] if isinstance(e.right, ast.Tuple) and len(e.right.elts) == 1 else e.right, key)
                return None if b_ is None else e.left.value.replace('%s', b_)
            if isinstance(e, ast.JoinedStr):
                out = ''
                for v in e.values:
                    x = str_eval(v.value, key) if isinstance(v, ast.FormattedValue) and v.conversion == -1 and v.format_spec is None else str_eval(v, key)
                    if x is None:
                        return None
                    out += x
                return out
            if isinstance(e, ast.Call) and isinstance(e.func, ast.Attribute) and e.func.attr == 'format' and isinstance(e.func.value, ast.Constant) \
                    and isinstance(e.func.value.value, str) and len(e.args) == 1 and not e.keywords and e.func.value.value.count('{}') == 1 \
                    and e.func.value.value.count('{') == 1:
                b_ = str_eval(e.args[0], key)
                return None if b_ is None else e.func.value.value.replace('{}', b_)
            return None
        # the name looked up in the environment: the subscript / first argument of the read
        look = [x.slice for x in ast.walk(evalue) if isinstance(x, ast.Subscript) and 'environ' in ast.unparse(x.value)] + \
               [x.args[0] for x in ast.walk(evalue) if isinstance(x, ast.Call) and callee_attr(x) in ('get', 'getenv') and x.args
                and ('environ' in ast.unparse(x.func) or 'getenv' in ast.unparse(x.func))]
        names = set()
        if len(look) == 1:
            names = {str_eval(look[0], key) for key in sorted(KEYS)}
            names = {x if x is not None else norm(look[0]) for x in names}
        if names == {'NDN_CLIENT_TRANSPORT', 'NDN_CLIENT_PIB', 'NDN_CLIENT_TPM'}:
            R.ok('C20.TBL.1', inst, site(rc, envw[0].ast), str(sorted(names)))
        else:
            R.fail('C20.TBL.1', inst, RC, envw[0].ast, f'environment variables consulted are {sorted(names) or norm(envw[0].ast.value)}', site(rc, envw[0].ast))
    if (RC + '.<get_path>') in R.P.funcs:
        gp = ctx(R, RC + '.<get_path>')
        inst = RC + '.<get_path> :: first existing candidate'
        loops = [n for n in gp.cfg.nodes if n.kind == 'for']
        rets = returns(gp)
        good = False
        if len(loops) == 1:
            lp = loops[0]
            srcs = gp.sources(lp, lp.ast.iter)
            from_platform = any(s.kind == 'expr' and 'client_conf_paths' in ast.unparse(s.expr) for s in srcs)
            inner = [r for r in rets if any(x is r.ast for x in ast.walk(lp.ast))]
            exists = [t for t in gp.cfg.nodes if t.kind == 'test' and 'os.path.exists' in ast.unparse(t.ast)]
            outer = [r for r in rets if r not in inner]
            good = from_platform and len(inner) == 1 and len(exists) == 1 and \
                inner[0].id not in gp.cfg.reachable(removed_edges={(exists[0].id, True)}) and \
                all(isinstance(_through(gp, r.ast.value), ast.Constant) and not _through(gp, r.ast.value).value for r in outer) and \
                not any(isinstance(x, ast.Continue) for x in ast.walk(lp.ast))
        if good:
            R.ok('C20.TBL.1', inst, site(gp, loops[0].ast))
        else:
            R.fail('C20.TBL.1', inst, gp.qual, loops[0].ast if loops else 'def get_path', 'the configuration file is not the first existing path '
                   'of Platform().client_conf_paths()', site(gp, gp.f.node))
    else:
        # the search is written (or was expanded from a helper) in read_client_conf itself: the local that is opened as the configuration file is
        # bound in a loop over Platform().client_conf_paths() on the "exists" edge, leaving the loop, and to a falsy constant otherwise
        inst = RC + ' :: first existing candidate (search in line)'
        pv = conf_path_local(rc)
        R.need(pv is not None, 'neither a get_path helper nor an in-line search for the configuration file was found')
        defs = [(n, v) for n in rc.cfg.nodes for (nm, v) in rc.cfg.defs_of(n) if nm == pv]
        loops = [n for n in rc.cfg.nodes if n.kind == 'for' and 'client_conf_paths' in full_text(rc, n.ast.iter)]
        good = False
        if len(loops) == 1:
            lp = loops[0]
            inl = [(n, v) for (n, v) in defs if n.stmt is not None and any(x is n.stmt for x in ast.walk(lp.ast))]
            outl = [(n, v) for (n, v) in defs if (n, v) not in inl]
            exists = [t for t in rc.cfg.nodes if t.kind == 'test' and 'os.path.exists' in ast.unparse(t.ast) and any(x is t.stmt for x in ast.walk(lp.ast))]
            good = len(inl) == 1 and len(exists) == 1 and inl[0][0].id not in rc.cfg.reachable(removed_edges={(exists[0].id, True)}) \
                and lp.id not in reach_from_succ(rc.cfg, inl[0][0], follow_exc=False) \
                and isinstance(inl[0][1], ast.AST) and ast.unparse(exists[0].ast.args[0]) == ast.unparse(inl[0][1]) \
                and bool(outl) and all(isinstance(v, ast.Constant) and not v.value for (_, v) in outl) \
                and not any(isinstance(x, ast.Continue) for x in ast.walk(lp.ast))
        if good:
            R.ok('C20.TBL.1', inst, site(rc, loops[0].ast))
        else:
            R.fail('C20.TBL.1', inst, rc.qual, loops[0].ast if loops else 'def read_client_conf', 'the configuration file is not the first existing path '
                   'of Platform().client_conf_paths()', site(rc, rc.f.node))

    # ------------------------------------------------------------------ EXH.1
    df = ctx(R, 'ndn.client_conf.default_face')
    dom = StrDomain(['unix', 'tcp', 'tcp4', 'tcp6', 'udp', 'udp4', 'udp6'],
                    probes=['tcps', 'tcp5', 'tcp-tls', 'udplite', 'udp4+dtls', 'unixs', 'xunix', 'ws', 'http', '', 'tcp46', 'tcp44', 'udp64', 'unix6', 'tcp4 '])
    want = {'unix': 'UnixFace', 'tcp': 'TcpFace', 'tcp4': 'TcpFace', 'tcp6': 'TcpFace', 'udp': 'UdpFace', 'udp4': 'UdpFace', 'udp6': 'UdpFace'}
    var = 'scheme'
    srcs = [v for n in df.cfg.nodes for (nm, v) in df.cfg.defs_of(n) if nm == var]
    # `scheme = <url>.scheme`, possibly passed through pure str methods with constant arguments (folded per probe value)
    PURE = {'lower', 'upper', 'casefold', 'strip', 'rstrip', 'lstrip', 'removesuffix', 'removeprefix'}
    chain = []
    e0 = srcs[0] if len(srcs) == 1 and isinstance(srcs[0], ast.AST) else None
    while isinstance(e0, ast.Call) and isinstance(e0.func, ast.Attribute) and e0.func.attr in PURE and not e0.keywords \
            and all(isinstance(a, ast.Constant) and isinstance(a.value, str) for a in e0.args):
        chain.insert(0, (e0.func.attr, [a.value for a in e0.args]))
        e0 = e0.func.value
    if not (e0 is not None and ast.unparse(e0).endswith('.scheme')):
        raise AnalysisError('default_face: cannot find `scheme = urlparse(face).scheme`')

    def transformed(v_):
        if v_ == dom.OTHER:
            return v_
        for (meth_, args_) in chain:
            v_ = getattr(v_, meth_)(*args_)
        return v_
    for v in dom.values:
        removed = pruned_edges(df, var, dom, transformed(v))
        reach = df.cfg.reachable(removed_edges=removed, follow_exc=False)
        outs = set()
        for r in returns(df):
            if r.id in reach and isinstance(r.ast.value, ast.Call):
                outs.add(ast.unparse(r.ast.value.func))
            elif r.id in reach:
                outs.add('return ' + ast.unparse(r.ast.value) if r.ast.value else 'return None')
        rs = [n for n in df.cfg.nodes if n.kind == 'raise' and n.id in reach]
        if df.cfg.falloff.id in reach:
            outs.add('<falls off: None>')
        inst = f'default_face :: scheme {v}'
        if v not in dom.legal:
            if outs or not rs:
                R.fail('C20.EXH.1', inst, df.qual, 'def default_face', f'the unsupported scheme {v!r} yields {sorted(outs)} instead of being refused', site(df, df.f.node))
            else:
                R.ok('C20.EXH.1', inst, site(df, rs[0].ast), 'raises')
        else:
            if outs != {want[v]}:
                R.fail('C20.EXH.1', inst, df.qual, 'def default_face', f'scheme {v} selects {sorted(outs) or "an exception"}, expected {want[v]}',
                       site(df, df.f.node))
            else:
                R.ok('C20.EXH.1', inst, site(df, df.f.node), want[v])
    R.paths_examined += len(dom.values)
    # arguments and default port
    inst = 'default_face :: address, port and default 6363'
    probs = []
    for r in returns(df):
        c = r.ast.value
        if not isinstance(c, ast.Call):
            continue
        fn = ast.unparse(c.func)
        def deep(a):
            out = []
            names = [x for x in ast.walk(a) if isinstance(x, ast.Name) and x.id not in ('int', 'str')]
            if not names or not isinstance(a, ast.Call):
                return df.sources(r, a)
            for nm in names:
                out += df.sources(r, nm)
            return out
        args = [deep(a) for a in c.args]
        txt = [srcs_text(a) for a in args]
        if fn == 'UnixFace':
            if not (len(txt) == 1 and any(t.endswith('.path') for t in txt[0])):
                probs.append((f'UnixFace gets {txt}, expected the URI path', c))
        else:
            if not (len(txt) == 2 and any(t.endswith('.hostname') or 'hostname' in t for t in txt[0])):
                probs.append((f'{fn} host is {txt[:1]}, expected the URI hostname', c))
            elif not any('.port' in t or '6363' in t for t in txt[1]):
                probs.append((f'{fn} port is {txt[1]}, expected the URI port (default 6363)', c))
    ports = [n for n in df.cfg.nodes if n.kind == 'stmt' and isinstance(n.ast, ast.Assign) and ast.unparse(n.ast.targets[0]) == 'port'
             and isinstance(n.ast.value, ast.Constant)]
    # the default may also be spelled in the expression that binds the port: `url.port or 6363`, `6363 if url.port is None else url.port`
    inline_default = [v for n in df.cfg.nodes for (nm, v) in df.cfg.defs_of(n) if nm == 'port' and isinstance(v, (ast.BoolOp, ast.IfExp))
                      and '.port' in ast.unparse(v)]
    if not ports and inline_default:
        consts = {x.value for v in inline_default for x in ast.walk(v) if isinstance(x, ast.Constant) and isinstance(x.value, int) and not isinstance(x.value, bool)}
        if consts != {6363}:
            probs.append((f'default port is {sorted(consts)}, expected 6363', inline_default[0]))
        elif any(isinstance(v, ast.BoolOp) and not (isinstance(v.op, ast.Or) and ast.unparse(v.values[0]).endswith('.port')) for v in inline_default):
            probs.append(('the default port overrides a port given in the URI', inline_default[0]))
    elif len(ports) != 1 or ports[0].ast.value.value != 6363:
        probs.append((f'default port is {[p.ast.value.value for p in ports]}, expected 6363', ports[0].ast if ports else df.f.node))
    else:
        tests = [t for t in df.cfg.nodes if t.kind == 'test' and ast.unparse(t.ast) in ('port', 'port is None', 'port is not None')]
        if not tests or ports[0].id in df.cfg.reachable(removed_edges={(t.id, ast.unparse(t.ast) != 'port is None') and (t.id, False if ast.unparse(t.ast) != 'port is None' else True) for t in tests}):
            probs.append(('the default port overrides a port given in the URI', ports[0].ast))
    if probs:
        for (what, construct) in probs:
            R.fail('C20.EXH.1', inst, df.qual, construct if not isinstance(construct, ast.FunctionDef) else 'def default_face', what, site(df, construct))
    else:
        R.ok('C20.EXH.1', inst, site(df, df.f.node))
    dk = ctx(R, 'ndn.client_conf.default_keychain')
    for var, vals, wantmap in (('tpm_scheme', ['tpm-file', 'tpm-osxkeychain', 'tpm-cng'], {'tpm-file': 'TpmFile', 'tpm-osxkeychain': 'TpmOsxKeychain', 'tpm-cng': 'TpmCng'}),
                               ('pib_scheme', ['pib-sqlite3'], {'pib-sqlite3': 'KeychainSqlite3'})):
        dom = StrDomain(vals, probes=[vals[0] + 'x', vals[0][:-1], ''])
        for v in dom.values:
            removed = pruned_edges(dk, var, dom, v)
            reach = dk.cfg.reachable(removed_edges=removed, follow_exc=False)
            built = {ast.unparse(c_.func) for n in dk.cfg.nodes if n.id in reach and n.kind in ('stmt', 'return') and n.ast is not None
                     for c_ in ast.walk(n.ast) if isinstance(c_, ast.Call) and ast.unparse(c_.func) in wantmap.values()}
            inst = f'default_keychain :: {var} {v}'
            if v not in dom.legal:
                if dk.cfg.exit.id in reach:
                    R.fail('C20.EXH.1', inst, dk.qual, 'def default_keychain', f'an unknown {var} does not raise', site(dk, dk.f.node))
                else:
                    R.ok('C20.EXH.1', inst, site(dk, dk.f.node), 'raises')
            else:
                if wantmap[v] not in built or dk.cfg.exit.id not in reach:
                    R.fail('C20.EXH.1', inst, dk.qual, 'def default_keychain', f'{var} {v} does not build {wantmap[v]} (builds {sorted(built)})', site(dk, dk.f.node))
                else:
                    R.ok('C20.EXH.1', inst, site(dk, dk.f.node), wantmap[v])
    # ------------------------------------------------------------------ ESC.1: scheme:location splits
    nsplit = 0
    for q in (RC + '.<resolve_location>', 'ndn.client_conf.default_keychain'):
        cx = ctx(R, q)
        for (n, c) in calls_in_ctx(cx, pred=lambda c: callee_attr(c) in ('split', 'rsplit', 'partition')):
            if not (c.args and isinstance(c.args[0], ast.Constant) and c.args[0].value == ':'):
                continue
            nsplit += 1
            inst = f'{q} :: {norm(c)}'
            okc = callee_attr(c) == 'partition' or (callee_attr(c) == 'split' and len(c.args) == 2 and isinstance(c.args[1], ast.Constant) and c.args[1].value == 1)
            if okc:
                R.ok('C20.ESC.1', inst, site(cx, c), 'at most one split')
            else:
                R.fail('C20.ESC.1', inst, q, c, 'scheme:location is split on every colon: a location containing `:` makes the 2-tuple unpack raise ValueError',
                       site(cx, c))
    R.need(nsplit >= 3, f'only {nsplit} scheme:location splits found, 3 confirmed by hand')
    # ------------------------------------------------------------------ MPT.1 resolve_location
    # Decided by exhaustive exploration of resolve_location under every valuation of its file-system / argument conditions, with the
    # location carried symbolically:  given (the text after the colon) | empty | joined (given re-based on the directory of the
    # configuration file) | plat:<item> (a platform default candidate) | platok:<item> (a candidate seen to exist).
    rl = ctx(R, RC + '.<resolve_location>')
    inst = rl.qual + ' :: fallback chain'
    rl_params = [a.arg for a in rl.f.node.args.args]
    R.need(len(rl_params) >= 2, 'resolve_location(item, value) expected')
    p_item, p_value = rl_params[0], rl_params[1]
    probs = []

    def sym(e, st):
        """symbolic value of an expression in state st (a dict), None = not a tracked value"""
        if isinstance(e, ast.Name):
            if e.id == p_value:
                return 'given'
            return st.get(e.id)
        if isinstance(e, ast.Constant) and e.value == '':
            return 'empty'
        if isinstance(e, ast.BoolOp) and isinstance(e.op, ast.Or):
            # `a or b`: the first operand that is truthy, else the last
            for x in e.values[:-1]:
                vx = sym(x, st)
                t = None if vx is None else {'given': VAL['L'], 'empty': False, 'joined': True}.get(vx, True if vx.startswith('plat') else None)
                if t is None:
                    return '?'
                if t:
                    return vx
            return sym(e.values[-1], st)
        if isinstance(e, ast.Call):
            f = ast.unparse(e.func)
            if f == 'os.path.join' and len(e.args) == 2 and isinstance(e.args[0], ast.Call) and ast.unparse(e.args[0].func) == 'os.path.dirname' \
                    and len(e.args[0].args) == 1 and sym(e.args[0].args[0], st) == 'confpath' and sym(e.args[1], st) == 'given':
                return 'joined'
            if f == 'os.path.expandvars' and len(e.args) == 1:
                return sym(e.args[0], st)
            if callee_attr(e) in ('default_pib_paths', 'default_tpm_paths') and 'Platform()' in full_text(rl, e.func):
                return 'platlist:' + callee_attr(e)[8:11]
            if callee_attr(e) in ('split', 'partition', 'rsplit') and sym(e.func.value, st) == 'given':
                return 'given'
            if f in ('str',) and len(e.args) == 1:
                return sym(e.args[0], st)
        if isinstance(e, ast.Subscript):
            return sym(e.value, st)
        if isinstance(e, ast.IfExp):
            t = atom(e.test, st)
            if t is True:
                return sym(e.body, st)
            if t is False:
                return sym(e.orelse, st)
            a_, b_ = sym(e.body, st), sym(e.orelse, st)
            return a_ if a_ == b_ else ('?' if (a_ or b_) else None)
        return None

    def atom(e, st):
        t = ast.unparse(e)
        if isinstance(e, ast.Name) and e.id in st:
            v = st[e.id]
            # (get_path yields '' when there is no file: `path is not None` and `path` differ only in re-basing on '' = no re-basing)
            return {'given': VAL['L'], 'empty': False, 'joined': True, 'confpath': VAL['P']}.get(v, True if v.startswith('plat') else None)
        if isinstance(e, ast.Call) and ast.unparse(e.func) == 'os.path.exists' and len(e.args) == 1:
            v = sym(e.args[0], st)
            if v == 'given':
                return VAL['E1']
            if v == 'joined':
                return VAL['E2']
            if v == 'empty':
                return False
            if v and v.startswith('platok'):
                return True
            if v and v.startswith('plat:'):
                return None        # each candidate may or may not exist
            raise AnalysisError(f'{rl.qual}: existence test on an untracked value `{t}`')
        if isinstance(e, ast.Call) and ast.unparse(e.func) == 'os.path.isabs' and len(e.args) == 1:
            v = sym(e.args[0], st)
            if v == 'given':
                return VAL['A']
            if v == 'empty':
                return False
            if v == 'joined' and VAL['A']:
                return True         # joining onto an absolute location gives that location
            return None
        c = cmp_sides(e)
        if c:
            l, op, r = c
            if r == 'None' and sym(e.left, st) == 'confpath' and op in (ast.Is, ast.IsNot, ast.Eq, ast.NotEq):
                return (not VAL['P']) if op in (ast.Is, ast.Eq) else VAL['P']
            if l == p_item and r in ("'pib'", "'tpm'") and op in (ast.Eq, ast.NotEq):
                v = VAL['I'] if r == "'pib'" else not VAL['I']
                return v if op is ast.Eq else not v
            if isinstance(e.left, ast.Call) and ast.unparse(e.left.func) == 'len' and len(e.left.args) == 1 and sym(e.left.args[0], st) == 'given' \
                    and (r, op) in (('1', ast.Eq), ('2', ast.Lt), ('2', ast.NotEq), ('1', ast.LtE)):
                return not VAL['C']     # the split gave a single part: no colon in the value
            if isinstance(e.left, ast.Call) and ast.unparse(e.left.func) == 'len' and len(e.left.args) == 1 and sym(e.left.args[0], st) == 'given' \
                    and (r, op) in (('2', ast.Eq), ('1', ast.Gt), ('1', ast.NotEq), ('2', ast.GtE)):
                return VAL['C']
        return None

    def undecided(n, stt):
        # a fork is modelled only for the existence of a platform candidate
        e = n.ast
        if isinstance(e, ast.Call) and ast.unparse(e.func) in ('os.path.exists', 'os.path.isabs'):
            return
        if any(isinstance(x, ast.Name) and (x.id in dict(stt) or x.id in (p_item, p_value)) for x in ast.walk(e)):
            raise AnalysisError(f'{rl.qual}: unrecognised condition on the location `{norm(e)}`')

    def transfer(n, stt):
        st = dict(stt)
        if n.kind == 'stmt' and isinstance(n.ast, ast.Assign) and len(n.ast.targets) == 1:
            tg = n.ast.targets[0]
            v = sym(n.ast.value, st)
            if isinstance(tg, ast.Name):
                if v is not None:
                    st[tg.id] = v
                else:
                    st.pop(tg.id, None)
            elif isinstance(tg, (ast.Tuple, ast.List)):
                for x in tg.elts:
                    if isinstance(x, ast.Name):
                        if v is not None:
                            st[x.id] = v
                        else:
                            st.pop(x.id, None)
        elif n.kind == 'for' and isinstance(n.ast.target, ast.Name):
            v = sym(n.ast.iter, st)
            if v and v.startswith('platlist:'):
                st[n.ast.target.id] = 'plat:' + v[9:]
            else:
                st.pop(n.ast.target.id, None)
        return tuple(sorted(st.items()))

    def on_edge(t, label, stt):
        e = t.ast
        if label is True and isinstance(e, ast.Call) and ast.unparse(e.func) == 'os.path.exists' and len(e.args) == 1 and isinstance(e.args[0], ast.Name):
            st = dict(stt)
            v = st.get(e.args[0].id)
            if v and v.startswith('plat:'):
                st[e.args[0].id] = 'platok:' + v[5:]
                return tuple(sorted(st.items()))
        return stt

    from .lvs import cmp_sides

    def atom_t(e, stt):
        return atom(e, dict(stt))

    def loc_of_return(r, st):
        v = r.ast.value
        if isinstance(v, ast.Call) and ast.unparse(v.func) == "':'.join" and len(v.args) == 1 and isinstance(v.args[0], (ast.Tuple, ast.List)) and len(v.args[0].elts) == 2:
            return sym(v.args[0].elts[1], st)
        if isinstance(v, ast.JoinedStr) and len(v.values) == 3 and isinstance(v.values[1], ast.Constant) and v.values[1].value == ':' \
                and isinstance(v.values[2], ast.FormattedValue):
            return sym(v.values[2].value, st)
        if isinstance(v, ast.BinOp) and isinstance(v.op, ast.Add) and isinstance(v.left, ast.BinOp) and isinstance(v.left.right, ast.Constant) and v.left.right.value == ':':
            return sym(v.right, st)
        return None
    # the configuration path: the enclosing function's local bound to get_path()
    if (RC + '.<get_path>') in R.P.funcs:
        gp_name = ctx(R, RC + '.<get_path>').f.node.name      # (the function may have been moved / renamed: its current name)
        free_path = [nm for nm, v in unique_defs(rc).items() if isinstance(v, ast.Call) and ast.unparse(v.func) in ('get_path', gp_name)]
    else:
        free_path = [conf_path_local(rc)] if conf_path_local(rc) else []
    R.need(len(free_path) == 1, 'the configuration path local (`path = get_path()`) was not found')
    # (the path of the configuration file: the enclosing function's local, or - when the helper was moved out - its third parameter)
    st0 = tuple(sorted({(rl_params[2] if len(rl_params) >= 3 else free_path[0]): 'confpath'}.items()))
    rets = returns(rl)
    n_val = 0
    for (C, L) in ((True, True), (True, False), (False, False)):
        for E1 in (True, False):
            for Pv in (True, False):
                for E2 in (True, False):
                    for I, A in ((True, False), (False, False), (True, True), (False, True)):
                        # A: the location is an absolute path (then "relative to the file's directory" is the location itself)
                        if (not L and (E1 or E2 or A)) or (not Pv and E2) or (A and E2 != E1):
                            continue
                        VAL = {'C': C, 'L': L, 'E1': E1, 'P': Pv, 'E2': E2, 'I': I, 'A': A}
                        n_val += 1
                        reached = explore_sym(rl, atom_t, transfer, st0, on_edge, on_undecided=undecided)
                        got = set()
                        for r in rets:
                            for (nid, stt) in reached:
                                if nid == r.id:
                                    v = loc_of_return(r, dict(stt))
                                    got.add('empty' if (v == 'given' and not L) else (v or f'?{norm(r.ast)}'))
                        kind = 'pib' if I else 'tpm'
                        if not L:
                            want = {'platok:' + kind, 'empty'}
                        elif E1:
                            want = {'given'}
                        elif Pv and E2:
                            want = {'joined'}
                        elif Pv:
                            want = {'platok:' + kind, 'joined'}
                        else:
                            want = {'platok:' + kind, 'given'}
                        if A:
                            got = {('given' if x == 'joined' else x) for x in got}
                            want = {('given' if x == 'joined' else x) for x in want}
                        if got != want:
                            desc = f'location {"non-empty" if L else "empty"}' + (' and absolute' if A else '') + (f', {"exists" if E1 else "missing"} as given' if L else '') + \
                                (f', configuration file {"present" if Pv else "absent"}' if L and not E1 else '') + \
                                (f', {"exists" if E2 else "missing"} relative to it' if L and not E1 and Pv else '') + f', item {kind}'
                            probs.append((f'[{desc}] resolves to {sorted(got)}, expected {sorted(want)}', rl.f.node))
    R.paths_examined += n_val
    if probs:
        seen_p = set()
        for (what, construct) in probs[:1]:
            R.fail('C20.MPT.1', inst, rl.qual, 'def resolve_location', what + (f' (+{len(probs) - 1} more valuations)' if len(probs) > 1 else ''), site(rl, construct))
    else:
        R.ok('C20.MPT.1', inst, site(rl, rl.f.node), f'{n_val} valuations of (colon?, location empty?, absolute?, exists as given?, configuration file?, exists relative?, item)')
    R.assumptions += ['ConfigParser / urlparse / os.path semantics', 'file-system state is not decided']
