"""Helpers shared by the rule modules."""
import ast

from ..cfg import walk_shallow
from ..flow import ctx_of, callee_attr, nested_funcs
from ..loader import AnalysisError, norm, NOVALUE, FuncT


def ctx(R, qual):
    c = ctx_of(R.P, qual)
    R.touch(c.f)
    return c


def family(R, qual):
    """a function and all its nested closures (as contexts)"""
    out = [ctx(R, qual)]
    for q in nested_funcs(R.P, qual):
        out.append(ctx(R, q))
    return out


def truthy_label(test, text):
    """edge label of test node `test` under which the expression with unparse-text `text` is truthy / not None
    (None if the test says nothing about it)"""
    if ast.unparse(test) == text:
        return True
    if isinstance(test, ast.Compare) and len(test.ops) == 1 and ast.unparse(test.left) == text:
        c = test.comparators[0]
        if isinstance(c, ast.Constant) and c.value is None:
            if isinstance(test.ops[0], (ast.IsNot, ast.NotEq)):
                return True
            if isinstance(test.ops[0], (ast.Is, ast.Eq)):
                return False
    return None


def tests_on(cx, text):
    """[(test_node, truthy_label)] for tests on expression `text` in cx"""
    out = []
    for n in cx.cfg.nodes:
        if n.kind == 'test':
            l = truthy_label(n.ast, text)
            if l is not None:
                out.append((n, l))
    return out


def returns(cx):
    return [n for n in cx.cfg.nodes if n.kind == 'return']


def const_bool(e):
    """True/False for a constant truthy/falsy return value, None for unknown; bare return -> 'none'"""
    if e is None:
        return 'none'
    if isinstance(e, ast.Constant):
        if e.value is None:
            return 'none'
        return bool(e.value)
    return None


def calls_in_ctx(cx, attr=None, text=None, pred=None):
    out = []
    for n in cx.cfg.nodes:
        for c in n.calls():
            if attr is not None and callee_attr(c) != attr:
                continue
            if text is not None and ast.unparse(c.func) != text:
                continue
            if pred is not None and not pred(c):
                continue
            out.append((n, c))
    return out


def resolve_call(P, cx, c):
    """qualified name of the repository function a call resolves to statically (module functions, Class.method,
    self.method, nested closures), or None"""
    f = c.func
    r = P.resolve(cx.f.mod, f)
    q = P.qual_of(r)
    if q:
        return q
    if r and r[0] == 'class':
        init = P.find_member(r[1], r[2], '__init__')
        return P.qual_of(init) if init and init[0] == 'method' else None
    if isinstance(f, ast.Name):
        c2 = cx
        while c2 is not None:
            q = c2.qual + '.<' + f.id + '>'
            if q in P.funcs:
                return q
            c2 = c2.parent
    if isinstance(f, ast.Attribute) and isinstance(f.value, ast.Name) and f.value.id in ('self', 'cls') and cx.f.cls:
        # method of the enclosing class (closures inherit self)
        for (mm, cc) in P.mro(cx.f.mod, cx.f.cls) if (cx.f.mod, cx.f.cls) in P.classes else []:
            r = P.find_member(mm, cc, f.attr)
            if r and r[0] == 'method':
                return P.qual_of(r)
    return None


def reach_from_succ(cfg, node, label=None, removed_nodes=(), removed_edges=(), follow_exc=True):
    """ids reachable starting from the successors of node along edges with the given label"""
    seen = set()
    for (s, l) in node.succ:
        if label is not None and l != label:
            continue
        if l == 'exc' and not follow_exc:
            continue
        seen |= cfg.reachable(s, removed_nodes, removed_edges, follow_exc)
    return seen


def self_attr(e, attr=None):
    """e is self.<attr>"""
    return isinstance(e, ast.Attribute) and isinstance(e.value, ast.Name) and e.value.id == 'self' and \
        (attr is None or e.attr == attr)


def site(cx, node):
    return f'{cx.f.path}:{getattr(node, "lineno", 0) or cx.f.node.lineno}'


def srcs_text(srcs):
    return sorted({s.text() for s in srcs})


def is_call_to(P, mod, e, qual):
    """expression e is a call that resolves to repository function `qual`"""
    if not isinstance(e, ast.Call):
        return False
    return P.qual_of(P.resolve(mod, e.func)) == qual


def class_attr_annotation(P, mod, cls, attr):
    r = P.find_member(mod, cls, attr)
    if r and r[0] == 'classann':
        return r[4]
    return None


def stmt_at(fn_node, line):
    """innermost statement of fn_node spanning `line`"""
    best = None
    for s in ast.walk(fn_node):
        if isinstance(s, ast.stmt) and s.lineno <= line <= getattr(s, 'end_lineno', s.lineno):
            if isinstance(s, (ast.If, ast.For, ast.While, ast.Try, ast.With, ast.AsyncWith, ast.AsyncFor) + FuncT):
                # compound: only its header line counts
                hdr_end = s.body[0].lineno - 1 if s.body else s.lineno
                if not (s.lineno <= line <= max(hdr_end, s.lineno)):
                    continue
            if best is None or (s.lineno >= best.lineno and getattr(s, 'end_lineno', 0) <= getattr(best, 'end_lineno', 1 << 30)):
                best = s
    return best


def escape_check(R, oid, entry, allowed, what_entry, require_resolved=True, only=None):
    """ESC rule: the escape set of `entry` must be a subset of `allowed` (class names; subclasses allowed)."""
    from ..esc import esc_of, short
    from ..tables import NEVER_REPORTED
    P = R.P
    E = esc_of(P)
    F = P.func(entry)
    R.touch(F)
    S = E.analyze(entry, fine=True)
    if require_resolved and S.unresolved:
        R.defer(f'{oid}: unresolved internal call(s) in the region of {entry}: {sorted(S.unresolved)[:5]}')
        return
    groups = {}
    for (exc, (line, last)), w in S.raises.items():
        if exc in NEVER_REPORTED:
            continue
        if any(a in P.supers(exc) for a in allowed):
            continue
        if only is not None and not any(a in P.supers(exc) for a in only):
            continue
        groups.setdefault((line, exc), []).append(w)
    clo = E.closure(entry)
    for q in clo:
        R.functions.add(q)
    R.callsites_seen, R.callsites_resolved = E.n_calls, E.n_resolved
    R.paths_examined += len(S.raises)
    if not groups:
        R.ok(oid, f'{entry} :: escape set', F.loc(), f'{what_entry}: no exception class outside {sorted(allowed) or "{}"} escapes; '
             f'{len(clo)} functions in the call closure, {len(S.raises)} raising sites filtered by handlers')
        return S
    for (line, exc), ws in sorted(groups.items()):
        st = stmt_at(F.node, line)
        construct = st if st is not None else f'line {line}'
        R.fail(oid, f'{entry} :: {short(exc)} at {norm(construct)[:70]}', entry, construct,
               f'{short(exc)} can escape {what_entry} ({len(ws)} raising site(s); e.g. {ws[0][-220:]})',
               f'{F.path}:{line}', witness=sorted(ws)[:8])
    return S


def optional_int_attr(P, cx, e):
    """e is `<v>.<attr>` where <v> is a (closure) parameter annotated with a class whose <attr> is an optional integer:
    a dataclass field annotated `int | None`, or a TLV UintField. Returns a description or None."""
    from ..models import models_of
    if not (isinstance(e, ast.Attribute) and isinstance(e.value, ast.Name)):
        return None
    c = cx
    ann = None
    while c is not None and ann is None:
        for a in c.f.node.args.args + c.f.node.args.kwonlyargs:
            if a.arg == e.value.id and a.annotation is not None:
                ann = (c.f.mod, a.annotation)
        if ann is None:
            for s in ast.walk(c.f.node):
                if isinstance(s, ast.AnnAssign) and isinstance(s.target, ast.Name) and s.target.id == e.value.id:
                    ann = (c.f.mod, s.annotation)
        c = c.parent
    mc = None
    if ann is None:
        # a local whose every binding is `Cls(...)` or `Cls.parse(...)` of one class
        found = set()
        for n in cx.cfg.nodes:
            for (nm, v) in cx.cfg.defs_of(n):
                if nm != e.value.id:
                    continue
                c_ = None
                if isinstance(v, ast.Call):
                    fn = v.func
                    if isinstance(fn, ast.Attribute) and fn.attr == 'parse':
                        fn = fn.value
                    r = P.resolve(cx.f.mod, fn) if isinstance(fn, (ast.Name, ast.Attribute)) else None
                    if r and r[0] == 'class':
                        c_ = (r[1], r[2])
                found.add(c_)
        if len(found) != 1 or None in found:
            return None
        mc = next(iter(found))
    else:
        mc = P.ann_class(ann[0], ann[1])
    if not mc or mc not in P.classes:
        return None
    M = models_of(P)
    if M.is_model(mc):
        f = M.field(mc, e.attr)
        if f is not None and f.kind == 'UintField' and f.nullable:
            return f'UintField {mc[1]}.{e.attr}'
        return None
    r = P.find_member(mc[0], mc[1], e.attr)
    if r and r[0] == 'classann':
        t = ast.unparse(r[4])
        if 'int' in t.replace('Interest', '') and P.ann_nullable(r[4]):
            return f'{mc[1]}.{e.attr}: {t}'
    return None


def int_truthiness_uses(P, cx):
    """places where an optional integer is tested by truthiness (0 would be taken for "absent"):
    bare `if x.f`, `not x.f`, `x.f or default`, `x.f and ...`, `v if x.f else w`"""
    out = []
    for n in cx.cfg.nodes:
        if n.kind == 'test':
            d = optional_int_attr(P, cx, n.ast)
            if d:
                out.append((n.ast, d))
        for x in n.walk():
            if isinstance(x, ast.BoolOp):
                for v in x.values[:-1] if isinstance(x.op, ast.Or) else x.values:
                    d = optional_int_attr(P, cx, v)
                    if d and n.kind != 'test':
                        out.append((x, d))
            if isinstance(x, ast.IfExp):
                d = optional_int_attr(P, cx, x.test)
                if d:
                    out.append((x, d))
            if isinstance(x, ast.UnaryOp) and isinstance(x.op, ast.Not):
                d = optional_int_attr(P, cx, x.operand)
                if d and n.kind != 'test':
                    out.append((x, d))
    return out


def stale_measures(cx, measure=('get_tl_num_size',)):
    """A length number must be sized on the value that is finally announced: for every call `measure(E)` at node n and every
    local name v in E, each return reachable from n whose value depends on v (directly or through locals) must see the same
    definitions of v as n did. -> list of (call, name, return_node)"""
    out = []
    cfg = cx.cfg

    def ids(node, name):
        return frozenset(d.id for (d, _) in cfg.defs_reaching(node, name))

    def closure(node, expr, depth=0, seen=None):
        seen = set() if seen is None else seen
        names = set()
        for x in ast.walk(expr):
            if isinstance(x, ast.Name) and isinstance(x.ctx, ast.Load):
                names.add(x.id)
                if depth < 4:
                    for (d, v) in cfg.defs_reaching(node, x.id):
                        if (d.id, x.id) in seen:
                            continue
                        seen.add((d.id, x.id))
                        if isinstance(v, ast.AST):
                            names |= closure(d, v, depth + 1, seen)
                        elif isinstance(v, tuple) and v and v[0] == 'aug':
                            names |= closure(d, v[1].value, depth + 1, seen)
        return names
    rets = returns(cx)
    for n in cfg.nodes:
        for c in n.calls():
            if not (isinstance(c.func, (ast.Name, ast.Attribute)) and (c.func.id if isinstance(c.func, ast.Name) else c.func.attr) in measure) or not c.args:
                continue
            vs = {x.id for x in ast.walk(c.args[0]) if isinstance(x, ast.Name) and x.id != 'self'}
            if not vs:
                continue
            reach = cfg.reachable(start=n, follow_exc=False)
            for r in rets:
                if r.id == n.id or r.id not in reach or r.ast.value is None:
                    continue
                dep = closure(r, r.ast.value)
                for v in sorted(vs & dep):
                    # definitions made *at* n (e.g. `x = f(measure(x))`) count as seen by n
                    if ids(r, v) - {n.id} != ids(n, v) - {n.id} and any(d.id in reach for (d, _) in cfg.defs_reaching(r, v) if d.id != n.id):
                        out.append((c, v, r))
    return out


SUBTYPE = {'list': {'Iterable', 'Sequence', 'Collection', 'list'}, 'tuple': {'Iterable', 'Sequence', 'Collection', 'tuple'},
           'str': {'Iterable', 'Sequence', 'str'}, 'dict': {'Iterable', 'Mapping', 'dict'}}


def _isinstance_of(test, var):
    """set of type names T for a test node `isinstance(var, T)` / `isinstance(var, (T1, T2))`"""
    if isinstance(test, ast.Call) and isinstance(test.func, ast.Name) and test.func.id == 'isinstance' and len(test.args) == 2 \
            and isinstance(test.args[0], ast.Name) and test.args[0].id == var:
        t = test.args[1]
        elts = t.elts if isinstance(t, ast.Tuple) else [t]
        return {ast.unparse(e).rsplit('.', 1)[-1] for e in elts}
    return None


def caller_object_reaches(cx, var, use):
    """definitions of local `var` that make it the *caller's* object (a parameter, or a plain alias of one) and feasibly reach CFG
    node `use` without an intervening re-binding. A path that first fails `isinstance(var, A)` and later passes `isinstance(var, B)`
    with B a subtype of A (list/tuple/str under Iterable ...) is infeasible and ignored."""
    cfg = cx.cfg
    params = {a.arg for a in cx.f.node.args.args + cx.f.node.args.kwonlyargs}
    out = []
    redefs = [n for n in cfg.nodes if any(nm == var for (nm, _) in cfg.defs_of(n))]
    for (d, v) in cfg.defs_reaching(use, var):
        alias = (isinstance(v, tuple) and v and v[0] == 'param') or (isinstance(v, ast.Name) and v.id in params)
        if not alias:
            continue
        removed = {n.id for n in redefs if n.id != d.id}
        reach = cfg.reachable(start=d, removed_nodes=removed, follow_exc=False)
        if use.id not in reach:
            continue
        feasible = True
        tests = [(t, _isinstance_of(t.ast, var)) for t in cfg.nodes if t.kind == 'test' and t.id in reach]
        tests = [(t, ts) for (t, ts) in tests if ts]
        for (t1, a) in tests:
            # every path goes through (t1, False)?
            if use.id in cfg.reachable(start=d, removed_nodes=removed, removed_edges={(t1.id, False)}, follow_exc=False):
                continue
            for (t2, b) in tests:
                if t2 is t1 or len(b) != 1:
                    continue
                sup = SUBTYPE.get(next(iter(b)), set())
                if not (sup & a):
                    continue
                # ... and then through (t2, True), t2 after t1
                if use.id not in cfg.reachable(start=d, removed_nodes=removed, removed_edges={(t2.id, True)}, follow_exc=False) \
                        and t2.id in reach_from_succ(cfg, t1, False, removed_nodes=removed, follow_exc=False):
                    feasible = False
        if feasible:
            out.append(d)
    return out


def expr_texts(cx, node, expr):
    """texts of `expr` itself and, when it is a local name, of the expressions it was bound to (looks through single-use
    temporaries in either direction: `t = E; f(t)` and `f(E)` both yield E)"""
    out = {ast.unparse(expr)}
    if isinstance(expr, ast.Name):
        for s in cx.sources(node, expr):
            if s.kind == 'expr':
                out.add(ast.unparse(s.expr))
            elif s.kind == 'param':
                out.add('param:' + str(s.expr))
    return out


def comes_from(cx, node, expr, fragment):
    return any(fragment in t for t in expr_texts(cx, node, expr))


class _Inline(ast.NodeTransformer):
    def __init__(self, env, depth):
        self.env, self.depth = env, depth

    def visit_Name(self, n):
        if isinstance(n.ctx, ast.Load) and n.id in self.env and self.depth < 8:
            import copy
            v = copy.deepcopy(self.env[n.id])
            return _Inline({k: w for k, w in self.env.items() if k != n.id}, self.depth + 1).visit(v)
        return n

    def visit_Lambda(self, n):
        return n

    visit_ListComp = visit_SetComp = visit_DictComp = visit_GeneratorExp = visit_Lambda


def unique_defs(cx):
    """locals of cx bound exactly once in the function, to an expression (not parameters, loop variables, augmented)"""
    d, bad = {}, set()
    for n in cx.cfg.nodes:
        for nm, v in cx.cfg.defs_of(n):
            if nm in d or not isinstance(v, ast.AST) or n.kind != 'stmt':
                bad.add(nm)
            d[nm] = v
    # a container display is an object that is filled in later, not a value to read back
    return {k: v for k, v in d.items() if k not in bad and not isinstance(v, (ast.List, ast.Dict, ast.Set, ast.ListComp, ast.DictComp, ast.SetComp))}


def inline_ast(cx, expr):
    """expr with every single-definition local (of this function, or of the enclosing functions for a closure's free
    variables) replaced by its defining expression, recursively"""
    import copy
    env = {}
    c = cx
    chain = []
    while c is not None:
        chain.append(c)
        c = c.parent
    for c in reversed(chain):
        u = unique_defs(c)
        if c is not cx:
            # only names the inner function does not bind itself
            u = {k: v for k, v in u.items() if k not in cx.locals}
        env.update(u)
    return _Inline(env, 0).visit(copy.deepcopy(expr))


def full_text(cx, expr):
    """text of expr with every single-definition local replaced by its defining expression, recursively: indifferent to
    temporaries being introduced, inlined or renamed"""
    return ast.unparse(inline_ast(cx, expr))


def spliced_args(cx, call):
    """positional arguments of a call with `*t` spelled out where t is a single-definition local bound to a tuple display
    (`args = (a, b); f(*args)` reads as `f(a, b)`); an unresolvable `*x` is kept as the Starred node"""
    out = []
    for a in call.args:
        if isinstance(a, ast.Starred):
            v = inline_ast(cx, a.value)
            if isinstance(v, ast.Tuple) and not any(isinstance(e, ast.Starred) for e in v.elts):
                out.extend(v.elts)
                continue
        out.append(a)
    return out


def _dict_display_of(cx, name):
    """the dict display a local (of cx's function or an enclosing one) is bound to, if it is bound exactly once and the dict is never
    modified afterwards (no item store / delete, no method call on it, not handed to anything but `**`)"""
    c = cx
    while c is not None:
        ds = [(n, v) for n in c.cfg.nodes for (nm, v) in c.cfg.defs_of(n) if nm == name]
        if ds:
            if len(ds) != 1 or not isinstance(ds[0][1], ast.Dict):
                return None
            for x in ast.walk(c.f.node):
                if isinstance(x, ast.Subscript) and isinstance(x.value, ast.Name) and x.value.id == name and isinstance(x.ctx, (ast.Store, ast.Del)):
                    return None
                if isinstance(x, ast.Attribute) and isinstance(x.value, ast.Name) and x.value.id == name:
                    return None
                if isinstance(x, ast.Call) and any(isinstance(a, ast.Name) and a.id == name for a in x.args):
                    return None
            return ds[0][1]
        c = c.parent
    return None


def bound_args(P, cx, call):
    """{parameter name: argument expression} of a call to a repository function / dataclass, however the arguments are
    spelled (positionally or by keyword). Unresolvable callees yield only the keywords."""
    from ..inline import _resolve, _params_of
    out = {k.arg: k.value for k in call.keywords if k.arg}
    for k in call.keywords:
        if k.arg is None:
            # `**opts` where opts is a single-definition local (of this function or an enclosing one) bound to a dict display with literal keys
            d = _dict_display_of(cx, k.value.id) if isinstance(k.value, ast.Name) else k.value
            if isinstance(d, ast.Dict) and all(isinstance(kk, ast.Constant) and isinstance(kk.value, str) for kk in d.keys):
                for kk, vv in zip(d.keys, d.values):
                    out.setdefault(kk.value, vv)
    t = _resolve(P, cx.f, call)
    names = None
    if t is not None:
        pr = _params_of(P, t, call)
        if pr:
            names = pr[0]
    elif isinstance(call.func, ast.Attribute):
        from ..inline import method_signature
        sg = method_signature(P, cx.f, call.func.attr)
        if sg:
            names = sg[0]
    if names:
        for i, a in enumerate(spliced_args(cx, call)):
            if isinstance(a, ast.Starred):
                break
            if i < len(names):
                out.setdefault(names[i], a)
    return out


def call_arg(P, cx, call, name, default=None):
    return bound_args(P, cx, call).get(name, default)


def test_awaited_call(cx, t):
    """the call whose awaited result test node `t` examines: `await f(..)` itself, or a local all of whose reaching bindings
    are awaits (the canonical form names awaited if-tests); None otherwise. For several bindings the first call is returned
    only if all are calls to the same function text."""
    a = t.ast
    if isinstance(a, ast.Await) and isinstance(a.value, ast.Call):
        return a.value
    if isinstance(a, ast.Name):
        vs = [v for (d, v) in cx.cfg.defs_reaching(t, a.id)]
        if vs and all(isinstance(v, ast.Await) and isinstance(v.value, ast.Call) for v in vs) and len({ast.unparse(v.value.func) for v in vs}) == 1:
            return vs[0].value
    return None


def alias_text(cx, expr):
    """text of expr with locals that are plain aliases (bound once to a name / attribute chain) replaced by what they alias:
    `fields = ret._encoded_fields; fields[i]` reads as `ret._encoded_fields[i]`"""
    import copy
    env = {}
    for k, v in unique_defs(cx).items():
        b = v
        while isinstance(b, ast.Attribute):
            b = b.value
        if isinstance(b, ast.Name) and isinstance(v, (ast.Name, ast.Attribute)):
            env[k] = v
    return ast.unparse(_Inline(env, 0).visit(copy.deepcopy(expr)))


def bulk_appends(cx):
    """[(cfg node, receiver expr, iterable expr)] for `recv.extend(X)` and its canonical spelling `for e in X: recv.append(e)`"""
    out = []
    for (n, c) in calls_in_ctx(cx, attr='extend'):
        if len(c.args) == 1:
            out.append((n, c.func.value, c.args[0]))
    for n in cx.cfg.nodes:
        if n.kind == 'for' and isinstance(n.ast.target, ast.Name) and len(n.ast.body) == 1 and isinstance(n.ast.body[0], ast.Expr) \
                and isinstance(n.ast.body[0].value, ast.Call) and callee_attr(n.ast.body[0].value) == 'append' and not n.ast.orelse:
            c = n.ast.body[0].value
            if len(c.args) == 1 and isinstance(c.args[0], ast.Name) and c.args[0].id == n.ast.target.id:
                out.append((n, c.func.value, n.ast.iter))
    return out


FLIPOP = {ast.Lt: ast.Gt, ast.LtE: ast.GtE, ast.Gt: ast.Lt, ast.GtE: ast.LtE, ast.Eq: ast.Eq, ast.NotEq: ast.NotEq}


def orient(cmp, is_left):
    """a single-operator comparison rewritten so that the side satisfying `is_left` is on the left: Compare node or None.
    Rules state their pattern in one orientation; the source may use either."""
    if not (isinstance(cmp, ast.Compare) and len(cmp.ops) == 1):
        return None
    l, r = cmp.left, cmp.comparators[0]
    if is_left(l):
        return cmp
    if is_left(r) and type(cmp.ops[0]) in FLIPOP:
        return ast.copy_location(ast.Compare(left=r, ops=[FLIPOP[type(cmp.ops[0])]()], comparators=[l]), cmp)
    return None


def shared_obligations(R, oid, module_name, wanted, title=None):
    """run another property's rule module on the same program and take over the instances of the obligations in `wanted`
    (a dict other-obligation-id -> predicate on the instance text, or None for all) under obligation `oid` of this run.
    Used where one property depends on behaviour another property's rules already decide (no second copy of the rule)."""
    import importlib
    from ..report import Run
    mod = importlib.import_module(f'sa.rules.{module_name.lower()}')
    sub = Run(module_name.upper(), R.P, tier='quick', evidence_dir=R.evidence_dir, quiet=True)
    sub.known = []          # known findings are recorded per property: judged afresh under this property's id
    mod.run(sub)
    n = 0
    for o_id, pred in wanted.items():
        ob = sub.obligations.get(o_id)
        if ob is None:
            raise AnalysisError(f'shared obligation {o_id} vanished from {module_name}')
        for inst in ob.instances:
            if pred is not None and not pred(inst['instance']):
                continue
            n += 1
            if inst['status'] == 'discharged':
                R.ok(oid, f'[{o_id}] {inst["instance"]}', inst['site'], inst['detail'])
        for v in sub.violations:
            if v['obligation'] == o_id and (pred is None or pred(v['instance'])):
                R.fail(oid, f'[{o_id}] {v["instance"]}', v['function'], v['construct'], v['what'], v['site'])
    for q in sub.functions:
        R.functions.add(q)
    if n == 0:
        raise AnalysisError(f'shared obligations {sorted(wanted)} of {module_name} have no instance')
    return n


def explore(cx, atom_eval, start=None, stop=()):
    """path-sensitive reachability under a valuation of some atomic conditions: `atom_eval(expr)` gives True / False for the
    expressions the valuation decides and None otherwise. Boolean locals assigned a constant or a decided expression are tracked
    along each path (so `flag = True ... if flag:` and an expanded boolean helper are followed exactly); undecided tests fork.
    -> set of reachable CFG node ids"""
    cfg = cx.cfg

    def ev(e, env):
        v = atom_eval(e)
        if v is not None:
            return v
        if isinstance(e, ast.Constant) and isinstance(e.value, (bool, type(None))):
            return bool(e.value)
        if isinstance(e, ast.Name) and e.id in env:
            if env[e.id] == 'SOME':
                return None
            return False if env[e.id] == 'NONE' else env[e.id]
        if isinstance(e, ast.Compare) and len(e.ops) == 1 and isinstance(e.left, ast.Name) and e.left.id in env \
                and isinstance(e.comparators[0], ast.Constant) and e.comparators[0].value is None and isinstance(e.ops[0], (ast.Is, ast.IsNot, ast.Eq, ast.NotEq)):
            isnone = env[e.left.id] == 'NONE'
            return isnone if isinstance(e.ops[0], (ast.Is, ast.Eq)) else not isnone
        if isinstance(e, ast.UnaryOp) and isinstance(e.op, ast.Not):
            v = ev(e.operand, env)
            return None if v is None else (not v)
        if isinstance(e, ast.Call) and isinstance(e.func, ast.Name) and e.func.id == 'bool' and len(e.args) == 1 and not e.keywords:
            return ev(e.args[0], env)
        if isinstance(e, ast.BoolOp):
            vs = [ev(x, env) for x in e.values]
            if isinstance(e.op, ast.And):
                if any(v is False for v in vs):
                    return False
                return True if all(v is True for v in vs) else None
            if any(v is True for v in vs):
                return True
            return False if all(v is False for v in vs) else None
        if isinstance(e, ast.IfExp):
            t = ev(e.test, env)
            if t is None:
                a, b = ev(e.body, env), ev(e.orelse, env)
                return a if a == b else None
            return ev(e.body if t else e.orelse, env)
        return None
    loop_vars = {x.id for n_ in cfg.nodes if n_.kind == 'for' for x in ast.walk(n_.ast.target) if isinstance(x, ast.Name)}
    seen = set()
    todo = [(start or cfg.entry, ())]
    out = set()
    while todo:
        n, envt = todo.pop()
        key = (n.id, envt)
        if key in seen:
            continue
        seen.add(key)
        out.add(n.id)
        if n.id in stop and n is not (start or cfg.entry):
            continue
        env = dict(envt)
        if n.kind == 'stmt' and isinstance(n.ast, (ast.Assign, ast.AnnAssign, ast.AugAssign)):
            tg = n.ast.targets if isinstance(n.ast, ast.Assign) else [n.ast.target]
            for t in tg:
                for x in ast.walk(t):
                    if isinstance(x, ast.Name):
                        env.pop(x.id, None)
            if isinstance(n.ast, ast.Assign) and len(tg) == 1 and isinstance(tg[0], ast.Name):
                if isinstance(n.ast.value, ast.Constant) and n.ast.value.value is None:
                    env[tg[0].id] = 'NONE'
                else:
                    v = ev(n.ast.value, dict(envt))
                    if v is not None:
                        env[tg[0].id] = v
                    elif isinstance(n.ast.value, (ast.Tuple, ast.List, ast.Dict, ast.Set, ast.JoinedStr)):
                        env[tg[0].id] = 'SOME'          # a display: not None
                    elif isinstance(n.ast.value, ast.IfExp) and ev(n.ast.value.test, dict(envt)) is not None:
                        br = n.ast.value.body if ev(n.ast.value.test, dict(envt)) else n.ast.value.orelse
                        if isinstance(br, ast.Constant) and br.value is None:
                            env[tg[0].id] = 'NONE'
                        elif isinstance(br, (ast.Attribute, ast.Constant, ast.Tuple, ast.List, ast.Dict, ast.JoinedStr)):
                            env[tg[0].id] = 'SOME'      # a constant / display: not None
                    elif isinstance(n.ast.value, ast.Name) and n.ast.value.id in loop_vars:
                        # `found = item` inside a search loop: the element found, not None (stated assumption: collections searched hold no None)
                        env[tg[0].id] = 'SOME'
        elif n.kind in ('for', 'with', 'handler'):
            for (nm, _) in cfg.defs_of(n):
                env.pop(nm, None)
        nenv = tuple(sorted(env.items()))
        if n.kind == 'test':
            v = ev(n.ast, env)
            for (m, l) in n.succ:
                if l == 'exc':
                    continue
                if v is None or l == v:
                    todo.append((m, nenv))
        else:
            for (m, l) in n.succ:
                if l != 'exc':
                    todo.append((m, nenv))
    return out


def explore_sym(cx, atom_eval, transfer, state0=(), on_edge=None, start=None, on_undecided=None, node_aware=False):
    """explore() with a rule-defined symbolic state carried along each path.
    state: a hashable value (e.g. a sorted tuple of (local, symbolic value));
    atom_eval(expr, state) -> True / False / None   decides atomic conditions in that state;
    transfer(node, state) -> state                  effect of a statement / loop head on the state;
    on_edge(test node, label, state) -> state       what taking that edge of a test teaches (optional);
    on_undecided(test node, state)                  called when a test forks (a rule may refuse conditions it does not model).
    node_aware: atom_eval is called as atom_eval(expr, state, node) with the CFG node the expression is evaluated in.
    Boolean locals are tracked as in explore(). -> set of (node id, state) reached; the walk is exhaustive over the finite
    state space the rule defines (the rule is responsible for keeping it finite)."""
    cfg = cx.cfg
    cur = [None]

    def ev(e, env, st):
        v = atom_eval(e, st, cur[0]) if node_aware else atom_eval(e, st)
        if v is not None:
            return v
        if isinstance(e, ast.Constant) and isinstance(e.value, (bool, type(None))):
            return bool(e.value)
        if isinstance(e, ast.Name) and e.id in env:
            return False if env[e.id] == 'NONE' else env[e.id]
        if isinstance(e, ast.UnaryOp) and isinstance(e.op, ast.Not):
            v = ev(e.operand, env, st)
            return None if v is None else (not v)
        if isinstance(e, ast.Call) and isinstance(e.func, ast.Name) and e.func.id == 'bool' and len(e.args) == 1 and not e.keywords:
            return ev(e.args[0], env, st)
        if isinstance(e, ast.BoolOp):
            vs = [ev(x, env, st) for x in e.values]
            if isinstance(e.op, ast.And):
                if any(v is False for v in vs):
                    return False
                return True if all(v is True for v in vs) else None
            if any(v is True for v in vs):
                return True
            return False if all(v is False for v in vs) else None
        if isinstance(e, ast.IfExp):
            t = ev(e.test, env, st)
            if t is None:
                a, b = ev(e.body, env, st), ev(e.orelse, env, st)
                return a if a == b else None
            return ev(e.body if t else e.orelse, env, st)
        return None
    seen = set()
    todo = [(start or cfg.entry, (), state0)]
    out = set()
    while todo:
        n, envt, st = todo.pop()
        key = (n.id, envt, st)
        if key in seen:
            continue
        seen.add(key)
        out.add((n.id, st))
        env = dict(envt)
        st2 = st
        cur[0] = n
        if n.kind == 'stmt' and isinstance(n.ast, (ast.Assign, ast.AnnAssign, ast.AugAssign)):
            tg = n.ast.targets if isinstance(n.ast, ast.Assign) else [n.ast.target]
            for t in tg:
                for x in ast.walk(t):
                    if isinstance(x, ast.Name):
                        env.pop(x.id, None)
            if isinstance(n.ast, ast.Assign) and len(tg) == 1 and isinstance(tg[0], ast.Name):
                v = ev(n.ast.value, dict(envt), st)
                if v is not None and isinstance(v, bool):
                    env[tg[0].id] = v
        elif n.kind in ('for', 'with', 'handler'):
            for (nm, _) in cfg.defs_of(n):
                env.pop(nm, None)
        if n.kind != 'test':
            st2 = transfer(n, st)
        nenv = tuple(sorted(env.items()))
        if n.kind == 'test':
            v = ev(n.ast, env, st)
            if v is None and on_undecided:
                on_undecided(n, st)
            for (m, l) in n.succ:
                if l == 'exc':
                    continue
                if v is None or l == v:
                    todo.append((m, nenv, on_edge(n, l, st) if on_edge else st))
        else:
            for (m, l) in n.succ:
                if l != 'exc':
                    todo.append((m, nenv, st2))
    return out


def root_params(cx, node, expr, depth=0, seen=None):
    """names of the parameters of cx's function that the value of `expr` at `node` is computed from, followed through locals
    (`pkt = Name.normalize(pkt_name); f(pkt[:-1])` -> {'pkt_name'})"""
    seen = set() if seen is None else seen
    out = set()
    params = {a.arg for a in cx.f.node.args.posonlyargs + cx.f.node.args.args + cx.f.node.args.kwonlyargs}
    for x in ast.walk(expr):
        if not (isinstance(x, ast.Name) and isinstance(x.ctx, ast.Load)):
            continue
        for s in cx.sources(node, x):
            if s.kind == 'param':
                out.add(str(s.expr))
            elif s.kind == 'expr' and s.node is not None and depth < 6:
                key = (s.node.id, ast.unparse(s.expr))
                if key in seen:
                    continue
                seen.add(key)
                if isinstance(s.expr, ast.Name) and s.expr.id in params and s.expr.id == x.id:
                    out.add(s.expr.id)
                else:
                    out |= root_params(s.ctx or cx, s.node, s.expr, depth + 1, seen)
    return out


def template_text(e, decide=None):
    """a string-building expression as a template with `{expr}` holes: constants, f-strings, `+`, `'..{}..'.format(a, b)` (auto / indexed /
    named fields), `'..%s..' % x`; a conditional between constants is chosen with `decide(test) -> bool` when given. None if not understood."""
    if isinstance(e, ast.Constant) and isinstance(e.value, str):
        return e.value
    if isinstance(e, ast.JoinedStr):
        out = ''
        for v in e.values:
            if isinstance(v, ast.Constant):
                out += str(v.value)
            elif isinstance(v, ast.FormattedValue) and v.format_spec is None and v.conversion == -1:
                t = template_text(v.value, decide)
                out += t if t is not None and isinstance(v.value, (ast.Constant, ast.IfExp, ast.JoinedStr)) else '{' + ast.unparse(v.value) + '}'
            else:
                return None
        return out
    if isinstance(e, ast.IfExp) and decide is not None:
        d = decide(e.test)
        if d is None:
            return None
        return template_text(e.body if d else e.orelse, decide)
    if isinstance(e, ast.BinOp) and isinstance(e.op, ast.Add):
        a, b = template_text(e.left, decide), template_text(e.right, decide)
        if a is None and not isinstance(e.left, (ast.BinOp, ast.JoinedStr, ast.Constant, ast.IfExp, ast.Call)):
            a = '{' + ast.unparse(e.left) + '}'
        if b is None and not isinstance(e.right, (ast.BinOp, ast.JoinedStr, ast.Constant, ast.IfExp, ast.Call)):
            b = '{' + ast.unparse(e.right) + '}'
        return None if a is None or b is None else a + b
    if isinstance(e, ast.Call) and isinstance(e.func, ast.Attribute) and e.func.attr == 'format' and isinstance(e.func.value, ast.Constant) \
            and isinstance(e.func.value.value, str) and not any(isinstance(a, ast.Starred) for a in e.args) and all(k.arg for k in e.keywords):
        import string
        out, auto = '', 0
        try:
            for lit, field, spec, conv in string.Formatter().parse(e.func.value.value):
                out += lit
                if field is None:
                    continue
                if spec or conv:
                    return None
                if field == '':
                    arg = e.args[auto]
                    auto += 1
                elif field.isdigit():
                    arg = e.args[int(field)]
                else:
                    arg = {k.arg: k.value for k in e.keywords}[field]
                t = template_text(arg, decide) if isinstance(arg, (ast.Constant, ast.IfExp, ast.JoinedStr)) else None
                out += t if t is not None else '{' + ast.unparse(arg) + '}'
        except (IndexError, KeyError, ValueError):
            return None
        return out
    if isinstance(e, ast.BinOp) and isinstance(e.op, ast.Mod) and isinstance(e.left, ast.Constant) and isinstance(e.left.value, str):
        args = list(e.right.elts) if isinstance(e.right, ast.Tuple) else [e.right]
        parts = e.left.value.split('%s')
        if len(parts) != len(args) + 1 or '%' in ''.join(parts):
            return None
        out = parts[0]
        for a, p in zip(args, parts[1:]):
            t = template_text(a, decide) if isinstance(a, (ast.Constant, ast.IfExp, ast.JoinedStr)) else None
            out += (t if t is not None else '{' + ast.unparse(a) + '}') + p
        return out
    return None


def path_texts(cx, node, exprs, limit=4000, atom=None):
    """the values `exprs` (ast expressions) can have at CFG node `node`, each as text with every local replaced by what it was
    bound to on that path, one tuple per distinct path history (paths are followed exhaustively; loops bind their target opaquely).
    `x = f(a); y = x.name` read at a use of y gives `f(a).name`."""
    import copy

    class Sub(ast.NodeTransformer):
        def __init__(self, env):
            self.env = env

        def visit_Name(self, n):
            if isinstance(n.ctx, ast.Load) and n.id in self.env:
                return ast.parse(self.env[n.id], mode='eval').body
            return n

        def visit_Lambda(self, n):
            return n
        visit_ListComp = visit_SetComp = visit_DictComp = visit_GeneratorExp = visit_Lambda

    def text(e, env):
        return ast.unparse(Sub(env).visit(copy.deepcopy(e)))

    def transfer(n, stt):
        env = dict(stt)
        if n.kind == 'stmt' and isinstance(n.ast, (ast.Assign, ast.AnnAssign)) and getattr(n.ast, 'value', None) is not None:
            tgts = n.ast.targets if isinstance(n.ast, ast.Assign) else [n.ast.target]
            v = n.ast.value
            for t in tgts:
                if isinstance(t, ast.Name):
                    new = text(v, env)
                    env[t.id] = new if len(new) < 400 else f'<{t.id}>'
                elif isinstance(t, (ast.Tuple, ast.List)) and isinstance(v, (ast.Tuple, ast.List)) and len(t.elts) == len(v.elts):
                    news = [text(x, env) for x in v.elts]
                    for tt, nn in zip(t.elts, news):
                        if isinstance(tt, ast.Name):
                            env[tt.id] = nn if len(nn) < 400 else f'<{tt.id}>'
                else:
                    for x in ast.walk(t):
                        if isinstance(x, ast.Name) and isinstance(x.ctx, ast.Store):
                            env.pop(x.id, None)
        elif n.kind == 'stmt' and isinstance(n.ast, ast.AugAssign) and isinstance(n.ast.target, ast.Name):
            env.pop(n.ast.target.id, None)
        elif n.kind in ('for', 'with', 'handler'):
            for (nm, _) in cx.cfg.defs_of(n):
                env.pop(nm, None)
        return tuple(sorted(env.items()))
    reached = explore_sym(cx, (lambda e, st: atom(e)) if atom else (lambda e, st: None), transfer, ())
    out = set()
    for (nid, stt) in reached:
        if nid == node.id:
            env = dict(stt)
            out.add(tuple(text(e, env) for e in exprs))
            if len(out) > limit:
                raise AnalysisError(f'{cx.qual}: too many path histories')
    return out


IMMUTABLE_NAMES = {'str', 'bytes', 'int', 'bool', 'float', 'frozenset', 'None', 'complex'}


def memo_rule(R, oid, modules, why):
    """MEM: no function of the given modules that hands out a mutable object is memoised (functools.lru_cache / cache): every caller of a
    memoised function gets the *same* object, so what one caller (or the library itself) changes in place is what every later caller sees.
    Zero instances is the normal case; the obligation is registered with the number of functions examined."""
    P = R.P
    R.ob(oid, 'no function handing out a mutable object is memoised (every caller would get the same object): ' + why)
    n = 0
    for q, f in sorted(P.funcs.items()):
        if f.mod not in modules:
            continue
        n += 1
        memo = [d for d in getattr(f.node, 'decorator_list', []) if ast.unparse(d).split('(')[0].split('.')[-1] in ('lru_cache', 'cache', 'cached_property')]
        if not memo:
            continue
        rets = [r.value for r in ast.walk(f.node) if isinstance(r, ast.Return) and r.value is not None]
        ann = ast.unparse(f.node.returns) if f.node.returns is not None else None

        def immutable(e):
            if isinstance(e, (ast.Constant, ast.JoinedStr)):
                return True
            if isinstance(e, ast.Call) and isinstance(e.func, ast.Name) and e.func.id in IMMUTABLE_NAMES | {'len', 'hash'}:
                return True
            if isinstance(e, ast.Call):
                r = P.resolve(f.mod, e.func)
                if r and r[0] == 'ext':
                    return True          # an object of another library: opaque, assumed to be safe to share (stated assumption)
            return False
        if ann in IMMUTABLE_NAMES or (rets and all(immutable(e) for e in rets)):
            R.ok(oid, f'{q} :: memoised, result immutable / opaque', f.loc(), ast.unparse(memo[0]))
            continue
        R.fail(oid, f'{q} :: memoised', q, memo[0], f'{q.rsplit(".", 1)[1]}() is memoised (`@{ast.unparse(memo[0])}`) and returns '
               f'{"`" + ast.unparse(rets[0])[:50] + "`" if rets else "an object"}{" (-> " + ann + ")" if ann else ""}, which is mutable: all calls with equal arguments '
               'return the same object, and a change made to it in place (by a caller or by the library) shows in the result of every later call', f.loc(memo[0]))
    R.ok(oid, f'{len(modules)} module(s) :: functions examined', '', f'{n} functions')
    return n


def new_callees(R, cx, depth=2):
    """contexts of the functions cx calls that did not exist in the reference tree and could not be expanded in place (a helper used inside a
    comprehension, a generator helper, a decorated helper): the statements a rule looks for in cx may stand there now"""
    from ..inline import _resolve, baseline
    base = baseline() or set()
    out, seen, todo = [], {cx.qual}, [(cx, 0)]
    while todo:
        c, d = todo.pop()
        for x in ast.walk(c.f.node):
            if isinstance(x, ast.Call):
                try:
                    q = _resolve(R.P, c.f, x)
                except Exception:
                    q = None
                if isinstance(q, str) and q in R.P.funcs and q not in base and q not in seen:
                    seen.add(q)
                    c2 = ctx(R, q)
                    out.append(c2)
                    if d + 1 < depth:
                        todo.append((c2, d + 1))
    return out
